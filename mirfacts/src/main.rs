//! mirfacts: a rustc driver that dumps type-checked facts (MIR CFGs with
//! resolved callees, ADT tables, impl tables, statics) as JSON.
//!
//! Used as RUSTC_WORKSPACE_WRAPPER: argv[1] is the real rustc path (dropped).
//! Environment:
//!   MIRFACTS_OUT   directory for fact files (required to dump)
//!   MIRFACTS_NONCE copied into the fact file
//!   MIRFACTS_TAG   configuration tag, part of the file name
#![feature(rustc_private)]

extern crate rustc_abi;
extern crate rustc_driver;
extern crate rustc_hir;
extern crate rustc_interface;
extern crate rustc_middle;
extern crate rustc_span;

use rustc_driver::Compilation;
use rustc_hir::def::DefKind;
use rustc_hir::def_id::{DefId, LocalDefId};
use rustc_middle::mir::{self, *};
use rustc_middle::ty::{self, Instance, Ty, TyCtxt, TypingEnv};
use rustc_span::Span;
use std::fmt::Write as _;

mod json;
use json::J;

struct Cb;

impl rustc_driver::Callbacks for Cb {
    fn after_analysis<'tcx>(
        &mut self,
        _compiler: &rustc_interface::interface::Compiler,
        tcx: TyCtxt<'tcx>,
    ) -> Compilation {
        if let Ok(out) = std::env::var("MIRFACTS_OUT") {
            dump(tcx, &out);
        }
        Compilation::Continue
    }
}

fn main() {
    let mut args: Vec<String> = std::env::args().collect();
    // RUSTC_WORKSPACE_WRAPPER passes the real rustc as argv[1].
    if args.len() > 1 && (args[1].ends_with("rustc") || args[1].contains("/rustc")) {
        args.remove(1);
    }
    rustc_driver::run_compiler(&args, &mut Cb);
}

fn span_str(tcx: TyCtxt<'_>, sp: Span) -> String {
    let sm = tcx.sess.source_map();
    // use the outermost call-site so macro-generated code points at its use
    let sp2 = sp.source_callsite();
    let lo = sm.lookup_char_pos(sp2.lo());
    format!(
        "{}:{}:{}",
        lo.file.name.prefer_local_unconditionally(),
        lo.line,
        lo.col.0 + 1
    )
}

fn span_json(tcx: TyCtxt<'_>, sp: Span) -> J {
    J::obj(vec![
        ("s", J::s(span_str(tcx, sp))),
        ("x", J::Bool(sp.from_expansion())),
    ])
}

fn ty_str<'tcx>(t: Ty<'tcx>) -> String {
    ty::print::with_no_trimmed_paths!(format!("{}", t))
}

fn def_str(tcx: TyCtxt<'_>, d: DefId) -> String {
    ty::print::with_no_trimmed_paths!(tcx.def_path_str(d))
}

struct BodyCx<'a, 'tcx> {
    tcx: TyCtxt<'tcx>,
    body: &'a Body<'tcx>,
    owner: DefId,
    env: TypingEnv<'tcx>,
}

impl<'a, 'tcx> BodyCx<'a, 'tcx> {
    fn place(&self, p: &Place<'tcx>) -> J {
        let mut projs = Vec::new();
        let mut pty = mir::PlaceTy::from_ty(self.body.local_decls[p.local].ty);
        for elem in p.projection.iter() {
            let j = match elem {
                ProjectionElem::Deref => J::s("deref"),
                ProjectionElem::Field(f, t) => {
                    // field name if ADT
                    let mut name = String::new();
                    if let ty::Adt(adt, _) = pty.ty.kind() {
                        let vidx = pty.variant_index.unwrap_or(rustc_abi::FIRST_VARIANT);
                        if adt.is_enum() || adt.is_struct() || adt.is_union() {
                            if let Some(v) = adt.variants().get(vidx) {
                                if let Some(fd) = v.fields.get(f) {
                                    name = fd.name.to_string();
                                }
                            }
                        }
                    }
                    J::obj(vec![
                        ("f", J::Int(f.as_usize() as i128)),
                        ("name", J::s(name)),
                        ("ty", J::s(ty_str(t))),
                    ])
                }
                ProjectionElem::Downcast(name, v) => J::obj(vec![
                    ("dc", J::Int(v.as_usize() as i128)),
                    (
                        "name",
                        J::s(name.map(|n| n.to_string()).unwrap_or_default()),
                    ),
                ]),
                ProjectionElem::Index(l) => J::obj(vec![("idx", J::Int(l.as_usize() as i128))]),
                ProjectionElem::ConstantIndex {
                    offset,
                    min_length,
                    from_end,
                } => J::obj(vec![
                    ("cidx", J::Int(offset as i128)),
                    ("min", J::Int(min_length as i128)),
                    ("from_end", J::Bool(from_end)),
                ]),
                ProjectionElem::Subslice { from, to, from_end } => J::obj(vec![
                    ("sub", J::Int(from as i128)),
                    ("to", J::Int(to as i128)),
                    ("from_end", J::Bool(from_end)),
                ]),
                ProjectionElem::OpaqueCast(t) => J::obj(vec![("ocast", J::s(ty_str(t)))]),
                ProjectionElem::UnwrapUnsafeBinder(t) => {
                    J::obj(vec![("unbinder", J::s(ty_str(t)))])
                }
            };
            projs.push(j);
            pty = pty.projection_ty(self.tcx, elem);
        }
        J::obj(vec![
            ("l", J::Int(p.local.as_usize() as i128)),
            ("p", J::Arr(projs)),
            ("ty", J::s(ty_str(pty.ty))),
        ])
    }

    fn const_op(&self, c: &ConstOperand<'tcx>) -> J {
        let ty = c.const_.ty();
        let mut fields = vec![
            ("k", J::s("const")),
            ("ty", J::s(ty_str(ty))),
            (
                "val",
                J::s(ty::print::with_no_trimmed_paths!(format!("{}", c.const_))),
            ),
        ];
        // function items / closures
        match ty.kind() {
            ty::FnDef(d, args) => {
                fields.push(("fn", J::s(def_str(self.tcx, *d))));
                fields.push((
                    "fn_args",
                    J::Arr(args.iter().map(|a| J::s(format!("{}", a))).collect()),
                ));
            }
            _ => {}
        }
        // promoted / unevaluated
        if let Const::Unevaluated(u, _) = c.const_ {
            if let Some(p) = u.promoted {
                fields.push(("promoted", J::Int(p.as_usize() as i128)));
            }
            fields.push(("uneval", J::s(def_str(self.tcx, u.def))));
        }
        // scalar ints
        if ty.is_integral() || ty.is_bool() || ty.is_char() {
            if let Some(si) = c.const_.try_eval_scalar_int(self.tcx, self.env) {
                let size = si.size();
                let v: i128 = if ty.is_signed() {
                    si.to_int(size)
                } else {
                    si.to_uint(size) as i128
                };
                fields.push(("int", J::Int(v)));
            }
        }
        if ty.is_floating_point() {
            if let Some(si) = c.const_.try_eval_scalar_int(self.tcx, self.env) {
                let size = si.size();
                let bits = si.to_uint(size);
                let f = if size.bytes() == 8 {
                    f64::from_bits(bits as u64)
                } else if size.bytes() == 4 {
                    f32::from_bits(bits as u32) as f64
                } else {
                    f64::NAN
                };
                fields.push(("float", J::s(format!("{:?}", f))));
            }
        }
        J::obj(fields)
    }

    fn operand(&self, o: &Operand<'tcx>) -> J {
        match o {
            Operand::Copy(p) => {
                let mut j = self.place(p);
                j.push("k", J::s("copy"));
                j
            }
            Operand::Move(p) => {
                let mut j = self.place(p);
                j.push("k", J::s("move"));
                j
            }
            Operand::Constant(c) => self.const_op(c),
            #[allow(unreachable_patterns)]
            _ => J::obj(vec![("k", J::s("other")), ("dbg", J::s(format!("{:?}", o)))]),
        }
    }

    fn discr_table(&self, t: Ty<'tcx>) -> Option<(String, J)> {
        if let ty::Adt(adt, _) = t.kind() {
            if adt.is_enum() {
                let mut m = Vec::new();
                for (vidx, d) in adt.discriminants(self.tcx) {
                    let name = adt.variant(vidx).name.to_string();
                    m.push(J::Arr(vec![J::Int(d.val as i128), J::s(name)]));
                }
                return Some((def_str(self.tcx, adt.did()), J::Arr(m)));
            }
        }
        None
    }

    fn rvalue(&self, rv: &Rvalue<'tcx>) -> J {
        match rv {
            Rvalue::Use(o, ..) => J::obj(vec![("k", J::s("use")), ("op", self.operand(o))]),
            Rvalue::Repeat(o, _) => J::obj(vec![("k", J::s("repeat")), ("op", self.operand(o))]),
            Rvalue::Ref(_, bk, p) => J::obj(vec![
                ("k", J::s("ref")),
                ("mut", J::Bool(matches!(bk, BorrowKind::Mut { .. }))),
                ("place", self.place(p)),
            ]),
            Rvalue::RawPtr(_, p) => J::obj(vec![("k", J::s("rawptr")), ("place", self.place(p))]),
            Rvalue::Cast(ck, o, t) => J::obj(vec![
                ("k", J::s("cast")),
                ("ck", J::s(format!("{:?}", ck))),
                ("op", self.operand(o)),
                ("from", J::s(ty_str(o.ty(self.body, self.tcx)))),
                ("to", J::s(ty_str(*t))),
            ]),
            Rvalue::BinaryOp(op, ab) => J::obj(vec![
                ("k", J::s("binop")),
                ("op", J::s(format!("{:?}", op))),
                ("a", self.operand(&ab.0)),
                ("b", self.operand(&ab.1)),
            ]),
            Rvalue::UnaryOp(op, o) => J::obj(vec![
                ("k", J::s("unop")),
                ("op", J::s(format!("{:?}", op))),
                ("a", self.operand(o)),
            ]),
            Rvalue::Discriminant(p) => {
                let pty = p.ty(self.body, self.tcx).ty;
                let mut f = vec![("k", J::s("discr")), ("place", self.place(p))];
                if let Some((adt, tab)) = self.discr_table(pty) {
                    f.push(("adt", J::s(adt)));
                    f.push(("variants", tab));
                }
                J::obj(f)
            }
            Rvalue::Aggregate(kind, ops) => {
                let mut f = vec![("k", J::s("agg"))];
                match &**kind {
                    AggregateKind::Array(t) => {
                        f.push(("ak", J::s("array")));
                        f.push(("elem", J::s(ty_str(*t))));
                    }
                    AggregateKind::Tuple => f.push(("ak", J::s("tuple"))),
                    AggregateKind::Adt(did, vidx, _args, _, _) => {
                        let adt = self.tcx.adt_def(*did);
                        f.push(("ak", J::s("adt")));
                        f.push(("adt", J::s(def_str(self.tcx, *did))));
                        f.push(("variant", J::s(adt.variant(*vidx).name.to_string())));
                        f.push(("vidx", J::Int(vidx.as_usize() as i128)));
                        f.push((
                            "fnames",
                            J::Arr(
                                adt.variant(*vidx)
                                    .fields
                                    .iter()
                                    .map(|fd| J::s(fd.name.to_string()))
                                    .collect(),
                            ),
                        ));
                    }
                    AggregateKind::Closure(did, _) => {
                        f.push(("ak", J::s("closure")));
                        f.push(("def", J::s(def_str(self.tcx, *did))));
                    }
                    other => {
                        f.push(("ak", J::s("other")));
                        f.push(("dbg", J::s(format!("{:?}", other))));
                    }
                }
                f.push(("ops", J::Arr(ops.iter().map(|o| self.operand(o)).collect())));
                J::obj(f)
            }
            Rvalue::CopyForDeref(p) => J::obj(vec![
                ("k", J::s("use")),
                ("op", {
                    let mut j = self.place(p);
                    j.push("k", J::s("copy"));
                    j
                }),
            ]),
            other => J::obj(vec![
                ("k", J::s("other")),
                ("dbg", J::s(format!("{:?}", other))),
            ]),
        }
    }

    fn callee(&self, func: &Operand<'tcx>, f: &mut Vec<(&'static str, J)>) {
        let fty = func.ty(self.body, self.tcx);
        match fty.kind() {
            ty::FnDef(did, args) => {
                f.push(("callee", J::s(def_str(self.tcx, *did))));
                f.push((
                    "callee_args",
                    J::Arr(
                        args.iter()
                            .map(|a| J::s(ty::print::with_no_trimmed_paths!(format!("{}", a))))
                            .collect(),
                    ),
                ));
                f.push(("callee_local", J::Bool(did.is_local())));
                // trait the method belongs to (if any)
                if let Some(tr) = self.tcx.trait_of_assoc(*did) {
                    f.push(("callee_trait", J::s(def_str(self.tcx, tr))));
                }
                if let Some(imp) = self.tcx.impl_of_assoc(*did) {
                    if let Some(trr) = self.tcx.impl_opt_trait_ref(imp) {
                        let trr = trr.instantiate_identity().skip_norm_wip();
                        f.push(("callee_impl_trait", J::s(def_str(self.tcx, trr.def_id))));
                    }
                    let st = self.tcx.type_of(imp).instantiate_identity().skip_norm_wip();
                    f.push(("callee_impl_self", J::s(ty_str(st))));
                }
                // resolved instance
                let args_n = self
                    .tcx
                    .try_normalize_erasing_regions(self.env, ty::Unnormalized::new_wip(*args))
                    .unwrap_or(*args);
                match Instance::try_resolve(self.tcx, self.env, *did, args_n) {
                    Ok(Some(inst)) => {
                        let rd = inst.def_id();
                        f.push(("resolved", J::s(def_str(self.tcx, rd))));
                        f.push(("resolved_local", J::Bool(rd.is_local())));
                        f.push((
                            "resolved_kind",
                            J::s(
                                format!("{:?}", inst.def)
                                    .split('(')
                                    .next()
                                    .unwrap_or("")
                                    .to_string(),
                            ),
                        ));
                        if rd != *did || inst.args != *args {
                            let rp = self.tcx.predicates_of(rd).instantiate(self.tcx, inst.args);
                            let mut rps = Vec::new();
                            for (clause, _) in rp {
                                let clause = clause.skip_norm_wip();
                                if let Some(tp) = clause.as_trait_clause() {
                                    let tp = tp.skip_binder();
                                    rps.push(J::Arr(vec![
                                        J::s(ty_str(tp.self_ty())),
                                        J::s(def_str(self.tcx, tp.def_id())),
                                    ]));
                                }
                            }
                            f.push(("resolved_obligations", J::Arr(rps)));
                        }
                        f.push((
                            "resolved_args",
                            J::Arr(
                                inst.args
                                    .iter()
                                    .map(|a| {
                                        J::s(ty::print::with_no_trimmed_paths!(format!("{}", a)))
                                    })
                                    .collect(),
                            ),
                        ));
                    }
                    _ => {}
                }
                // instantiated trait obligations of the callee
                let preds = self.tcx.predicates_of(*did).instantiate(self.tcx, args);
                let mut ps = Vec::new();
                for (clause, _) in preds {
                    let clause = clause.skip_norm_wip();
                    if let Some(tp) = clause.as_trait_clause() {
                        let tp = tp.skip_binder();
                        ps.push(J::Arr(vec![
                            J::s(ty_str(tp.self_ty())),
                            J::s(def_str(self.tcx, tp.def_id())),
                        ]));
                    }
                }
                f.push(("obligations", J::Arr(ps)));
            }
            _ => {
                f.push(("callee", J::s("<indirect>")));
                f.push(("callee_ty", J::s(ty_str(fty))));
                f.push(("func", self.operand(func)));
            }
        }
    }

    fn terminator(&self, t: &Terminator<'tcx>) -> J {
        let bb = |b: BasicBlock| J::Int(b.as_usize() as i128);
        let unwind = |u: &UnwindAction| match u {
            UnwindAction::Cleanup(b) => J::Int(b.as_usize() as i128),
            _ => J::Null,
        };
        let mut f: Vec<(&'static str, J)> = Vec::new();
        match &t.kind {
            TerminatorKind::Goto { target } => {
                f.push(("k", J::s("goto")));
                f.push(("t", bb(*target)));
            }
            TerminatorKind::SwitchInt { discr, targets } => {
                f.push(("k", J::s("switch")));
                f.push(("discr", self.operand(discr)));
                f.push((
                    "targets",
                    J::Arr(
                        targets
                            .iter()
                            .map(|(v, b)| {
                                // sign-interpret by discr type
                                let dty = discr.ty(self.body, self.tcx);
                                let vv: i128 = if dty.is_signed() {
                                    let bits = dty
                                        .primitive_size(self.tcx)
                                        .bits();
                                    let sh = 128 - bits;
                                    ((v as i128) << sh) >> sh
                                } else {
                                    v as i128
                                };
                                J::Arr(vec![J::Int(vv), bb(b)])
                            })
                            .collect(),
                    ),
                ));
                f.push(("otherwise", bb(targets.otherwise())));
            }
            TerminatorKind::Return => f.push(("k", J::s("return"))),
            TerminatorKind::Unreachable => f.push(("k", J::s("unreachable"))),
            TerminatorKind::UnwindResume => f.push(("k", J::s("resume"))),
            TerminatorKind::UnwindTerminate(_) => f.push(("k", J::s("terminate"))),
            TerminatorKind::Drop {
                place,
                target,
                unwind: u,
                ..
            } => {
                f.push(("k", J::s("drop")));
                f.push(("place", self.place(place)));
                f.push(("t", bb(*target)));
                f.push(("unwind", unwind(u)));
            }
            TerminatorKind::Call {
                func,
                args,
                destination,
                target,
                unwind: u,
                fn_span,
                ..
            } => {
                f.push(("k", J::s("call")));
                self.callee(func, &mut f);
                f.push((
                    "args",
                    J::Arr(args.iter().map(|a| self.operand(&a.node)).collect()),
                ));
                f.push(("dest", self.place(destination)));
                f.push(("t", target.map(bb).unwrap_or(J::Null)));
                f.push(("unwind", unwind(u)));
                f.push(("fn_span", span_json(self.tcx, *fn_span)));
            }
            TerminatorKind::TailCall { func, args, .. } => {
                f.push(("k", J::s("tailcall")));
                self.callee(func, &mut f);
                f.push((
                    "args",
                    J::Arr(args.iter().map(|a| self.operand(&a.node)).collect()),
                ));
            }
            TerminatorKind::Assert {
                cond,
                expected,
                msg,
                target,
                unwind: u,
            } => {
                f.push(("k", J::s("assert")));
                f.push(("cond", self.operand(cond)));
                f.push(("expected", J::Bool(*expected)));
                let (mk, ops): (String, Vec<J>) = match &**msg {
                    AssertKind::BoundsCheck { len, index } => (
                        "BoundsCheck".into(),
                        vec![self.operand(len), self.operand(index)],
                    ),
                    AssertKind::Overflow(op, a, b) => (
                        format!("Overflow({:?})", op),
                        vec![self.operand(a), self.operand(b)],
                    ),
                    AssertKind::OverflowNeg(a) => ("OverflowNeg".into(), vec![self.operand(a)]),
                    AssertKind::DivisionByZero(a) => {
                        ("DivisionByZero".into(), vec![self.operand(a)])
                    }
                    AssertKind::RemainderByZero(a) => {
                        ("RemainderByZero".into(), vec![self.operand(a)])
                    }
                    other => (
                        format!("{:?}", other)
                            .split(|c: char| !c.is_alphanumeric())
                            .next()
                            .unwrap_or("other")
                            .to_string(),
                        vec![],
                    ),
                };
                f.push(("msg", J::s(mk)));
                f.push(("msg_ops", J::Arr(ops)));
                f.push(("t", bb(*target)));
                f.push(("unwind", unwind(u)));
            }
            TerminatorKind::FalseEdge { real_target, .. } => {
                f.push(("k", J::s("goto")));
                f.push(("t", bb(*real_target)));
            }
            TerminatorKind::FalseUnwind { real_target, .. } => {
                f.push(("k", J::s("goto")));
                f.push(("t", bb(*real_target)));
            }
            other => {
                f.push(("k", J::s("other")));
                f.push(("dbg", J::s(format!("{:?}", other))));
            }
        }
        f.push(("span", span_json(self.tcx, t.source_info.span)));
        J::obj(f)
    }

    fn body_json(&self, kind: &str, promoted: Option<usize>) -> J {
        let tcx = self.tcx;
        let body = self.body;
        let mut f: Vec<(&'static str, J)> = Vec::new();
        f.push(("def", J::s(def_str(tcx, self.owner))));
        f.push(("kind", J::s(kind)));
        if let Some(p) = promoted {
            f.push(("promoted", J::Int(p as i128)));
        }
        f.push(("span", span_json(tcx, body.span)));
        f.push(("arg_count", J::Int(body.arg_count as i128)));
        let mut locals = Vec::new();
        for (_l, d) in body.local_decls.iter_enumerated() {
            locals.push(J::obj(vec![
                ("ty", J::s(ty_str(d.ty))),
                ("mut", J::Bool(d.mutability.is_mut())),
            ]));
        }
        f.push(("locals", J::Arr(locals)));
        let mut dbg = Vec::new();
        for v in &body.var_debug_info {
            let mut e = vec![("name", J::s(v.name.to_string()))];
            match &v.value {
                VarDebugInfoContents::Place(p) => e.push(("place", self.place(p))),
                VarDebugInfoContents::Const(c) => e.push(("const", self.const_op(c))),
            }
            if let Some(a) = v.argument_index {
                e.push(("arg", J::Int(a as i128)));
            }
            dbg.push(J::obj(e));
        }
        f.push(("debug", J::Arr(dbg)));
        let mut blocks = Vec::new();
        for (_bb, data) in body.basic_blocks.iter_enumerated() {
            let mut stmts = Vec::new();
            for s in &data.statements {
                match &s.kind {
                    StatementKind::Assign(b) => {
                        let (p, rv) = &**b;
                        stmts.push(J::obj(vec![
                            ("k", J::s("assign")),
                            ("place", self.place(p)),
                            ("rv", self.rvalue(rv)),
                            ("span", span_json(tcx, s.source_info.span)),
                        ]));
                    }
                    StatementKind::SetDiscriminant {
                        place,
                        variant_index,
                    } => {
                        stmts.push(J::obj(vec![
                            ("k", J::s("setdiscr")),
                            ("place", self.place(place)),
                            ("vidx", J::Int(variant_index.as_usize() as i128)),
                        ]));
                    }
                    StatementKind::Intrinsic(i) => {
                        stmts.push(J::obj(vec![
                            ("k", J::s("intrinsic")),
                            ("dbg", J::s(format!("{:?}", i))),
                        ]));
                    }
                    _ => {}
                }
            }
            let term = data.terminator();
            blocks.push(J::obj(vec![
                ("stmts", J::Arr(stmts)),
                ("term", self.terminator(term)),
                ("cleanup", J::Bool(data.is_cleanup)),
            ]));
        }
        f.push(("blocks", J::Arr(blocks)));
        J::obj(f)
    }
}

struct UnsafeFinder<'tcx> {
    tcx: TyCtxt<'tcx>,
    found: Vec<J>,
}

impl<'tcx> rustc_hir::intravisit::Visitor<'tcx> for UnsafeFinder<'tcx> {
    fn visit_block(&mut self, b: &'tcx rustc_hir::Block<'tcx>) {
        if let rustc_hir::BlockCheckMode::UnsafeBlock(src) = b.rules {
            self.found.push(J::obj(vec![
                ("span", span_json(self.tcx, b.span)),
                ("user", J::Bool(matches!(src, rustc_hir::UnsafeSource::UserProvided))),
            ]));
        }
        rustc_hir::intravisit::walk_block(self, b);
    }
}

fn unsafe_blocks<'tcx>(tcx: TyCtxt<'tcx>, owner: LocalDefId) -> J {
    let body = tcx.hir_body_owned_by(owner);
    let mut v = UnsafeFinder { tcx, found: Vec::new() };
    rustc_hir::intravisit::Visitor::visit_expr(&mut v, body.value);
    J::Arr(v.found)
}

fn body_kind(tcx: TyCtxt<'_>, d: LocalDefId) -> &'static str {
    match tcx.def_kind(d) {
        DefKind::Fn => "fn",
        DefKind::AssocFn => "method",
        DefKind::Closure => "closure",
        DefKind::Const { .. } | DefKind::AssocConst { .. } => "const",
        DefKind::Static { .. } => "static",
        DefKind::AnonConst | DefKind::InlineConst => "anonconst",
        _ => "other",
    }
}

fn dump(tcx: TyCtxt<'_>, out_dir: &str) {
    let crate_name = tcx.crate_name(rustc_hir::def_id::LOCAL_CRATE).to_string();
    let tag = std::env::var("MIRFACTS_TAG").unwrap_or_else(|_| "default".into());
    let nonce = std::env::var("MIRFACTS_NONCE").unwrap_or_default();
    let only = std::env::var("MIRFACTS_CRATES").unwrap_or_default();
    if !only.is_empty() && !only.split(',').any(|c| c == crate_name) {
        return;
    }

    let mut bodies = Vec::new();
    for owner in tcx.hir_body_owners() {
        let did = owner.to_def_id();
        let kind = body_kind(tcx, owner);
        let is_fn_like = matches!(kind, "fn" | "method" | "closure");
        let env = TypingEnv::post_analysis(tcx, did);
        if is_fn_like {
            let body = tcx.optimized_mir(did);
            let cx = BodyCx {
                tcx,
                body,
                owner: did,
                env,
            };
            let mut j = cx.body_json(kind, None);
            // extra fn-level facts
            if matches!(kind, "fn" | "method") {
                let sig = tcx.fn_sig(did).instantiate_identity().skip_norm_wip();
                j.push(
                    "unsafe_fn",
                    J::Bool(sig.skip_binder().safety().is_unsafe()),
                );
                j.push(
                    "sig",
                    J::s(ty::print::with_no_trimmed_paths!(format!("{}", sig))),
                );
                j.push(
                    "vis",
                    J::s(format!("{:?}", tcx.visibility(did))),
                );
                if let Some(imp) = tcx.impl_of_assoc(did) {
                    let st = tcx.type_of(imp).instantiate_identity().skip_norm_wip();
                    j.push("impl_self", J::s(ty_str(st)));
                    if let Some(trr) = tcx.impl_opt_trait_ref(imp) {
                        let trr = trr.instantiate_identity().skip_norm_wip();
                        j.push("impl_trait", J::s(def_str(tcx, trr.def_id)));
                        j.push(
                            "impl_trait_ref",
                            J::s(ty::print::with_no_trimmed_paths!(format!("{}", trr))),
                        );
                    }
                    j.push(
                        "auto_derived",
                        J::Bool(tcx.is_automatically_derived(imp)),
                    );
                }
                j.push("item_name", J::s(tcx.item_name(did).to_string()));
            }
            j.push("unsafe_blocks", unsafe_blocks(tcx, owner));
            if kind == "closure" {
                let parent = tcx.typeck_root_def_id(did);
                j.push("closure_root", J::s(def_str(tcx, parent)));
                j.push("closure_parent", J::s(def_str(tcx, tcx.parent(did))));
            }
            bodies.push(j);
        } else {
            let body = tcx.mir_for_ctfe(did);
            let cx = BodyCx {
                tcx,
                body,
                owner: did,
                env,
            };
            bodies.push(cx.body_json(kind, None));
        }
        // promoteds (also those of consts and statics: `const T: &[..] = &[..]` keeps its array in one)
        {
            let proms = tcx.promoted_mir(did);
            for (pi, pb) in proms.iter_enumerated() {
                let cx = BodyCx {
                    tcx,
                    body: pb,
                    owner: did,
                    env,
                };
                bodies.push(cx.body_json("promoted", Some(pi.as_usize())));
            }
        }
    }

    // ADTs, impls, statics, consts
    let mut adts = Vec::new();
    let mut impls = Vec::new();
    let mut statics = Vec::new();
    let mut consts = Vec::new();
    let mut traits = Vec::new();
    let mut type_aliases = Vec::new();
    for id in tcx.hir_crate_items(()).definitions() {
        let did = id.to_def_id();
        match tcx.def_kind(did) {
            DefKind::Struct | DefKind::Enum | DefKind::Union => {
                let adt = tcx.adt_def(did);
                let mut vs = Vec::new();
                for v in adt.variants() {
                    let mut fs = Vec::new();
                    for fd in v.fields.iter() {
                        let t = tcx.type_of(fd.did).instantiate_identity().skip_norm_wip();
                        fs.push(J::obj(vec![
                            ("name", J::s(fd.name.to_string())),
                            ("ty", J::s(ty_str(t))),
                            ("vis", J::s(format!("{:?}", fd.vis))),
                        ]));
                    }
                    vs.push(J::obj(vec![
                        ("name", J::s(v.name.to_string())),
                        ("fields", J::Arr(fs)),
                    ]));
                }
                adts.push(J::obj(vec![
                    ("path", J::s(def_str(tcx, did))),
                    (
                        "kind",
                        J::s(if adt.is_enum() {
                            "enum"
                        } else if adt.is_union() {
                            "union"
                        } else {
                            "struct"
                        }),
                    ),
                    ("variants", J::Arr(vs)),
                    ("span", span_json(tcx, tcx.def_span(did))),
                ]));
            }
            DefKind::Impl { of_trait } => {
                let st = tcx.type_of(did).instantiate_identity().skip_norm_wip();
                let mut f = vec![
                    ("self_ty", J::s(ty_str(st))),
                    ("of_trait", J::Bool(of_trait)),
                    ("span", span_json(tcx, tcx.def_span(did))),
                    (
                        "auto_derived",
                        J::Bool(tcx.is_automatically_derived(did)),
                    ),
                ];
                if let Some(trr) = tcx.impl_opt_trait_ref(did) {
                    let trr = trr.instantiate_identity().skip_norm_wip();
                    f.push(("trait", J::s(def_str(tcx, trr.def_id))));
                    f.push((
                        "trait_ref",
                        J::s(ty::print::with_no_trimmed_paths!(format!("{}", trr))),
                    ));
                    let hdr = tcx.impl_trait_header(did);
                    f.push(("unsafe", J::Bool(hdr.safety.is_unsafe())));
                    f.push(("polarity", J::s(format!("{:?}", hdr.polarity))));
                }
                let mut items = Vec::new();
                for it in tcx.associated_items(did).in_definition_order() {
                    items.push(J::s(it.name().to_string()));
                }
                f.push(("items", J::Arr(items)));
                impls.push(J::obj(f));
            }
            DefKind::Static { mutability, .. } => {
                let t = tcx.type_of(did).instantiate_identity().skip_norm_wip();
                statics.push(J::obj(vec![
                    ("path", J::s(def_str(tcx, did))),
                    ("ty", J::s(ty_str(t))),
                    ("mut", J::Bool(mutability.is_mut())),
                    ("span", span_json(tcx, tcx.def_span(did))),
                ]));
            }
            DefKind::Const { .. } | DefKind::AssocConst { .. } => {
                let t = tcx.type_of(did).instantiate_identity().skip_norm_wip();
                let mut f = vec![
                    ("path", J::s(def_str(tcx, did))),
                    ("ty", J::s(ty_str(t))),
                ];
                if t.is_integral() {
                    if let Ok(v) = tcx.const_eval_poly(did) {
                        if let Some(si) = v.try_to_scalar_int() {
                            let size = si.size();
                            let n: i128 = if t.is_signed() {
                                si.to_int(size)
                            } else {
                                si.to_uint(size) as i128
                            };
                            f.push(("int", J::Int(n)));
                        }
                    }
                }
                consts.push(J::obj(f));
            }
            DefKind::Trait => {
                let mut items = Vec::new();
                for it in tcx.associated_items(did).in_definition_order() {
                    items.push(J::s(it.name().to_string()));
                }
                // supertraits / predicates
                let mut supers = Vec::new();
                for cs in tcx.explicit_super_predicates_of(did).iter_identity_copied() {
                    let (clause, _) = cs.skip_norm_wip();
                    if let Some(tp) = clause.as_trait_clause() {
                        supers.push(J::s(def_str(tcx, tp.skip_binder().def_id())));
                    }
                }
                traits.push(J::obj(vec![
                    ("path", J::s(def_str(tcx, did))),
                    ("items", J::Arr(items)),
                    ("supers", J::Arr(supers)),
                ]));
            }
            DefKind::TyAlias => {
                let t = tcx.type_of(did).instantiate_identity().skip_norm_wip();
                type_aliases.push(J::obj(vec![
                    ("path", J::s(def_str(tcx, did))),
                    ("ty", J::s(ty_str(t))),
                ]));
            }
            _ => {}
        }
    }

    let root = J::obj(vec![
        ("crate", J::s(crate_name.clone())),
        ("tag", J::s(tag.clone())),
        ("nonce", J::s(nonce)),
        ("bodies", J::Arr(bodies)),
        ("adts", J::Arr(adts)),
        ("impls", J::Arr(impls)),
        ("statics", J::Arr(statics)),
        ("consts", J::Arr(consts)),
        ("traits", J::Arr(traits)),
        ("type_aliases", J::Arr(type_aliases)),
    ]);
    let mut s = String::new();
    root.write(&mut s);
    let _ = write!(s, "\n");
    let path = format!("{}/{}.{}.json", out_dir, crate_name, tag);
    let tmp = format!("{}.tmp.{}", path, std::process::id());
    std::fs::write(&tmp, s).expect("write facts");
    std::fs::rename(&tmp, &path).expect("rename facts");
}
