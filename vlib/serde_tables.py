"""Table extraction for the serde bridge and the conversion entry points
(shared by C08, C14, C17)."""
import re

from .analysis import Origins, fmt_terms

SER = "<variable::Serializer as serde::Serializer>::"
VAR = "variable::Variable"


def casts_in(body):
    out = []
    for bb, i, s in body.stmts():
        if s["k"] == "assign" and s["rv"]["k"] == "cast":
            ck = s["rv"]["ck"]
            if re.search(r"IntToInt|IntToFloat|FloatToInt|FloatToFloat", ck):
                out.append((ck, s["rv"]["from"], s["rv"]["to"], s["span"]["s"]))
    return out


def number_from_calls(body):
    """(T, arg terms) for every serde_json::Number::from::<T>() call in the body."""
    o = Origins(body)
    out = []
    for bb, t in body.calls():
        if t["callee"] in ("std::convert::From::from", "std::convert::Into::into"):
            ca = t.get("callee_args", [])
            if t["callee"].endswith("From::from") and len(ca) == 2 and ca[0] == "serde_json::Number":
                out.append((ca[1], o.of_operand(t["args"][0]), t))
            elif t["callee"].endswith("Into::into") and len(ca) == 2 and ca[1] == "serde_json::Number":
                out.append((ca[0], o.of_operand(t["args"][0]), t))
    return out


def ret_terms(body, facts=None):
    o = Origins(body, facts)
    return o, o.of_local(0)


def unwrap_ok(terms):
    """Strip Result::Ok / Rc::new wrappers: returns inner term sets, or None if any
    term is not an Ok aggregate."""
    out = set()
    for t in terms:
        if t[0] == "agg" and t[1] == "std::result::Result::Ok":
            out |= set(t[2][0])
        else:
            return None
    return out


def variable_variants(terms):
    """Set of Variable variants for a set of aggregate terms; None if some term is
    not a Variable aggregate."""
    vs = set()
    for t in terms:
        if t[0] == "agg" and t[1].startswith(VAR + "::"):
            vs.add(t[1].split("::")[-1])
        else:
            return None
    return vs


def agg_payload(terms, variant, idx=0):
    out = set()
    for t in terms:
        if t[0] == "agg" and t[1] == f"{VAR}::{variant}":
            out |= set(t[2][idx])
    return out


def describe(terms):
    return fmt_terms(terms)


def int_entry_ok(body, ty, value_term):
    """The body converts its integer argument with Number::from::<ty>(value) and
    contains no numeric cast."""
    nf = number_from_calls(body)
    cs = casts_in(body)
    ok = len(nf) == 1 and nf[0][0] == ty and nf[0][1] == {value_term} and not cs
    why = ""
    if not ok:
        why = f"Number::from calls: {[(x[0], fmt_terms(x[1])) for x in nf]}; casts: {[(c[0], c[1], c[2]) for c in cs]}"
    return ok, why


def f64_mapping_ok(terms, arg):
    """Number(from_f64(arg)) when that is Some (finite), Null otherwise — whatever the spelling (map_or, match, if let)."""
    from .tmatch import Agg, Call, Each, m
    num = Agg(VAR + "::Number", Each(Call("serde_json::Number::from_f64", Each(arg))))
    nul = Agg(VAR + "::Null")
    terms = set(terms)
    return bool(terms) and all(m(t, num) or m(t, nul) for t in terms) and any(m(t, num) for t in terms) and any(m(t, nul) for t in terms)


def f64_decided_by_from_f64(b, o, arg):
    """What an f64 becomes is decided by Number::from_f64 (None exactly for NaN and the infinities): every return lies after
    that call, and the only case analysis allowed in front of it is a finiteness test of the value itself (is_finite /
    is_nan / is_infinite) whose finite side still goes through the call — a guard such as `!is_normal()` would turn
    subnormal numbers into null while leaving the *set* of possible results as it was."""
    from .analysis import Branches, blocks_separate
    calls = {blk for blk, t in b.calls() if t["callee"] == "serde_json::Number::from_f64"}
    rets = [i for i in sorted(b.reachable()) if b.blocks[i]["term"]["k"] == "return"]
    if not calls or not rets:
        return False
    br = Branches(b, o)
    for sb, sw in br.switches():
        if any(b.dominates(c, sb) for c in calls):
            continue
        be = br.bool_edges(sb)
        cs = br.cond(sb)
        if not be or len(cs) != 1:
            return False
        c = next(iter(cs))
        if not (c[0] == "call" and len(c[2]) == 1 and set(c[2][0]) == {arg}):
            return False
        name = c[1]
        if name.endswith("::is_finite"):
            finite = be[0]
        elif name.endswith("::is_nan") or name.endswith("::is_infinite"):
            finite = be[1]
        else:
            return False
        if not all(blocks_separate(b, calls, r, start=finite) for r in rets):
            return False
        # is_nan / is_infinite alone leave the other non-finite class to from_f64, which answers None for it: fine
    # without a guard: the call separates the entry from every return
    guards = [sb for sb, sw in br.switches() if not any(b.dominates(c, sb) for c in calls)]
    return bool(guards) or all(blocks_separate(b, calls, r) for r in rets)
