"""Decision-tree equivalence of variable::slice / adjust_slice_endpoint with
CPython's PySlice_AdjustIndices + stepping loop (DESIGN §3/C07), and the
side conditions of the bounds proof used by C05.

Everything is extracted from MIR by path enumeration (symwalk); the extracted
trees (path conditions = comparisons of affine forms, leaves = affine forms)
are compared with the reference tree on a grid that hits every cell of the
arrangement of the comparison hyperplanes (complete for this class)."""
from .analysis import Origins, cfg_cycles, fmt_terms
from .symwalk import Aff, Cmp, IsSome, Opaque, SymWalker, holds

I32_MAX = 2**31 - 1
I32_MIN = -2**31


# ---- reference (CPython Objects/sliceobject.c, PySlice_AdjustIndices) --------------------
def ref_adjust(length, x, step):
    if x < 0:
        x += length
        if x < 0:
            x = -1 if step < 0 else 0
    elif x >= length:
        x = length - 1 if step < 0 else length
    return x


def ref_bounds(length, start, stop, step):
    a = ref_adjust(length, start, step) if start is not None else (length - 1 if step < 0 else 0)
    b = ref_adjust(length, stop, step) if stop is not None else (-1 if step < 0 else length)
    return a, b


class Result:
    def __init__(self):
        self.items = []  # (key, ok, text, loc)
        self.facts = {}

    def add(self, key, ok, text, loc=""):
        self.items.append((key, bool(ok), text, loc))
        return bool(ok)


def interval(aff, ranges):
    lo = hi = aff.const
    for v, c in aff.terms.items():
        if v not in ranges:
            return None
        l, h = ranges[v]
        if c >= 0:
            lo += c * l
            hi += c * h
        else:
            lo += c * h
            hi += c * l
    return lo, hi


def refine(ranges, conds):
    """Refine single-variable ranges with path conditions `var cmp const`."""
    r = dict(ranges)
    for atom, truth in conds:
        if not isinstance(atom, Cmp):
            continue
        a, b = atom.a, atom.b
        op = atom.op
        if not truth:
            op = {"Lt": "Ge", "Le": "Gt", "Gt": "Le", "Ge": "Lt", "Eq": "Ne", "Ne": "Eq"}[op]
        # normalise to var op const
        if len(a.terms) == 1 and not b.terms and list(a.terms.values()) == [1] and a.const == 0:
            v = next(iter(a.terms))
            c = b.const
        elif len(b.terms) == 1 and not a.terms and list(b.terms.values()) == [1] and b.const == 0:
            v = next(iter(b.terms))
            c = a.const
            op = {"Lt": "Gt", "Le": "Ge", "Gt": "Lt", "Ge": "Le", "Eq": "Eq", "Ne": "Ne"}[op]
        else:
            continue
        if v not in r:
            continue
        lo, hi = r[v]
        if op == "Lt":
            hi = min(hi, c - 1)
        elif op == "Le":
            hi = min(hi, c)
        elif op == "Gt":
            lo = max(lo, c + 1)
        elif op == "Ge":
            lo = max(lo, c)
        elif op == "Eq":
            lo, hi = max(lo, c), min(hi, c)
        elif op == "Ne":
            if lo == c:
                lo += 1
            if hi == c:
                hi -= 1
        r[v] = (lo, hi)
    return r


def check_adjust(lib, res):
    b = lib.fn("variable::adjust_slice_endpoint")
    if b is None:
        res.add("adjust:present", False, "variable::adjust_slice_endpoint not found")
        return None
    if cfg_cycles(b):
        res.add("adjust:loop-free", False, "adjust_slice_endpoint contains a loop", b.span)
        return None
    w = SymWalker(b)
    try:
        paths = w.run()
    except RuntimeError as e:
        res.add("adjust:paths", False, f"path enumeration failed: {e}", b.span)
        return None
    names = [w.names.get(i) for i in (1, 2, 3)]
    res.add("adjust:params", names == ["len", "endpoint", "step"] or len(set(names)) == 3,
            f"adjust_slice_endpoint(len, endpoint, step) parameters: {names}", b.span)
    ln, ep, st = names
    rets = [p for p in paths if p.leaf[0] == "return"]
    res.add("adjust:all-paths-return", len(rets) == len(paths), f"{len(paths)} paths, all return", b.span)
    bad_leaf = [p for p in rets if not isinstance(p.leaf[1], Aff)]
    res.add("adjust:affine-leaves", not bad_leaf, f"every leaf is an affine expression of (len, endpoint) ({len(rets)} leaves: {sorted({repr(p.leaf[1]) for p in rets})})", b.span)
    if bad_leaf:
        return None
    # tree equivalence on the complete grid
    npoints = 0
    mismatch = []
    ambiguous = []
    for L in (0, 1, 2, 3, 7):
        for x in range(-2 * L - 3, 2 * L + 4):
            for s in (-2, -1, 1, 2):
                env = {ln: L, ep: x, st: s}
                hit = [p for p in rets if holds(p.conds, env)]
                npoints += 1
                if len(hit) != 1:
                    ambiguous.append((L, x, s, len(hit)))
                    continue
                got = hit[0].leaf[1].eval(env)
                want = ref_adjust(L, x, s)
                if got != want:
                    mismatch.append((L, x, s, got, want))
    res.add("adjust:deterministic", not ambiguous, f"exactly one path per input on the grid ({npoints} points)" + (f" — {ambiguous[:3]}" if ambiguous else ""), b.span)
    res.add("adjust:tree-equivalence", not mismatch and not ambiguous,
            f"adjust_slice_endpoint equals CPython's index adjustment on all {npoints} grid points covering every ordering of endpoint vs 0, -len, len and both step signs"
            + (f" — first mismatches (len, endpoint, step, got, want): {mismatch[:4]}" if mismatch else ""), b.span)
    # arithmetic stays in range on every path
    ranges = {ln: (0, I32_MAX), ep: (I32_MIN, I32_MAX), st: (I32_MIN, I32_MAX)}
    nobl = 0
    for p in rets:
        rr = refine(ranges, p.conds)
        for kind, ops, blk in p.obligations:
            nobl += 1
            ok = False
            detail = ""
            if kind.startswith("Overflow(") and len(ops) == 2 and all(isinstance(o, Aff) for o in ops):
                e = ops[0] + ops[1] if "Add" in kind else ops[0] - ops[1]
                iv = interval(e, rr)
                ok = iv is not None and I32_MIN <= iv[0] and iv[1] <= I32_MAX
                detail = f"{ops[0]!r} {'+' if 'Add' in kind else '-'} {ops[1]!r} in {iv}"
            res.add(f"adjust:in-range:{kind}@{'&'.join(sorted(repr(a) + ('' if t else '!') for a, t in p.conds))[:60]}", ok,
                    f"adjust_slice_endpoint: {kind} cannot overflow on this path ({detail}; len>=0)", b.span)
    res.facts["adjust_paths"] = len(rets)
    res.facts["adjust_grid_points"] = npoints
    res.facts["adjust_overflow_obligations"] = nobl
    return (ln, ep, st)


def _slice_model(t, args):
    c = t["callee"]
    if c == "variable::adjust_slice_endpoint" and len(args) == 3 and all(isinstance(a, Aff) for a in args):
        return Aff.var(f"adj({args[0]!r},{args[1]!r},{args[2]!r})")
    if c.endswith("::len") and len(args) == 1:
        return Aff.var("alen")
    if c == "core::num::<impl i32>::checked_add" and len(args) == 2 and all(isinstance(a, Aff) for a in args):
        return ("optval", args[0] + args[1], "checked_add", args[0], args[1])
    return None


class _LenWalker(SymWalker):
    """`array.len() as i32` is the variable `len`; `x as usize` of an affine x is an index; Some(x) keeps x."""

    def rv_val(self, env, rv, blk):
        if rv["k"] == "agg" and rv.get("adt") == "std::option::Option" and rv.get("variant") == "Some" and len(rv["ops"]) == 1:
            return ("some", self.op_val(env, rv["ops"][0]))
        v = SymWalker.rv_val(self, env, rv, blk)
        if isinstance(v, tuple) and v and v[0] == "cast" and v[1] == Aff.var("alen") and v[3] == "i32":
            return Aff.var("len")
        if isinstance(v, tuple) and v and v[0] == "cast" and isinstance(v[1], Aff) and v[3] == "usize":
            return ("idx", v[1])
        return v


def _grid_compare(res, b, paths, names, bounds_of, what):
    """Compare (first index, bound, comparison) chosen by the routine with the reference on a grid hitting every cell of the
    hyperplane arrangement.  bounds_of(path, step sign) -> (Aff first, Aff bound, 'Lt' | 'Gt') or None."""
    arr, st_n, sp_n, step = names
    npoints = 0
    mismatch = []
    amb = []
    for L in (1, 2, 3, 6):
        opts = [None] + list(range(-2 * L - 2, 2 * L + 3))
        for sgn in (-2, -1, 1, 2):
            for st in opts:
                for sp in opts:
                    env = {"len": L, step: sgn, ("some", st_n): st is not None, ("some", sp_n): sp is not None,
                           st_n: st if st is not None else 0, sp_n: sp if sp is not None else 0}
                    env[f"adj(len,{st_n},{step})"] = ref_adjust(L, env[st_n], sgn)
                    env[f"adj(len,{sp_n},{step})"] = ref_adjust(L, env[sp_n], sgn)
                    hit = [p for p in paths if holds(p.conds, env)]
                    npoints += 1
                    if len(hit) != 1:
                        amb.append((L, st, sp, sgn, len(hit)))
                        continue
                    bo = bounds_of(hit[0], sgn)
                    if bo is None:
                        mismatch.append((L, st, sp, sgn, "no stepping rule for this direction"))
                        continue
                    try:
                        a = bo[0].eval(env)
                        bb_ = bo[1].eval(env)
                    except Exception as e:  # unknown variable
                        mismatch.append((L, st, sp, sgn, f"unevaluable: {e}"))
                        continue
                    ra, rb = ref_bounds(L, st, sp, sgn)
                    want_op = "Lt" if sgn > 0 else "Gt"
                    if (a, bb_, bo[2]) != (ra, rb, want_op):
                        mismatch.append((L, st, sp, sgn, (a, bb_, bo[2]), (ra, rb, want_op)))
    res.add("slice:deterministic", not amb, f"exactly one prefix path per input ({npoints} grid points)" + (f" — {amb[:3]}" if amb else ""), b.span)
    res.add("slice:tree-equivalence", not mismatch and not amb,
            f"start/stop defaulting, clamping and {what} equal the reference on all {npoints} grid points (every ordering of start/stop vs 0, ±len, omitted/present, both step signs)"
            + (f" — first mismatches (len,start,stop,step,got,want): {mismatch[:3]}" if mismatch else ""), b.span)
    res.facts["slice_grid_points"] = npoints
    res.facts["slice_prefix_paths"] = len(paths)


def check_slice_pipeline(lib, res, b, o):
    """The lazily generated form:
        successors(Some(a), |&i| i.checked_add(step)).take_while(|&i| if step > 0 { i < b } else { i > b })
            .map(|i| array[i as usize].clone()).collect()
    successors yields a, then f(previous) until f answers None; take_while stops at the first index failing the guard; map
    clones that element; collect keeps the order: the same index sequence as the stepping loop."""
    calls = {}
    for bb, t in b.calls():
        calls.setdefault(t["callee"], []).append((bb, t))
    need = ["std::iter::successors", "std::iter::Iterator::take_while", "std::iter::Iterator::map", "std::iter::Iterator::collect"]
    shape = all(len(calls.get(n, [])) == 1 for n in need)
    res.add("slice:pipeline-shape", shape, "one successors, one take_while, one map, one collect", b.span)
    if not shape:
        return
    su, tw, mp, co = (calls[n][0][1] for n in need)
    # chained: take_while(successors(..)), map(take_while(..)), collect(map(..)) is what is returned
    chain = o.of_operand(tw["args"][0]) and all(x[0] == "call" and x[1] == need[0] for x in o.of_operand(tw["args"][0])) and \
        all(x[0] == "adapt" and x[1] == "take_while" for x in o.of_operand(mp["args"][0])) and \
        all(x[0] == "call" and x[1] == need[2] for x in o.of_operand(co["args"][0])) and \
        all(x[0] == "call" and x[1] in (need[3], "std::vec::Vec::<T>::new") for x in o.of_local(0))
    res.add("slice:pipeline-chain", bool(chain), "the stages are chained in that order and the collected vector is the result", b.span)
    w = _LenWalker(b, call_model=_slice_model)
    names = [w.names.get(i) for i in (1, 2, 3, 4)]
    arr, st_n, sp_n, step = names
    res.add("slice:params", None not in names, f"slice(array, start, stop, step) parameters: {names}", b.span)
    try:
        paths = w.run(stop_at_loops=True)
    except RuntimeError as e:
        res.add("slice:paths", False, f"path enumeration failed: {e}", b.span)
        return
    LEN0 = Cmp("Eq", Aff.var("len"), Aff.k(0)).key()
    early = [p for p in paths if any(isinstance(a, Cmp) and a.key() == LEN0 and t for a, t in p.conds)]
    full = [p for p in paths if p not in early]
    res.add("slice:prefix-paths", bool(early) and bool(full) and all(p.leaf[0] == "return" for p in paths),
            f"prefix paths: {len(early)} early return, {len(full)} reaching the pipeline", b.span)
    res.add("slice:empty-array", all(su_blk not in p.blocks for p in early for su_blk in [calls[need[0]][0][0]]),
            "an empty array returns before any endpoint arithmetic", b.span)
    for p in full:
        if not any(isinstance(a, Cmp) and a.key() == LEN0 and not t for a, t in p.conds):
            res.add("slice:len-guard", False, "a path reaches the pipeline without passing the len == 0 guard", b.span)

    def closure_of(op):
        cl = [x for x in o.of_operand(op) if x[0] == "closure"]
        return (cl[0], lib.fn(cl[0][1])) if len(cl) == 1 else (None, None)

    def cap_vals(p, op):
        """Symbolic values of the closure's captures on prefix path p."""
        v = p.env.get(op["l"]) if op.get("k") in ("copy", "move") and not op.get("p") else None
        return v[1] if isinstance(v, tuple) and v and v[0] == "tuple" else None

    # ---- successors: first = Some(a), next = i.checked_add(step)
    c1t, c1 = closure_of(su["args"][1])
    ok1 = c1 is not None
    if ok1:
        r = Origins(c1, lib).of_local(0)
        ok1 = bool(r) and all(x[0] == "call" and x[1] == "core::num::<impl i32>::checked_add" and set(x[2][0]) == {("param", 2)} and
                              all(y[0] == "field" and y[1] == ("closure_env",) for y in x[2][1]) and len(x[2][1]) == 1 for x in r)
        ok1 = ok1 and not any(bl["term"]["k"] == "assert" for i_, bl in enumerate(c1.blocks) if i_ in c1.reachable())
    res.add("slice:pipeline:step", ok1, "the next index is i.checked_add(<captured>) and an unrepresentable one ends the sequence (None)", b.span)
    # ---- take_while: if step > 0 { i < b } else { i > b }
    c2t, c2 = closure_of(tw["args"][1])
    tables = {}

    def guard_table(caps):
        """The guard closure walked with its captures bound to their values on this prefix path (affine forms, or a flag
        such as `step > 0` computed before the pipeline)."""
        key = repr(caps)
        if key in tables:
            return tables[key]
        tab = None
        if c2 is not None and len(caps) == len(c2t[2]):
            w2 = SymWalker(c2)
            w2.init_env = lambda: {1: ("tuple", tuple(caps)), 2: Aff.var("i")}
            try:
                tab = []
                for p_ in w2.run(stop_at_loops=False):
                    v = p_.leaf[1] if p_.leaf[0] == "return" else None
                    tab.append(([(a_, t_) for a_, t_ in p_.conds], v, list(p_.obligations)))
            except RuntimeError:
                tab = None
        tables[key] = tab
        return tab
    probe = [guard_table(cap_vals(p, tw["args"][1]) or ()) for p in full]
    res.add("slice:pipeline:guard-shape", bool(probe) and all(t_ is not None and all(isinstance(v, Cmp) and not ob for _, v, ob in t_) for t_ in probe),
            "the guard closure returns a comparison on every path and performs no checked arithmetic", b.span)
    # ---- map: array[i as usize].clone()
    c3t, c3 = closure_of(mp["args"][1])
    ok3 = c3 is not None
    if ok3:
        r = Origins(c3, lib).of_local(0)
        ok3 = bool(r) and all(x[0] == "elem" and x[1][0] == "field" and x[1][1] == ("closure_env",) and len(x) == 3 and
                              x[2][0] == "ix" and len(x[2][1]) == 1 and
                              all(y[0] == "cast" and y[1] == ("param", 2) and y[2] == "usize" for y in x[2][1]) for x in r)
        asserts = [bl["term"] for i_, bl in enumerate(c3.blocks) if i_ in c3.reachable() and bl["term"]["k"] == "assert"]
        ok3 = ok3 and len(asserts) == 1 and asserts[0]["msg"] == "BoundsCheck"
        # the indexed sequence is the array parameter
        capt = c3t[2]
        ok3 = ok3 and len(capt) == 1 and set(capt[0]) == {("param", 1)}
    res.add("slice:pipeline:element", ok3, "each index i contributes array[i as usize].clone(), exactly one element access", b.span)
    def bounds_of(p, sgn):
        first = p.env.get(su["args"][0].get("l")) if su["args"][0].get("k") in ("copy", "move") else None
        caps1 = cap_vals(p, su["args"][1])
        caps2 = cap_vals(p, tw["args"][1])
        if not (isinstance(first, tuple) and first and first[0] == "some" and isinstance(first[1], Aff)) or caps1 is None or caps2 is None:
            return None
        if list(caps1) != [Aff.var(step)]:
            return None
        table = guard_table(caps2)
        if table is None:
            return None
        hits = []
        for conds, v, _ in table:
            okp = True
            for a_, t_ in conds:
                # conditions of the guard may only test the step's sign
                if not (isinstance(a_, Cmp) and isinstance(a_.a, Aff) and isinstance(a_.b, Aff)):
                    return None
                if a_.a == Aff.var(step) and a_.b == Aff.k(0):
                    val = {"Gt": sgn > 0, "Ge": sgn >= 0, "Lt": sgn < 0, "Le": sgn <= 0, "Eq": sgn == 0, "Ne": sgn != 0}[a_.op]
                elif a_.a == Aff.k(0) and a_.b == Aff.var(step):
                    val = {"Gt": 0 > sgn, "Ge": 0 >= sgn, "Lt": 0 < sgn, "Le": 0 <= sgn, "Eq": sgn == 0, "Ne": sgn != 0}[a_.op]
                else:
                    return None
                if val != t_:
                    okp = False
                    break
            if okp:
                hits.append(v)
        if len(hits) != 1 or not isinstance(hits[0], Cmp):
            return None
        g = hits[0]
        ga, gb, op = g.a, g.b, g.op
        if gb == Aff.var("i"):
            ga, gb = gb, ga
            op = {"Lt": "Gt", "Gt": "Lt", "Le": "Ge", "Ge": "Le"}.get(op, op)
        if ga != Aff.var("i") or op not in ("Lt", "Gt") or not isinstance(gb, Aff):
            return None
        return first[1], gb, op

    _grid_compare(res, b, full, names, bounds_of, "the guard of the index sequence")
    # overflow obligations of the prefix (len - 1)
    for p in full:
        rr = refine({"len": (0, I32_MAX), step: (I32_MIN, I32_MAX)}, p.conds)
        for kind, ops, blk in p.obligations:
            if kind.startswith("Overflow(") and all(isinstance(x, Aff) for x in ops):
                e = ops[0] + ops[1] if "Add" in kind else ops[0] - ops[1]
                iv_ = interval(e, rr)
                okr = iv_ is not None and I32_MIN <= iv_[0] and iv_[1] <= I32_MAX
                res.add(f"slice:in-range:{kind}({ops[0]!r},{ops[1]!r})", okr, f"slice: {kind}({ops[0]!r}, {ops[1]!r}) cannot overflow (result in {iv_})", b.span)
            else:
                res.add(f"slice:in-range:{kind}", False, f"slice: unexpected checked operation {kind} before the pipeline", b.span)
    adj = [(bb, t) for bb, t in b.calls() if t["callee"] == "variable::adjust_slice_endpoint"]
    res.add("slice:adjust-calls", len(adj) == 2, f"slice adjusts start and stop with adjust_slice_endpoint (calls: {len(adj)})", b.span)


def check_slice(lib, res):
    b = lib.fn("variable::slice")
    if b is None:
        res.add("slice:present", False, "variable::slice not found")
        return
    o = Origins(b, lib)
    loops = cfg_cycles(b)
    if len(loops) == 0 and any(t["callee"] == "std::iter::successors" for _, t in b.calls()):
        res.add("slice:two-loops", True, "variable::slice generates its index sequence lazily (successors / take_while) instead of a stepping loop", b.span)
        return check_slice_pipeline(lib, res, b, o)
    res.add("slice:two-loops", len(loops) in (1, 2), f"variable::slice has one stepping loop per direction, or one loop serving both (found {len(loops)})", b.span)
    if len(loops) not in (1, 2):
        return

    def model(t, args):
        c = t["callee"]
        if c == "variable::adjust_slice_endpoint" and len(args) == 3 and all(isinstance(a, Aff) for a in args):
            return Aff.var(f"adj({args[0]!r},{args[1]!r},{args[2]!r})")
        if c.endswith("::len") and len(args) == 1:
            return Aff.var("alen")
        if c == "core::num::<impl i32>::checked_add" and len(args) == 2 and all(isinstance(a, Aff) for a in args):
            return ("optval", args[0] + args[1], "checked_add", args[0], args[1])
        return None

    w = SymWalker(b, call_model=model)
    names = [w.names.get(i) for i in (1, 2, 3, 4)]
    arr, st_n, sp_n, step = names
    res.add("slice:params", None not in names, f"slice(array, start, stop, step) parameters: {names}", b.span)
    try:
        paths = w.run(stop_at_loops=True)
    except RuntimeError as e:
        res.add("slice:paths", False, f"path enumeration failed: {e}", b.span)
        return
    early = [p for p in paths if p.leaf[0] == "return"]
    toloop = [p for p in paths if p.leaf[0] == "loop"]
    res.add("slice:prefix-paths", len(early) + len(toloop) == len(paths) and early and toloop,
            f"prefix paths: {len(early)} early return, {len(toloop)} reaching a loop", b.span)
    # `len` is the i32 cast of the slice length
    lenvar = None
    for p in paths:
        for atom, truth in p.conds:
            if isinstance(atom, Cmp) and atom.op in ("Eq", "Ne") and atom.b == Aff.k(0):
                pass
    # find the local holding len: cast of alen
    len_locals = [l for l, v in toloop[0].env.items() if isinstance(v, tuple) and v and v[0] == "cast" and v[1] == Aff.var("alen")]
    res.add("slice:len-is-cast", bool(len_locals), "len is `array.len() as i32`", b.span)
    if not len_locals:
        return
    # re-run with the cast modelled as the variable `len`
    class W2(SymWalker):
        def rv_val(self, env, rv, blk):
            v = SymWalker.rv_val(self, env, rv, blk)
            if isinstance(v, tuple) and v and v[0] == "cast" and v[1] == Aff.var("alen") and v[3] == "i32":
                return Aff.var("len")
            if isinstance(v, tuple) and v and v[0] == "cast" and isinstance(v[1], Aff) and v[3] == "usize":
                return ("idx", v[1])
            return v

    w = W2(b, call_model=model)
    paths = w.run(stop_at_loops=True)
    early = [p for p in paths if p.leaf[0] == "return"]
    toloop = [p for p in paths if p.leaf[0] == "loop"]
    # early return <=> len == 0, returns the fresh (empty) vector
    ok = bool(early)
    for p in early:
        ok = ok and any(isinstance(a, Cmp) and a.key() == Cmp("Eq", Aff.var("len"), Aff.k(0)).key() and t for a, t in p.conds)
    r0 = o.of_local(0)
    res.add("slice:empty-array", ok and all(x[0] == "call" and x[1] == "std::vec::Vec::<T>::new" for x in r0),
            "an empty array returns the fresh empty vector before any endpoint arithmetic; the result is that vector", b.span)
    for p in toloop:
        if not any(isinstance(a, Cmp) and a.key() == Cmp("Eq", Aff.var("len"), Aff.k(0)).key() and not t for a, t in p.conds):
            res.add("slice:len-guard", False, "a path reaches the loops without passing the len == 0 guard", b.span)

    # ---- loop analysis ---------------------------------------------------------------------
    loopinfo = {}
    for cyc in loops:
        cs = set(cyc)
        heads = [x for x in cyc if any(p not in cs for p in b.preds()[x])]
        if len(heads) != 1:
            res.add("slice:loop-head", False, f"loop {cyc} has {len(heads)} entry blocks", b.span)
            return
        h = heads[0]
        # symbolic body: every i32 local is its own variable
        env0 = {}
        for l in range(len(b.locals)):
            ty = b.local_ty(l)
            if ty == "i32":
                env0[l] = Aff.var(f"_{l}")
        for i in range(1, b.arg_count + 1):
            if b.local_ty(i) == "i32":
                env0[i] = Aff.var(w.names.get(i))
        # closure values built before the loop (`let before_stop = |i| ..`): their captures are those variables
        def resolve(op, depth=0):
            if op.get("k") not in ("copy", "move") or depth > 4:
                return None
            if not op.get("p") and op["l"] in env0:
                return env0[op["l"]]
            defs = b.assigns_to(op["l"])
            if len(defs) == 1 and defs[0][1] != "term":
                rv = defs[0][2]
                if rv["k"] == "ref" and not rv["place"]["p"]:
                    return env0.get(rv["place"]["l"])
                if rv["k"] == "use":
                    return resolve(rv["op"], depth + 1)
            return None
        for bb_, i_, st_ in b.stmts():
            if st_["k"] == "assign" and st_["rv"]["k"] == "agg" and st_["rv"].get("ak") == "closure" and not st_["place"]["p"] and bb_ not in cs:
                vals_ = tuple(resolve(op) for op in st_["rv"]["ops"])
                if all(v is not None for v in vals_):
                    env0[st_["place"]["l"]] = ("tuple", vals_)
        # flags computed once before the loop (`let ascending = step > 0;`): their value on entry, if every way in agrees
        pre = [p for p in toloop if p.leaf[1] == h or p.leaf[1] in cs]
        pnames = {Aff.var(nm_).key() if hasattr(Aff.var(nm_), "key") else repr(Aff.var(nm_)) for nm_ in names if nm_}
        for l in range(b.arg_count + 1, len(b.locals)):
            defs = b.assigns_to(l)
            if not defs or any(d[0] in cs for d in defs):
                continue
            vals_ = {repr(p.env.get(l)) for p in pre}
            v0 = pre[0].env.get(l) if pre else None
            if len(vals_) != 1 or v0 is None:
                continue
            if b.local_ty(l) == "i32":
                # a loop-invariant copy of a parameter (the helper's own `step`) is that parameter
                if isinstance(v0, Aff) and repr(v0) in {repr(Aff.var(nm_)) for nm_ in names if nm_}:
                    env0[l] = v0
            elif l not in env0:
                env0[l] = v0
        w3 = W2(b, call_model=model)
        w3.init_env = lambda env0=env0: dict(env0)
        lp = w3.run(start=h, stop_at_loops=False)
        back_all = [p for p in lp if p.leaf == ("revisit", h)]
        out_all = [p for p in lp if p.leaf[0] != "revisit"]

        def direction(p):
            """A leading test of the step's sign on a body path (one loop serving both directions): 'pos' / 'neg', and the rest."""
            if p.conds and isinstance(p.conds[0][0], Cmp):
                c, truth = p.conds[0]
                if c.a == Aff.var(step) and c.b == Aff.k(0) and c.op in ("Gt", "Le"):
                    return ("pos" if (c.op == "Gt") == truth else "neg"), p.conds[1:]
                if c.a == Aff.k(0) and c.b == Aff.var(step) and c.op in ("Lt", "Ge"):
                    return ("pos" if (c.op == "Lt") == truth else "neg"), p.conds[1:]
            return None, p.conds

        dirs = sorted({direction(p)[0] or "any" for p in back_all})
        if not back_all or len(back_all) != len(dirs) or (len(dirs) == 2 and dirs != ["neg", "pos"]) or len(dirs) > 2:
            res.add(f"slice:loop@bb{h}:single-body", False, f"loop at bb{h} has {len(back_all)} body paths for directions {dirs} (expected one per direction)", b.span)
            return
        for body in back_all:
            dirn, conds = direction(body)
            tag = f"bb{h}" + (f"/{dirn}" if dirn else "")
            out = [p for p in out_all if direction(p)[0] in (None, dirn)]
            guard = conds[0] if conds else None
            if not (guard and isinstance(guard[0], Cmp)):
                res.add(f"slice:loop@{tag}:guard", False, "the loop does not start with a comparison guard", b.span)
                return
            g, truth = guard
            gop = g.op if truth else {"Lt": "Ge", "Gt": "Le", "Le": "Gt", "Ge": "Lt", "Eq": "Ne", "Ne": "Eq"}[g.op]
            ivar, bvar = g.a, g.b
            single = lambda a: len(a.terms) == 1 and a.const == 0 and list(a.terms.values()) == [1]
            if not (single(ivar) and single(bvar)):
                res.add(f"slice:loop@{tag}:guard", False, f"loop guard {g!r} is not a comparison of two variables", b.span)
                return
            iv, bv = next(iter(ivar.terms)), next(iter(bvar.terms))
            il, bl_ = int(iv[1:]), int(bv[1:])
            # update of i: the Some payload of checked_add(i, step); None leaves the loop
            new_i = body.env.get(il)
            upd_ok = isinstance(new_i, Aff) and new_i == Aff.var(iv) + Aff.var(step)
            checked = any(isinstance(a, tuple) and a[0] == "optval-some" and t for a, t in body.conds)
            ovf = [ob for ob in body.obligations if ob[0].startswith("Overflow")]
            res.add(f"slice:loop@{tag}:step", upd_ok, f"loop at {tag}: i <- i + step is the only update of i (found {new_i!r})", b.span)
            res.add(f"slice:loop@{tag}:step-cannot-overflow", upd_ok and checked and not ovf,
                    f"loop at {tag}: the step is added with checked_add and an unrepresentable next index leaves the loop"
                    + (f" — unchecked arithmetic on the stepping path: {[(k, [repr(x) for x in ops]) for k, ops, _ in ovf]}" if ovf else ""), b.span)
            none_exits = [p for p in out if any(isinstance(a, tuple) and a[0] == "optval-some" and not t for a, t in p.conds)]
            res.add(f"slice:loop@{tag}:none-exits", (not checked) or (len(none_exits) >= 1 and all(set(p.blocks[1:]).isdisjoint({h}) for p in none_exits)),
                    f"loop at {tag}: checked_add == None exits the loop", b.span)
            # b and step are loop invariant
            inv = body.env.get(bl_) == Aff.var(bv) and body.env.get(4) == Aff.var(step)
            res.add(f"slice:loop@{tag}:invariants", inv, f"loop at {tag}: the bound and the step are not modified in the loop", b.span)
            # bounds check on array[i as usize] and what is pushed
            bc = [ob for ob in body.obligations if ob[0] == "BoundsCheck"]
            bc_ok = len(bc) == 1 and bc[0][1][0] == Aff.var(f"len({arr})") and bc[0][1][1] == ("idx", Aff.var(iv))
            res.add(f"slice:loop@{tag}:element", bc_ok, f"loop at {tag}: exactly one element access, array[i as usize]", b.span)
            pushes = [(bb, t) for bb, t in b.calls() if bb in cs and t["callee"].endswith("::push")]
            push_ok = len(pushes) == 1
            if push_ok:
                pt = o.of_operand(pushes[0][1]["args"][1])
                push_ok = all(x[0] == "elem" and x[1] == ("param", 1) for x in pt)
                dest = o.of_operand(pushes[0][1]["args"][0])
                push_ok = push_ok and all(x[0] == "call" and x[1] == "std::vec::Vec::<T>::new" for x in dest)
            res.add(f"slice:loop@{tag}:push", push_ok, f"loop at {tag}: pushes array[i] onto the result exactly once per iteration", b.span)
            # exit on guard false
            gexits = [p for p in out if direction(p)[1] and isinstance(direction(p)[1][0][0], Cmp) and direction(p)[1][0][0].key() == g.key() and direction(p)[1][0][1] != truth]
            res.add(f"slice:loop@{tag}:guard-exit", len(gexits) == 1, f"loop at {tag}: leaves the loop when the guard fails", b.span)
            loopinfo.setdefault(h, []).append({"op": gop, "i": il, "b": bl_, "blocks": cs, "dir": dirn})

    # ---- prefix tree equivalence --------------------------------------------------------------
    kinds = sorted(e["op"] for v in loopinfo.values() for e in v)
    dir_ok = all(e["dir"] in (None, "pos" if e["op"] == "Lt" else "neg") for v in loopinfo.values() for e in v)
    res.add("slice:loop-direction", dir_ok, "a loop shared by both directions compares i < b under step > 0 and i > b otherwise", b.span)
    res.add("slice:loop-kinds", kinds == ["Gt", "Lt"], f"one loop runs while i < b, the other while i > b (found {kinds})", b.span)
    if kinds != ["Gt", "Lt"]:
        return
    npoints = 0
    mismatch = []
    amb = []
    for L in (1, 2, 3, 6):
        opts = [None] + list(range(-2 * L - 2, 2 * L + 3))
        for s in (-2, -1, 1, 2):
            for st in opts:
                for sp in opts:
                    env = {"len": L, step: s, ("some", st_n): st is not None, ("some", sp_n): sp is not None,
                           st_n: st if st is not None else 0, sp_n: sp if sp is not None else 0}
                    env[f"adj(len,{st_n},{step})"] = ref_adjust(L, env[st_n], s)
                    env[f"adj(len,{sp_n},{step})"] = ref_adjust(L, env[sp_n], s)
                    hit = []
                    for p in toloop:
                        h = holds(p.conds, env)
                        if h:
                            hit.append(p)
                    npoints += 1
                    if len(hit) != 1:
                        amb.append((L, st, sp, s, len(hit)))
                        continue
                    p = hit[0]
                    lis = loopinfo.get(p.leaf[1])
                    if lis is None:
                        # leaf block is inside the loop but not its head: find loop containing it
                        lis = next((v for v in loopinfo.values() if p.leaf[1] in v[0]["blocks"]), None)
                    li = next((e for e in (lis or []) if e["dir"] in (None, "pos" if s > 0 else "neg")), None)
                    if li is None:
                        mismatch.append((L, st, sp, s, "no loop for this direction"))
                        continue
                    try:
                        a = p.env[li["i"]].eval(env)
                        bb_ = p.env[li["b"]].eval(env)
                    except Exception as e:  # unknown variable (e.g. adj with unexpected args)
                        mismatch.append((L, st, sp, s, f"unevaluable: {e}"))
                        continue
                    ra, rb = ref_bounds(L, st, sp, s)
                    want_op = "Lt" if s > 0 else "Gt"
                    if (a, bb_, li["op"]) != (ra, rb, want_op):
                        mismatch.append((L, st, sp, s, (a, bb_, li["op"]), (ra, rb, want_op)))
    res.add("slice:deterministic", not amb, f"exactly one prefix path per input ({npoints} grid points)" + (f" — {amb[:3]}" if amb else ""), b.span)
    res.add("slice:tree-equivalence", not mismatch and not amb,
            f"start/stop defaulting, clamping and the choice of loop equal the reference on all {npoints} grid points (every ordering of start/stop vs 0, ±len, omitted/present, both step signs)"
            + (f" — first mismatches (len,start,stop,step,got,want): {mismatch[:3]}" if mismatch else ""), b.span)
    # overflow obligations of the prefix (len - 1)
    for p in toloop:
        rr = refine({"len": (0, I32_MAX), step: (I32_MIN, I32_MAX)}, p.conds)
        for kind, ops, blk in p.obligations:
            if kind.startswith("Overflow(") and all(isinstance(x, Aff) for x in ops):
                e = ops[0] + ops[1] if "Add" in kind else ops[0] - ops[1]
                iv_ = interval(e, rr)
                ok = iv_ is not None and I32_MIN <= iv_[0] and iv_[1] <= I32_MAX
                res.add(f"slice:in-range:{kind}({ops[0]!r},{ops[1]!r})", ok, f"slice: {kind}({ops[0]!r}, {ops[1]!r}) cannot overflow (result in {iv_})", b.span)
            else:
                res.add(f"slice:in-range:{kind}", False, f"slice: unexpected checked operation {kind} before the loops", b.span)
    res.facts["slice_grid_points"] = npoints
    res.facts["slice_prefix_paths"] = len(toloop)
    # calls to adjust use (len, payload, step)
    adj = [(bb, t) for bb, t in b.calls() if t["callee"] == "variable::adjust_slice_endpoint"]
    res.add("slice:adjust-calls", len(adj) == 2, f"slice adjusts start and stop with adjust_slice_endpoint (calls: {len(adj)})", b.span)


def verify(lib):
    res = Result()
    check_adjust(lib, res)
    check_slice(lib, res)
    return res
