"""Per-arm extraction of interpreter::interpret (shared by C01, C11, C12, C15)."""
from .analysis import Branches, Origins, edge_dominates, fmt_terms, reach_avoiding
from .parsing import AST, region_aggs

INTERP = "interpreter::interpret"
DATA = ("param", 1)
NODE = ("param", 2)
CTX = ("param", 3)

AST_VARIANTS = ["Comparison", "Condition", "Identity", "Expref", "Flatten", "Function", "Field", "Index", "Literal",
                "MultiList", "MultiHash", "Not", "Projection", "ObjectValues", "And", "Or", "Slice", "Subexpr"]


class Arm:
    def __init__(self, variant, edge, blocks):
        self.variant = variant
        self.edge = edge
        self.blocks = blocks
        self.calls = []      # (blk, term-call dict) all calls in arm
        self.recursive = []  # (blk, data_terms, node_terms, ctx_terms)
        self.oks = []        # (blk, terms)
        self.tail = []       # (blk, call dict) calls whose result is returned directly (_0 = call)


class Interp:
    def __init__(self, lib):
        self.lib = lib
        self.b = lib.fn(INTERP)
        self.ok = self.b is not None
        self.problems = []
        self.arms = {}
        if not self.ok:
            self.problems.append("interpreter::interpret not found")
            return
        b = self.b
        self.o = Origins(b, lib)
        self.br = Branches(b, self.o)
        top = None
        for blk, t in self.br.switches():
            ve = self.br.variant_edges(blk)
            if ve and ve["adt"] == AST and NODE in ve["scrutinee"]:
                if top is None or b.dominates(blk, top[0]):
                    top = (blk, ve)
        if top is None:
            self.ok = False
            self.problems.append("interpret does not dispatch on the kind of its node argument")
            return
        self.top = top
        blk0, ve0 = top
        if set(ve0["all"]) != set(AST_VARIANTS):
            self.problems.append(f"Ast variants changed: {sorted(set(ve0['all']) ^ set(AST_VARIANTS))}")
        targets = {}
        for v, tgt in ve0["edges"].items():
            targets.setdefault(tgt, []).append(v)
        for v, tgt in ve0["edges"].items():
            if len(targets[tgt]) > 1:
                self.problems.append(f"variants {targets[tgt]} share one arm")
            edge = (blk0, tgt)
            blocks = {x for x in reach_avoiding(b, tgt) if edge_dominates(b, edge, x)}
            arm = Arm(v, edge, blocks)
            for x in sorted(blocks):
                t = b.blocks[x]["term"]
                if t["k"] == "call":
                    arm.calls.append((x, t))
                    if t["callee"] == INTERP:
                        arm.recursive.append((x, self.o.of_operand(t["args"][0]), self.o.of_operand(t["args"][1]), self.o.of_operand(t["args"][2])))
                    if t["dest"]["l"] == 0 and not t["dest"]["p"] and t["callee"] != "std::ops::FromResidual::from_residual":
                        arm.tail.append((x, t))
                for s in b.blocks[x]["stmts"]:
                    # `let out = call(..); out`: the call's result is moved into the return place unchanged
                    if s["k"] == "assign" and s["place"]["l"] == 0 and not s["place"]["p"] and s["rv"]["k"] == "use":
                        for tm in self.o.of_operand(s["rv"]["op"]):
                            if tm[0] == "call" and tm[3] in blocks and b.blocks[tm[3]]["term"].get("k") == "call" and \
                                    b.blocks[tm[3]]["term"]["callee"] == tm[1]:
                                if (tm[3], b.blocks[tm[3]]["term"]) not in arm.tail:
                                    arm.tail.append((tm[3], b.blocks[tm[3]]["term"]))
                            else:
                                arm.tail.append((x, {"callee": "?" + fmt_terms([tm]), "args": [], "dest": s["place"]}))
                    if s["k"] == "assign" and s["place"]["l"] == 0 and not s["place"]["p"] and s["rv"]["k"] == "agg" and \
                            s["rv"].get("adt") == "std::result::Result" and s["rv"]["variant"] == "Ok":
                        arm.oks.append((x, self.o.of_operand(s["rv"]["ops"][0])))
            self._closure_sites(arm)
            self.arms[v] = arm
        missing = [v for v in ve0["all"] if v not in ve0["edges"]]
        if missing:
            self.problems.append(f"no dedicated arm for {missing}")

    PER_ITEM = ("std::iter::Iterator::map", "std::iter::Iterator::filter_map", "std::iter::Iterator::for_each",
                "std::iter::Iterator::try_for_each", "std::iter::Iterator::flat_map", "std::iter::Iterator::try_fold",
                "std::iter::Iterator::fold")

    def _closure_sites(self, arm):
        """Evaluations made inside a closure that the arm hands to an iterator adapter (`xs.iter().map(|x| interpret(..))`)
        are evaluations of the arm: they are added to arm.recursive with the closure's captures resolved to the arm's own
        values and its argument written as an element of the sequence iterated — the same description a `for` loop gets."""
        from .collected import iter_base, subst
        b = self.b
        arm.closure_sites = []
        for x in sorted(arm.blocks):
            for st in b.blocks[x]["stmts"]:
                if not (st["k"] == "assign" and st["rv"]["k"] == "agg" and st["rv"].get("ak") == "closure" and not st["place"]["p"]):
                    continue
                cdef = st["rv"]["def"]
                cb = self.lib.fn(cdef)
                if cb is None or not any(t["callee"] == INTERP for _, t in cb.calls()):
                    continue
                cl = st["place"]["l"]
                caps = [frozenset(self.o.of_operand(op)) for op in st["rv"]["ops"]]
                # where the closure goes
                use = None
                for y in sorted(arm.blocks):
                    t = b.blocks[y]["term"]
                    if t["k"] == "call" and any(a.get("k") in ("copy", "move") and not a.get("p") and a["l"] == cl for a in t["args"]):
                        use = (y, t)
                if use is None and cdef in (b.j.get("inlined_closures") or []):
                    # the closure's body was written out where it is applied (normalised traversal / combinator): its
                    # evaluations are already among the arm's own
                    continue
                mapping = {}
                for i, ops in enumerate(caps):
                    mapping[("field", ("closure_env",), str(i))] = next(iter(ops)) if len(ops) == 1 else ("oneof", ops)
                item = None
                if use is not None and use[1]["callee"] in self.PER_ITEM:
                    bases = set()
                    for src in self.o.of_operand(use[1]["args"][0]):
                        bs = iter_base(src)
                        if bs is not None:
                            bases.add(bs)
                    if len(bases) == 1:
                        item = ("elem", next(iter(bases)))
                if item is not None:
                    mapping[("param", 2)] = item
                co = Origins(cb, self.lib)
                site_blk = use[0] if use is not None else x
                # adapters are lazy: the closure runs where the adapted iterator is consumed (collect, sum, a for loop's next)
                if use is not None and use[1]["callee"] in ("std::iter::Iterator::map", "std::iter::Iterator::filter_map", "std::iter::Iterator::flat_map"):
                    for y in sorted(arm.blocks):
                        t2 = b.blocks[y]["term"]
                        if t2["k"] == "call" and y != use[0] and t2["args"] and any(
                                z[0] == "call" and z[1] == use[1]["callee"] and len(z) > 3 and z[3] == use[0] for z in self.o.of_operand(t2["args"][0])):
                            site_blk = y
                for _, t in cb.calls():
                    if t["callee"] == INTERP:
                        d, nd, c = ({subst(z, mapping) for z in co.of_operand(t["args"][k])} for k in range(3))
                        arm.recursive.append((site_blk, d, nd, c))
                        arm.closure_sites.append((site_blk, cdef, use[1]["callee"] if use else None))

    def res(self, field, data=DATA):
        """Predicate: term is the result of interpret(<data>, node.<field>, ctx)."""
        def pred(t):
            return t[0] == "call" and t[1] == INTERP and set(t[2][1]) == {("field", NODE, field)} and \
                (data is None or set(t[2][0]) == {data})
        return pred

    def is_res(self, terms, field, data=DATA):
        p = self.res(field, data)
        return bool(terms) and all(p(t) for t in terms)

    def bool_tests(self, arm, callee):
        """[(switch block, true target, false target, arg terms)] for bool switches on callee(x) in the arm."""
        out = []
        for blk in sorted(arm.blocks):
            be = self.br.bool_edges(blk)
            if not be:
                continue
            tt, ft = be
            for c in self.br.cond(blk):
                neg = False
                while c[0] == "un" and c[1] == "Not":
                    c = c[2]
                    neg = not neg
                if c[0] == "call" and c[1] == callee:
                    if neg:
                        out.append((blk, ft, tt, set(c[2][0])))
                    else:
                        out.append((blk, tt, ft, set(c[2][0])))
        return out


VARIABLE = "variable::Variable"


def option_switch(ip, arm, scrutinee_ok):
    """The case analysis on an Option inside an arm: (switch block, Some target, None target) — whether it was written as
    `match`, `if let` or through a (normalised) combinator."""
    for blk in sorted(arm.blocks):
        ve = ip.br.variant_edges(blk)
        if ve and ve["adt"] == "std::option::Option" and ve["scrutinee"] and scrutinee_ok(ve["scrutinee"]):
            some_t = ve["edges"].get("Some", ve["otherwise"])
            none_t = ve["edges"].get("None", ve["otherwise"])
            if some_t != none_t:
                return blk, some_t, none_t
    return None


def all_result_terms(ip, arm):
    """Every value the arm can return inside Ok(..)."""
    out = set()
    for _, terms in arm.oks:
        out |= set(terms)
    return out


def comparison_mapping_ok(ip, arm):
    """Comparison arm: result = compare(res(lhs), comparator, res(rhs)) with None -> Null and Some(b) -> Bool(b)."""
    def is_compare(t):
        return t[0] == "call" and t[1] == "variable::Variable::compare" and len(t[2]) == 3 and ip.is_res(set(t[2][0]), "Comparison.lhs") and \
            set(t[2][1]) == {("field", NODE, "Comparison.comparator")} and ip.is_res(set(t[2][2]), "Comparison.rhs")

    sw = option_switch(ip, arm, lambda ts: all(is_compare(t) for t in ts))
    if sw is None or arm.tail:
        return False
    blk, some_t, none_t = sw
    vals = all_result_terms(ip, arm)
    nulls = {t for t in vals if t[0] == "agg" and t[1] == VARIABLE + "::Null"}
    bools = {t for t in vals if t[0] == "agg" and t[1] == VARIABLE + "::Bool"}
    if not nulls or not bools or vals - nulls - bools:
        return False
    if not all(len(t[2]) == 1 and t[2][0] and all(is_compare(x) for x in t[2][0]) for t in bools):
        return False
    # Bool(..) is built only on the Some side
    b = ip.b
    for bb, i, st in region_aggs(b, arm.blocks, VARIABLE):
        if st["rv"]["variant"] == "Bool" and not edge_dominates(b, (blk, some_t), bb):
            return False
        if st["rv"]["variant"] not in ("Bool", "Null"):
            return False
    return True
