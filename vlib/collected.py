"""How a collection value was built — independent of whether the code says `xs.iter().map(f).collect()` or
`let mut v = Vec::new(); for x in xs { v.push(f(x)) }`.

describe_vector(lib, body, origins, terms) -> [Built] where Built has
    source : provenance terms of the thing iterated (the X of iter(X))
    value  : provenance terms of what is stored per item, with the item itself written as ELEM
    fallible : the per-item computation may fail and abort the whole construction (`collect::<Result<..>>()?`, `push(f(x)?)`)
    every_item : no item can be skipped (no filter; in the loop form: the loop head is reached again only through the push)
or None if the construction is not one of the recognised forms."""
from .analysis import Branches, Origins, cfg_cycles, reach_avoiding

ELEM = ("ELEM",)
ITER_WRAPPERS = ("iter", "adapt", "enum", "rev")


class Built:
    def __init__(self, source, value, fallible, every_item, form, site=None, dropped_when=None):
        self.source, self.value, self.fallible, self.every_item, self.form, self.site = source, value, fallible, every_item, form, site
        # for filtering constructions: the tests under whose true edge an item is dropped, [(callee, [arg terms])]; None = unknown
        self.dropped_when = dropped_when

    def __repr__(self):
        return f"Built({self.form}: source={self.source} value={self.value} fallible={self.fallible} every_item={self.every_item})"


def subst(t, mapping):
    """Replace sub-terms (exact matches of keys of `mapping`)."""
    if t in mapping:
        return mapping[t]
    if isinstance(t, tuple):
        return tuple(subst(x, mapping) for x in t)
    if isinstance(t, frozenset):
        out = set()
        for x in t:
            r = subst(x, mapping)
            if isinstance(r, (set, frozenset)):
                out |= set(r)
            else:
                out.add(r)
        return frozenset(out)
    return t


def iter_base(t):
    """X of iter(X) / the base of an element-preserving adapter chain; an iterator obtained by some other call is its own
    base (the rule decides whether it accepts it); None if the chain filters or reorders (an adapter)."""
    while isinstance(t, tuple) and t and t[0] in ITER_WRAPPERS:
        if t[0] == "iter":
            return t[1]
        if t[0] in ("adapt", "rev"):
            return None     # filters / reorders: not "every item, in order"
        t = t[1]
    if isinstance(t, tuple) and t and t[0] == "call":
        return t
    if isinstance(t, tuple) and t and t[0] == "param":
        return t            # a parameter used as the receiver of an Iterator method is itself the sequence
    return None


def _pairs_up(t):
    """enumerate(..) over / or directly a zip of order-preserving, unfiltered sequences."""
    if t[0] == "enum":
        t = t[1]
    return t[0] == "zip"


def _closure_value(lib, cdef, captured):
    """Return-value terms of closure `cdef` with its argument written ELEM and its captures resolved in the parent's terms."""
    cb = lib.fn(cdef)
    if cb is None:
        return None
    co = Origins(cb, lib)
    mapping = {("param", 2): ELEM}
    for i, ops in enumerate(captured):
        ops = frozenset(ops)
        mapping[("field", ("closure_env",), str(i))] = next(iter(ops)) if len(ops) == 1 else ("oneof", ops)
    return {subst(t, mapping) for t in co.of_local(0)}


def _filter_map_closure(lib, cdef, captured):
    """A filter_map closure: (kept value terms, [(test callee, arg terms)] under which None is returned) or None if some
    None is returned unconditionally / under an unrecognised condition."""
    from .analysis import edge_dominates
    cb = lib.fn(cdef)
    if cb is None:
        return None
    co = Origins(cb, lib)
    br = Branches(cb, co)
    mapping = {("param", 2): ELEM}
    for i, ops in enumerate(captured):
        ops = frozenset(ops)
        mapping[("field", ("closure_env",), str(i))] = next(iter(ops)) if len(ops) == 1 else ("oneof", ops)
    kept = set()
    tests = []
    for bb, i, st in cb.stmts():
        if not (st["k"] == "assign" and st["place"]["l"] == 0 and not st["place"]["p"]):
            continue
        rv = st["rv"]
        if rv["k"] == "agg" and rv.get("adt") == "std::option::Option" and rv["variant"] == "Some":
            kept |= {subst(t, mapping) for t in co.of_operand(rv["ops"][0])}
        elif rv["k"] == "agg" and rv.get("adt") == "std::option::Option" and rv["variant"] == "None":
            found = False
            for sb, sw in br.switches():
                be = br.bool_edges(sb)
                if not be:
                    continue
                for c in br.cond(sb):
                    neg = False
                    while c[0] == "un" and c[1] == "Not":
                        c = c[2]
                        neg = not neg
                    if c[0] == "call" and edge_dominates(cb, (sb, be[1] if neg else be[0]), bb):
                        tests.append((c[1], [frozenset(subst(x, mapping) for x in a) for a in c[2]]))
                        found = True
            if not found:
                return _filter_map_closure_paths(lib, cb, co, mapping)
        else:
            return _filter_map_closure_paths(lib, cb, co, mapping)
    return kept, tests


def _filter_map_closure_paths(lib, cb, co, mapping):
    """The same, decided path by path (a closure whose answer is assembled by combinators — `r.map(|v| cond.then_some(v))
    .transpose()` — once these are written out as the case analyses they stand for): every path answers Some(value) or None,
    and a None path has taken the true side of a boolean test that is a call (the recorded condition)."""
    from .analysis import strip_through
    from .decision import Undecided, Walker
    br = Branches(cb, co)
    kept = set()
    tests = []
    try:
        w = Walker(cb, co, max_steps=3000)
        paths = w.walk()
    except Undecided:
        return None
    for path, leaf in paths:
        res = w.result_on_path(path)
        if not res:
            return None
        for t in res:
            t = strip_through(t)
            if t[0] == "agg" and t[1] == "std::option::Option::Some" and len(t[2]) == 1:
                kept |= {subst(x, mapping) for x in t[2][0]}
            elif t[0] == "agg" and t[1] == "std::option::Option::None":
                po = Origins(cb, lib, only_blocks=set(path))
                pbr = Branches(cb, po)
                found = False
                for i, blk in enumerate(path[:-1]):
                    be = br.bool_edges(blk)
                    if not be:
                        continue
                    for c in pbr.cond(blk):
                        neg = False
                        while c[0] == "un" and c[1] == "Not":
                            c = c[2]
                            neg = not neg
                        if c[0] == "call" and (path[i + 1] == (be[1] if neg else be[0])):
                            tests.append((c[1], [frozenset(subst(x, mapping) for x in a) for a in c[2]]))
                            found = True
                if not found:
                    return None
            else:
                return None
    # one record per distinct test
    uniq = []
    for t in tests:
        if t not in uniq:
            uniq.append(t)
    return kept, uniq


def _filter_predicate(lib, cdef, fallible, value):
    """A `filter` predicate over the results of a preceding `map`: under which test of the mapped value an item is dropped.
    Decided by walking the predicate under (item is Ok / Err) x (each boolean test of its payload true / false): it must keep
    every Err (so that the collect into Result still fails on it) and drop an Ok exactly when the test holds.
    Returns [(test callee, [terms the test is applied to = the mapped value])] or None."""
    from .decision import Undecided, Walker
    cb = lib.fn(cdef)
    if cb is None:
        return None
    co = Origins(cb, lib)
    ITEM = ("param", 2)
    from .analysis import is_transparent
    tcalls = [t for _, t in cb.calls() if not is_transparent(t["callee"])]
    tests = sorted({t["callee"] for t in tcalls})
    if len(tests) != 1:
        return None
    test = tests[0]
    # the test is applied to the item itself (infallible map) or to its Ok payload
    for t in tcalls:
        a = co.of_operand(t["args"][0])
        if a != {ITEM}:
            return None
    table = {}
    for variant in (("Ok", "Err") if fallible else ("Ok",)):
        for tv in (0, 1):
            def atom(t, variant=variant):
                if t == ("discr", ITEM):
                    return variant
                return None

            def call(t, argvals, tv=tv):
                return tv if t[1] == test else None
            w = Walker(cb, co, atom=atom, call=call)
            try:
                vals = {w.eval_terms(w.result_on_path(path)) for path, leaf in w.walk()}
            except Undecided:
                return None
            if len(vals) != 1 or None in vals:
                return None
            table[(variant, tv)] = next(iter(vals))
    want = {("Ok", 0): 1, ("Ok", 1): 0}
    if fallible:
        want.update({("Err", 0): 1, ("Err", 1): 1})
    if table != want:
        return None
    return [(test, [frozenset(value)])]


def _strip_result(terms):
    """(terms with Ok(..)/`?` wrappers removed, whether any was present)."""
    from .analysis import is_failure_term
    out = set()
    fallible = False
    for t in terms:
        if t[0] == "agg" and t[1] == "std::result::Result::Ok" and len(t[2]) == 1:
            out |= set(t[2][0])
            fallible = True
        elif is_failure_term(t):
            fallible = True     # the failure aborts the construction: it is not an item
        else:
            out.add(t)
    return out, fallible


def describe_vector(lib, body, o, terms):
    out = []
    br = None
    for t in terms:
        # ---- iterator form: collect(map(iter(X), closure))
        if t[0] == "call" and t[1] == "std::iter::Iterator::collect" and len(t[2]) >= 1:
            ok = True
            for it in t[2][0]:
                if it[0] == "call" and it[1] == "std::iter::Iterator::map" and len(it[2]) == 2:
                    for src in it[2][0]:
                        base = iter_base(src)
                        if base is None:
                            ok = False
                            continue
                        for f in it[2][1]:
                            if f[0] == "closure":
                                val = _closure_value(lib, f[1], f[2])
                                if val is None:
                                    ok = False
                                    continue
                                val, fall = _strip_result(val)
                                out.append(Built({base}, val, fall, True, "collect(map)", t[3] if len(t) > 3 else None))
                            elif f[0] == "fnitem":
                                out.append(Built({base}, {("call", f[1], (frozenset({ELEM}),), None)}, False, True, "collect(map fn)", t[3] if len(t) > 3 else None))
                            else:
                                ok = False
                elif it[0] == "call" and it[1] == "std::iter::Iterator::filter_map" and len(it[2]) == 2:
                    for src in it[2][0]:
                        base = iter_base(src)
                        if base is None:
                            ok = False
                            continue
                        for f in it[2][1]:
                            r = _filter_map_closure(lib, f[1], f[2]) if f[0] == "closure" else None
                            if r is None:
                                ok = False
                                continue
                            kept, tests = r
                            val, fall = _strip_result(kept)
                            out.append(Built({base}, val, fall, False, "collect(filter_map)", t[3] if len(t) > 3 else None, dropped_when=tests))
                elif it[0] == "adapt" and it[1] == "filter" and it[2][0] == "call" and it[2][1] == "std::iter::Iterator::map" and len(it[2][2]) == 2:
                    # map(f) then filter(p): p sees f's result; items are dropped when p is false
                    mp = it[2]
                    for src in mp[2][0]:
                        base = iter_base(src)
                        if base is None:
                            ok = False
                            continue
                        for f in mp[2][1]:
                            val = _closure_value(lib, f[1], f[2]) if f[0] == "closure" else None
                            preds = [p_ for p_ in it[3] if p_[0] == "closure"]
                            if val is None or len(preds) != 1 or len(it[3]) != 1:
                                ok = False
                                continue
                            val, fall = _strip_result(val)
                            fb = lib.fn(f[1])
                            fall = fall or (fb.local_ty(0) or "").startswith("std::result::Result")
                            tests = _filter_predicate(lib, preds[0][1], fall, val)
                            if tests is None:
                                ok = False
                                continue
                            out.append(Built({base}, val, fall, False, "collect(filter(map))", t[3] if len(t) > 3 else None, dropped_when=tests))
                elif it[0] in ITER_WRAPPERS:
                    base = iter_base(it)
                    if base is None:
                        ok = False
                    else:
                        out.append(Built({base}, {ELEM}, False, True, "collect", t[3] if len(t) > 3 else None))
                else:
                    ok = False
            if not ok:
                return None
            continue
        # ---- loop form: Vec::new() / with_capacity(..) filled by push in a loop over iter(X)
        if t[0] == "call" and (t[1].endswith("Vec::<T>::new") or t[1].endswith("Vec::<T>::with_capacity") or t[1].endswith("::from_elem")):
            if br is None:
                br = Branches(body, o)
            pushes = [(bb, c) for bb, c in body.calls() if c["callee"].endswith("Vec::<T, A>::push") and t in o.of_operand(c["args"][0])]
            if not pushes:
                out.append(Built(set(), set(), False, True, "empty vec", None))
                continue
            for bb, c in pushes:
                # the loop this push sits in and what it iterates
                cyc = [set(cy) for cy in cfg_cycles(body) if bb in cy]
                if not cyc:
                    return None
                cs = set().union(*cyc)
                nexts = [x for x in sorted(cs) if body.blocks[x]["term"]["k"] == "call" and body.blocks[x]["term"]["callee"] == "std::iter::Iterator::next"]
                if len(nexts) != 1:
                    return None
                nb = nexts[0]
                src = set()
                for s in o.of_operand(body.blocks[nb]["term"]["args"][0]):
                    base = iter_base(s)
                    if base is None:
                        return None
                    src.add(base)
                val = o.of_operand(c["args"][1])
                mapping = {("elem", b_): ELEM for b_ in src}
                mapping.update({("elem", s_): ELEM for s_ in o.of_operand(body.blocks[nb]["term"]["args"][0])})
                val = {subst(v, mapping) for v in val}
                fall = any(cc["callee"] == "std::ops::Try::branch" for x, cc in body.calls() if x in cs)
                # every item is pushed: from the Some arm of next() the loop head is reached only through the push
                sw = body.blocks[nb]["term"]["t"]
                ve = br.variant_edges(sw) if sw is not None else None
                some_t = ve["edges"].get("Some", ve["otherwise"]) if ve else None
                every = some_t is not None and nb not in reach_avoiding(body, some_t, avoid_blocks=[bb])
                out.append(Built(src, val, fall, every, "loop+push", bb))
            continue
        return None
    return out


PER_ITEM = ("std::iter::Iterator::map", "std::iter::Iterator::filter_map", "std::iter::Iterator::for_each",
            "std::iter::Iterator::try_for_each", "std::iter::Iterator::flat_map", "std::iter::Iterator::try_fold",
            "std::iter::Iterator::fold")


def call_sites(lib, body, o, callee):
    """Every call of `callee` made by `body` — directly, or inside a closure that body hands to a per-item iterator adapter.
    Returns [(argument term sets in body's own terms (closure argument = element of the sequence iterated), span)]."""
    out = []
    for bb, t in body.calls():
        if t["callee"] == callee:
            out.append(([o.of_operand(a) for a in t["args"]], t["span"]["s"]))
    for bb, i, st in body.stmts():
        if not (st["k"] == "assign" and st["rv"]["k"] == "agg" and st["rv"].get("ak") == "closure" and not st["place"]["p"]):
            continue
        cb = lib.fn(st["rv"]["def"])
        if cb is None or cb.j.get("fully_spliced") or not any(t["callee"] == callee for _, t in cb.calls()):
            continue
        cl = st["place"]["l"]
        mapping = {}
        for k, op in enumerate(st["rv"]["ops"]):
            ops = frozenset(o.of_operand(op))
            mapping[("field", ("closure_env",), str(k))] = next(iter(ops)) if len(ops) == 1 else ("oneof", ops)
        for ub, ut in body.calls():
            if any(a.get("k") in ("copy", "move") and not a.get("p") and a["l"] == cl for a in ut["args"]) and ut["callee"] in PER_ITEM:
                srcs = o.of_operand(ut["args"][0])
                bases = {iter_base(src) for src in srcs}
                if len(bases) == 1 and None not in bases:
                    mapping[("param", 2)] = ("elem", next(iter(bases)))
                elif len(srcs) == 1 and all(_pairs_up(src) for src in srcs):
                    # items of enumerate(zip(a, b)) and the like: (index, (item of a, item of b))
                    from .analysis import elem_of
                    mapping[("param", 2)] = elem_of(next(iter(srcs)))
        co = Origins(cb, lib)
        from .analysis import simplify
        for _, t in cb.calls():
            if t["callee"] == callee:
                out.append(([{simplify(subst(z, mapping)) for z in co.of_operand(a)} for a in t["args"]], t["span"]["s"]))
    return out
