"""Private functions renamed by a maintainer.

The rules name the functions they are anchored in.  A private (non-`pub`) function that was renamed — same enclosing
module / impl, same signature, the old name gone, the new name not known — is given its old name back in the fact data
before anything else looks at it: every `def`, callee, closure path and fn-item constant that mentions the new name.  The
match must be unique in both directions; otherwise nothing is renamed and the missing anchor is reported as before.

`vlib/known_signatures.json` (written by tools/gen_known_functions.py from the tree the rules were written against):
    {def path: {"sig": signature string, "where": [[crate, config], ..], "public": bool}}"""
import json
import os
import re

SIG_PATH = os.path.join(os.path.dirname(os.path.abspath(__file__)), "known_signatures.json")


def load_signatures():
    try:
        with open(SIG_PATH) as fh:
            return json.load(fh)
    except (OSError, ValueError):
        return None


def _norm(sig):
    # the `sync` build is analysed with Arc spelled Rc (facts.py)
    return (sig or "").replace("std::sync::Arc", "std::rc::Rc")


def _parent(d):
    return d.rsplit("::", 1)[0] if "::" in d else ""


def _replace(x, mapping, prefixes):
    if isinstance(x, str):
        if x in mapping:
            return mapping[x]
        for old, new in prefixes:
            if x.startswith(old):
                return new + x[len(old):]
        return x
    if isinstance(x, list):
        return [_replace(e, mapping, prefixes) for e in x]
    if isinstance(x, dict):
        return {k: _replace(v, mapping, prefixes) for k, v in x.items()}
    return x


def undo_renames(j, known):
    """j: one fact file (dict). Returns {new name: old name} of the renames undone (j is modified in place)."""
    if not known:
        return {}
    crate, tag = j.get("crate"), j.get("tag")
    present = {}
    for b in j["bodies"]:
        if b.get("promoted") is None and b["kind"] in ("fn", "method"):
            present.setdefault(b["def"], []).append(b)
    here = {d for d, info in known.items() if [crate, tag] in info.get("where", [])}
    missing = [d for d in sorted(here) if d not in present and not known[d].get("public")]
    new = [d for d in sorted(present) if d not in known and len(present[d]) == 1 and not str(present[d][0].get("vis", "")).startswith("Public")]
    if not missing or not new:
        return {}
    cand = {}
    for m in missing:
        cand[m] = [n for n in new if _parent(n) == _parent(m) and _norm(present[n][0].get("sig")) == _norm(known[m]["sig"])]
    renames = {}
    for m, ns in cand.items():
        if len(ns) != 1:
            continue
        n = ns[0]
        if sum(1 for m2, ns2 in cand.items() if n in ns2) != 1:
            continue
        renames[n] = m
    if not renames:
        return {}
    prefixes = [(n + "::{", m + "::{") for n, m in renames.items()]
    j["bodies"] = _replace(j["bodies"], renames, prefixes)
    for b in j["bodies"]:
        if b.get("promoted") is None and b["def"] in renames.values() and b["kind"] in ("fn", "method"):
            b["item_name"] = b["def"].rsplit("::", 1)[-1]
            b["renamed_from"] = [n for n, m in renames.items() if m == b["def"]][0]
    return renames


# ---------------------------------------------------------------------------------------------------------------------
# A private method that did not use `self`, turned into a free (or associated) function of the same module: same
# parameters without the receiver, same result, the old name gone, the new one not known.  The receiver is put back as an
# unused first parameter (locals shifted by one, a placeholder operand at every call site), so that the rules — which name
# parameters by position — read the function exactly as before.

def _strip_sig(sig):
    s = _norm(sig)
    s = re.sub(r"^for<[^>]*>\s*", "", s)
    return re.sub(r"'[a-z_0-9]+\s*", "", s)


def _params(sig):
    """([parameter types], result type) of a `fn(..) -> ..` signature string, lifetimes removed; None if not understood."""
    s = _strip_sig(sig)
    if not s.startswith("fn("):
        return None
    depth, i, start, ps = 0, 3, 3, []
    while i < len(s):
        if s.startswith("->", i):
            i += 2
            continue
        c = s[i]
        if c in "(<[":
            depth += 1
        elif c in ")>]":
            if c == ")" and depth == 0:
                break
            depth -= 1
        elif c == "," and depth == 0:
            ps.append(s[start:i].strip())
            start = i + 1
        i += 1
    else:
        return None
    last = s[start:i].strip()
    if last:
        ps.append(last)
    return ps, s[i + 1:].strip()


def undo_rehoming(j, known):
    """Returns {new name: old name} of the re-homed methods put back (j is modified in place)."""
    if not known:
        return {}
    from . import inline
    crate, tag = j.get("crate"), j.get("tag")
    present = {}
    for b in j["bodies"]:
        if b.get("promoted") is None and b["kind"] in ("fn", "method"):
            present.setdefault(b["def"], []).append(b)
    here = {d for d, info in known.items() if [crate, tag] in info.get("where", [])}
    missing = [d for d in sorted(here) if d not in present and not known[d].get("public")]
    new = [d for d in sorted(present) if d not in known and len(present[d]) == 1 and not str(present[d][0].get("vis", "")).startswith("Public")]
    cand = {}
    for m in missing:
        pm = _params(known[m].get("sig"))
        owner = _parent(m)
        if pm is None or not pm[0] or pm[0][0] not in ("&" + owner, "&mut " + owner):
            continue
        homes = {owner, _parent(owner)}
        cand[m] = [n for n in new if _parent(n) in homes and _params(present[n][0].get("sig")) == (pm[0][1:], pm[1])]
    moved = {}
    for m, ns in cand.items():
        if len(ns) == 1 and sum(1 for ns2 in cand.values() if ns[0] in ns2) == 1:
            moved[ns[0]] = m
    # the function must only ever be called (a function value handed around cannot be given a receiver)
    def as_value(x, n):
        if isinstance(x, dict):
            if x.get("k") == "const" and n in json.dumps(x):
                return True
            return any(as_value(v, n) for v in x.values())
        if isinstance(x, list):
            return any(as_value(v, n) for v in x)
        return False
    moved = {n: m for n, m in moved.items() if not as_value(j["bodies"], n)}
    if not moved:
        return {}
    j["bodies"] = _replace(j["bodies"], moved, [(n + "::{", m + "::{") for n, m in moved.items()])
    back = set(moved.values())
    inline._PMAP = None
    shift = lambda l: l if l == 0 else l + 1
    for i, b in enumerate(j["bodies"]):
        if b.get("promoted") is None and b["def"] in back and b["kind"] in ("fn", "method"):
            m = b["def"]
            recv = _norm(known[m]["sig"])
            locals_ = b["locals"]
            nb = {k: (v if k == "locals" else inline._renumber(v, shift, None)) for k, v in b.items()}
            nb["locals"] = locals_[:1] + [{"ty": _params(recv)[0][0], "mut": False}] + locals_[1:]
            nb["arg_count"] = b["arg_count"] + 1
            for d in nb.get("debug", []):
                if isinstance(d.get("arg"), int):
                    d["arg"] += 1
            nb["kind"] = "method"
            nb["impl_self"] = _parent(m)
            nb["item_name"] = m.rsplit("::", 1)[-1]
            nb["sig"] = known[m]["sig"]
            nb["rehomed_from"] = [n for n, mm in moved.items() if mm == m][0]
            j["bodies"][i] = nb
    for b in j["bodies"]:
        for bl in b.get("blocks", []):
            t = bl.get("term") or {}
            if t.get("k") == "call" and t.get("callee") in back:
                ty = _params(_norm(known[t["callee"]]["sig"]))[0][0]
                t["args"] = [{"k": "const", "ty": ty, "val": "<receiver dropped by the edit>"}] + t["args"]
    return moved
