"""Private functions renamed by a maintainer.

The rules name the functions they are anchored in.  A private (non-`pub`) function that was renamed — same enclosing
module / impl, same signature, the old name gone, the new name not known — is given its old name back in the fact data
before anything else looks at it: every `def`, callee, closure path and fn-item constant that mentions the new name.  The
match must be unique in both directions; otherwise nothing is renamed and the missing anchor is reported as before.

`vlib/known_signatures.json` (written by tools/gen_known_functions.py from the tree the rules were written against):
    {def path: {"sig": signature string, "where": [[crate, config], ..], "public": bool}}"""
import json
import os

SIG_PATH = os.path.join(os.path.dirname(os.path.abspath(__file__)), "known_signatures.json")


def load_signatures():
    try:
        with open(SIG_PATH) as fh:
            return json.load(fh)
    except (OSError, ValueError):
        return None


def _norm(sig):
    # the `sync` build is analysed with Arc spelled Rc (facts.py)
    return (sig or "").replace("std::sync::Arc", "std::rc::Rc")


def _parent(d):
    return d.rsplit("::", 1)[0] if "::" in d else ""


def _replace(x, mapping, prefixes):
    if isinstance(x, str):
        if x in mapping:
            return mapping[x]
        for old, new in prefixes:
            if x.startswith(old):
                return new + x[len(old):]
        return x
    if isinstance(x, list):
        return [_replace(e, mapping, prefixes) for e in x]
    if isinstance(x, dict):
        return {k: _replace(v, mapping, prefixes) for k, v in x.items()}
    return x


def undo_renames(j, known):
    """j: one fact file (dict). Returns {new name: old name} of the renames undone (j is modified in place)."""
    if not known:
        return {}
    crate, tag = j.get("crate"), j.get("tag")
    present = {}
    for b in j["bodies"]:
        if b.get("promoted") is None and b["kind"] in ("fn", "method"):
            present.setdefault(b["def"], []).append(b)
    here = {d for d, info in known.items() if [crate, tag] in info.get("where", [])}
    missing = [d for d in sorted(here) if d not in present and not known[d].get("public")]
    new = [d for d in sorted(present) if d not in known and len(present[d]) == 1 and not str(present[d][0].get("vis", "")).startswith("Public")]
    if not missing or not new:
        return {}
    cand = {}
    for m in missing:
        cand[m] = [n for n in new if _parent(n) == _parent(m) and _norm(present[n][0].get("sig")) == _norm(known[m]["sig"])]
    renames = {}
    for m, ns in cand.items():
        if len(ns) != 1:
            continue
        n = ns[0]
        if sum(1 for m2, ns2 in cand.items() if n in ns2) != 1:
            continue
        renames[n] = m
    if not renames:
        return {}
    prefixes = [(n + "::{", m + "::{") for n, m in renames.items()]
    j["bodies"] = _replace(j["bodies"], renames, prefixes)
    for b in j["bodies"]:
        if b.get("promoted") is None and b["def"] in renames.values() and b["kind"] in ("fn", "method"):
            b["item_name"] = b["def"].rsplit("::", 1)[-1]
            b["renamed_from"] = [n for n, m in renames.items() if m == b["def"]][0]
    return renames
