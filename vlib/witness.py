"""E3: type-level witnesses.  Small programs that must (or must not) type-check
against /repo's current sources; rustc's trait solver is the decision procedure.
Nothing is executed (cargo check only)."""
import fcntl
import json
import os
import shutil
import subprocess

from . import build

WDIR = os.path.join(build.WORK, "witness")

PRELUDE = """#![allow(unused)]
fn need<T: Send + Sync + ?Sized>() {}
fn need_send<T: Send + ?Sized>() {}
fn need_sync<T: Sync + ?Sized>() {}
"""


def _write(path, text):
    os.makedirs(os.path.dirname(path), exist_ok=True)
    with open(path, "w") as fh:
        fh.write(text)


def run_witnesses(programs):
    """programs: list of dict(name, body, features=[...]).
    Returns {name: {"ok": bool, "codes": [...], "messages": [...]}}."""
    os.makedirs(build.WORK, exist_ok=True)
    lockf = open(os.path.join(build.WORK, "build.lock"), "w")
    fcntl.flock(lockf, fcntl.LOCK_EX)
    try:
        build.ensure_driver()
        build.gen_shadow()
        if os.path.isdir(os.path.join(WDIR, "src")):
            shutil.rmtree(os.path.join(WDIR, "src"))
        _write(
            os.path.join(WDIR, "Cargo.toml"),
            "[package]\nname = \"witness\"\nversion = \"0.0.0\"\nedition = \"2018\"\n[workspace]\n"
            "[dependencies]\njmespath = { path = \"../shadow/jmespath\" }\nserde_json = \"1\"\n"
            "[features]\nsync = [\"jmespath/sync\"]\n",
        )
        shutil.copy(os.path.join(build.VERIF, "shadow.lock"), os.path.join(WDIR, "Cargo.lock"))
        for p in programs:
            _write(os.path.join(WDIR, "src", "bin", p["name"] + ".rs"), PRELUDE + p["body"])
        out = {}
        env = build._env()
        env["CARGO_TARGET_DIR"] = os.path.join(build.WORK, "target-witness")
        env["RUSTFLAGS"] = "-Awarnings"
        for p in programs:
            cmd = ["cargo", "check", "--offline", "--message-format=json", "--bin", p["name"]]
            if p.get("features"):
                cmd += ["--features", ",".join(p["features"])]
            r = subprocess.run(cmd, cwd=WDIR, env=env, capture_output=True, text=True)
            codes = []
            msgs = []
            dep_error = False
            for line in r.stdout.splitlines():
                try:
                    j = json.loads(line)
                except ValueError:
                    continue
                if j.get("reason") == "compiler-message":
                    m = j["message"]
                    if m.get("level") == "error":
                        tgt = j.get("target", {}).get("name")
                        if tgt != p["name"]:
                            dep_error = True
                        code = (m.get("code") or {}).get("code")
                        codes.append(code)
                        msgs.append(m.get("message", "")[:300])
            if dep_error or (r.returncode != 0 and not codes):
                raise build.BuildError(
                    f"witness {p['name']}: build failed outside the witness program:\n{r.stderr[-3000:]}"
                )
            out[p["name"]] = {"ok": r.returncode == 0, "codes": codes, "messages": msgs, "cmd": " ".join(cmd)}
        return out
    finally:
        fcntl.flock(lockf, fcntl.LOCK_UN)
        lockf.close()
