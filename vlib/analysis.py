"""Reusable analyses over the MIR facts (DESIGN §2).

A1 call graph / reachability, A2 dominance + edge dominance + cycles,
A3 origin (provenance) terms, condition terms for branches.
"""
import re
from collections import defaultdict

from .facts import Place, op_str

# ---------------------------------------------------------------------------
# A3 origin terms
# ---------------------------------------------------------------------------
# Terms are nested tuples:
#   ("param", i)               i-th argument (1-based local index)
#   ("upvar", name)            captured variable of a closure
#   ("field", base, "Variant.field" | "field")
#   ("call", callee, (arg terms...), block)      opaque call result
#   ("const", text)
#   ("agg", "path::Variant", (field terms...))
#   ("view", kind, base)       as_array / as_object / as_string / as_expref ...
#   ("iter", base) ("elem", base) ("enum", base) ("index", base) ("rev", base)
#   ("bin", op, a, b) ("un", op, a) ("cast", a, to)
#   ("discr", base) ("len", base)
#   ("unknown", why)

TRANSPARENT_CALLS = [
    r"^std::ops::Deref::deref$",
    r"^std::ops::DerefMut::deref_mut$",
    r"^std::clone::Clone::clone$",
    r"^std::convert::AsRef::as_ref$",
    r"^std::convert::AsMut::as_mut$",
    r"^std::borrow::Borrow::borrow$",
    r"^std::ops::Try::branch$",
    r"^std::ops::FromResidual::from_residual$",
    r"^std::convert::Into::into$",
    r"^std::convert::From::from$",
    r"^std::borrow::ToOwned::to_owned$",
    r"^std::string::ToString::to_string$",
    r"^std::option::Option::<T>::as_ref$",
    r"^std::option::Option::<T>::filter$",      # the same option, or None: no new value
    r"^std::option::Option::<&T>::cloned$",
    r"^std::option::Option::<&T>::copied$",
    r"^std::option::Option::<T>::ok_or_else$",
    r"^std::option::Option::<T>::ok_or$",
    r"^std::option::Option::<T>::unwrap$",
    r"^std::option::Option::<T>::expect$",
    r"^std::result::Result::<T, E>::unwrap$",
    r"^std::result::Result::<T, E>::map_err$",
    r"^std::result::Result::<T, E>::ok$",
    r"^std::boxed::Box::<T>::new$",
    r"^std::rc::Rc::<T>::new$",
    r"^std::sync::Arc::<T>::new$",
    r"^std::string::String::as_str$",
    r"^std::vec::Vec::<T, A>::as_slice$",
    r"^std::iter::IntoIterator::into_iter$",  # handled specially below (iter)
]
_TRANSPARENT = [re.compile(x) for x in TRANSPARENT_CALLS]

VIEW_CALLS = {
    "variable::Variable::as_array": "array",
    "variable::Variable::as_object": "object",
    "variable::Variable::as_string": "string",
    "variable::Variable::as_expref": "expref",
    "variable::Variable::as_number": "number",
    "variable::Variable::as_boolean": "boolean",
    "variable::Variable::as_null": "null",
}

ITER_MAKERS = [
    r"^std::iter::IntoIterator::into_iter$",
    r"^core::slice::<impl \[T\]>::iter$",
    r"^std::slice::<impl \[T\]>::iter$",
    r"^std::vec::Vec::<T, A>::iter$",
    r"^std::collections::BTreeMap::<K, V, A>::values$",
    r"^std::collections::BTreeMap::<K, V, A>::iter$",
    r"^std::collections::BTreeMap::<K, V, A>::keys$",
    r"^std::collections::btree_map::BTreeMap::<K, V, A>::(values|iter|keys)$",
    r"^std::option::Option::<T>::iter$",       # at most one item: the payload
    r"^std::iter::Iterator::cloned$",
    r"^std::iter::Iterator::copied$",
    r"^std::iter::Iterator::peekable$",
    r"^std::iter::Iterator::by_ref$",
    r"^(std|core)::str::<impl str>::chars$",
    r"^(std|core)::str::<impl str>::char_indices$",
]
_ITER_MAKERS = [re.compile(x) for x in ITER_MAKERS]
ITER_HEADS = ("iter", "enum", "rev", "adapt", "zip", "chain", "cycle_iter")


def strip_crate(name, crate=None):
    return name


def elem_of(a):
    """The item an iterator term yields."""
    while a[0] == "adapt":
        a = a[2]
    if a[0] == "iter":
        return ("elem", a[1])
    if a[0] == "enum":
        return ("enumitem", a[1])
    if a[0] == "rev":
        inner = a[1]
        return ("elem", inner[1] if inner[0] == "iter" else inner)
    return ("elem", a)


def is_transparent(callee):
    return any(r.match(callee) for r in _TRANSPARENT)


def strip_through(t):
    """The receiver behind a combinator's pass-through arm."""
    while isinstance(t, tuple) and t and t[0] == "through":
        t = t[2]
    return t


def _fold_bin(op, a, b):
    """Arithmetic on two integer literals is that literal (named constants, `N - 1`); anything else stays symbolic."""
    if a[0] == "const" and b[0] == "const" and isinstance(a[1], int) and isinstance(b[1], int) and \
            not isinstance(a[1], bool) and not isinstance(b[1], bool):
        if op in ("Add", "AddUnchecked"):
            return ("const", a[1] + b[1])
        if op in ("Sub", "SubUnchecked"):
            return ("const", a[1] - b[1])
        if op in ("Mul", "MulUnchecked"):
            return ("const", a[1] * b[1])
    return ("bin", op, a, b)


class Origins:
    """Flow-insensitive may-origin analysis for one body."""

    def __init__(self, body, facts=None, extra_transparent=(), upvar_terms=None, only_blocks=None):
        """only_blocks: restrict the definitions considered to those blocks (the provenance along one CFG path)."""
        self.b = body
        self.facts = facts
        self.defs = defaultdict(list)  # local -> [(kind, payload, block)]
        self.extra_transparent = [re.compile(x) for x in extra_transparent]
        self.upvar_terms = upvar_terms or {}
        self._memo = {}
        for blk in sorted(body.reachable()):
            if only_blocks is not None and blk not in only_blocks:
                continue
            bl = body.blocks[blk]
            for s in bl["stmts"]:
                if s["k"] == "assign":
                    p = s["place"]
                    self.defs[p["l"]].append(("rv", s["rv"], blk, p["p"]))
            t = bl["term"]
            if t["k"] == "call":
                d = t["dest"]
                self.defs[d["l"]].append(("call", t, blk, d["p"]))

    # -- public -----------------------------------------------------------------
    def of_operand(self, op, depth=0):
        k = op.get("k")
        if k in ("copy", "move"):
            return self.of_place(op, depth)
        if k == "const":
            if "promoted" in op:
                return {("promoted", op["promoted"])}
            if "fn" in op:
                return {("fnitem", op["fn"], tuple(op.get("fn_args") or ()))}
            if "int" in op:
                return {("const", op["int"])}
            return {("const", op["val"])}
        return {("unknown", "operand")}

    def of_place(self, pl, depth=0):
        base = self.of_local(pl["l"], depth)
        return self._project(base, pl["p"])

    def _project(self, base, proj):
        cur = base
        pending_dc = None
        for e in proj:
            if e == "deref":
                continue
            if "dc" in e:
                pending_dc = e["name"]
                continue
            if "f" in e:
                nm = e["name"] or str(e["f"])
                label = f"{pending_dc}.{nm}" if pending_dc else nm
                pending_dc = None
                nxt = set()
                for t in cur:
                    r = self._payload_of_agg(t, label)
                    if r is None:
                        nxt.add(self._field(t, label))
                    else:
                        nxt |= r
                cur = nxt
                continue
            if "idx" in e:
                ks = self.of_local(e["idx"])
                kc = [k[1] for k in ks if k[0] == "const" and isinstance(k[1], int)]
                if len(ks) == 1 and len(kc) == 1:
                    cur = {("elem", t, kc[0]) for t in cur}
                else:
                    cur = {("elem", t, ("ix", frozenset(ks))) for t in cur}
                continue
            if "cidx" in e:
                cur = {("elem", t, e["cidx"]) if not e.get("from_end") else ("elem", t) for t in cur}
                continue
            if "sub" in e:
                # `[a, b, rest @ ..]`: the tail from position `sub` (a whole-slice tail only; other sub-slices are opaque)
                if e.get("from_end") and e.get("to") == 0:
                    if e["sub"] > 0:
                        cur = {("subslice", t, e["sub"]) for t in cur}
                else:
                    cur = {("unknown", "subslice") for t in cur}
                continue
        return cur

    _PAYLOAD_OF = {
        "Some.0": ("std::option::Option::Some", "std::option::Option::None"),
        "Ok.0": ("std::result::Result::Ok", "std::result::Result::Err"),
        "Continue.0": ("std::result::Result::Ok", "std::result::Result::Err"),
        "Err.0": ("std::result::Result::Err", "std::result::Result::Ok"),
    }

    def _payload_of_agg(self, t, label):
        """Payload projection applied to a *known* Option/Result aggregate (an `Ok(x)` built in this body or in an
        inlined helper and then taken apart again, e.g. by `?`): the payload itself; the other variant is infeasible."""
        pair = self._PAYLOAD_OF.get(label)
        if pair is not None and t[0] == "through":
            want = pair[0].split("::")[-1]
            if t[1] == want:
                return {t[2]}       # the receiver's own payload of that variant (payloads are transparent)
            return set()            # the other variant's payload does not exist on this path
        if pair is None or t[0] != "agg":
            return None
        if t[1] == pair[0] and len(t[2]) == 1:
            return set(t[2][0])
        if t[1] == pair[1]:
            return set()
        return None

    def _field(self, t, label):
        # (value, overflowed) pair of a checked operation on two literals: `N - 1` for a named constant N
        if t[0] == "bin" and t[1].endswith("WithOverflow") and t[2][0] == "const" and t[3][0] == "const" and \
                isinstance(t[2][1], int) and isinstance(t[3][1], int) and label in ("0", "1"):
            v = _fold_bin(t[1][:-len("WithOverflow")], t[2], t[3])
            if v[0] == "const" and -(2 ** 31) <= v[1] < 2 ** 31:
                return v if label == "0" else ("const", 0)
        # transparent payloads of Option / Result / ControlFlow
        if label in ("Some.0", "Ok.0", "Err.0", "Continue.0", "Break.0"):
            return t
        # elaborated Box deref: `b.0.pointer` is the box's pointee
        if label == "pointer" and t[0] == "field" and t[2] == "0":
            return t[1]
        if t[0] == "agg":
            # field of a known aggregate
            fn = t[3] if len(t) > 3 else None
            if fn:
                short = label.split(".")[-1]
                if short in fn:
                    i = fn.index(short)
                    if i < len(t[2]):
                        sub = t[2][i]
                        # sub is a frozenset of terms; pick representative union marker
                        return ("oneof", sub) if len(sub) != 1 else next(iter(sub))
            if t[1] == "tuple":
                try:
                    i = int(label)
                    sub = t[2][i]
                    return ("oneof", sub) if len(sub) != 1 else next(iter(sub))
                except (ValueError, IndexError):
                    pass
        if t[0] == "closure" and label.isdigit() and int(label) < len(t[2]):
            # a captured value read back out of a closure value built in this body (spliced closure bodies)
            sub = t[2][int(label)]
            return ("oneof", sub) if len(sub) != 1 else next(iter(sub))
        if t[0] == "elem" and len(t) == 2 and isinstance(t[1], tuple) and t[1] and t[1][0] == "zip" and label in ("0", "1"):
            return elem_of(t[1][1 + int(label)])
        if t[0] == "call" and t[1].endswith("slice::<impl [T]>::split_first") and len(t[2]) == 1 and len(t[2][0]) == 1 and label in ("0", "1"):
            # `split_first()` -> Some((first, rest))
            base = next(iter(t[2][0]))
            return ("elem", base, 0) if label == "0" else ("subslice", base, 1)
        if t[0] == "enumitem":
            if label == "1":
                return ("elem", t[1])
            if label == "0":
                return ("index", t[1])
        return ("field", t, label)

    def of_local(self, l, depth=0):
        if l in self._memo:
            return self._memo[l]
        if depth > 60:
            return {("unknown", "depth")}
        self._memo[l] = {("cycle", l)}
        out = set()
        b = self.b
        if 1 <= l <= b.arg_count:
            if b.kind == "closure" and l == 1:
                out.add(("closure_env",))
            else:
                out.add(("param", l))
        for kind, payload, blk, proj in self.defs.get(l, []):
            if proj and proj[0] == "deref":
                continue  # a store through the pointer does not change what the pointer is
            if proj:
                # partial write (field init of a local aggregate): record as fieldset
                val = (
                    self._rv(payload, blk, depth + 1)
                    if kind == "rv"
                    else self._call(payload, blk, depth + 1)
                )
                for v in val:
                    out.add(("partial", Place({"l": l, "p": proj}).__str__(), v))
                continue
            if kind == "rv":
                out |= self._rv(payload, blk, depth + 1)
            else:
                out |= self._call(payload, blk, depth + 1)
        out.discard(("cycle", l))
        # flatten oneof
        flat = set()
        for t in out:
            if t[0] == "oneof":
                flat |= set(t[1])
            else:
                flat.add(t)
        if not flat:
            flat = {("undef", l)}
        self._memo[l] = flat
        return flat

    # -- internals -----------------------------------------------------------------
    def _rv(self, rv, blk, depth):
        k = rv["k"]
        if k == "use":
            return self.of_operand(rv["op"], depth)
        if k in ("ref", "rawptr"):
            return self.of_place(rv["place"], depth)
        if k == "cast":
            inner = self.of_operand(rv["op"], depth)
            ck = rv["ck"]
            if "Unsize" in ck or "PtrToPtr" in ck or "Transmute" in ck or "ReifyFnPointer" in ck or "ClosureFnPointer" in ck:
                return inner
            return {("cast", t, rv["to"], rv["from"]) for t in inner}
        if k == "binop":
            A = self.of_operand(rv["a"], depth)
            B = self.of_operand(rv["b"], depth)
            return {_fold_bin(rv["op"], a, b2) for a in A for b2 in B}
        if k == "unop":
            A = self.of_operand(rv["a"], depth)
            if rv["op"] == "PtrMetadata":
                return {("len", a) for a in A}
            return {("un", rv["op"], a) for a in A}
        if k == "discr":
            return {("discr", t) for t in self.of_place(rv["place"], depth)}
        if k == "agg":
            ops = tuple(frozenset(self.of_operand(o, depth)) for o in rv["ops"])
            if rv["ak"] == "adt":
                return {("agg", f"{rv['adt']}::{rv['variant']}", ops, tuple(rv.get("fnames", [])))}
            if rv["ak"] == "closure":
                return {("closure", rv["def"], ops)}
            return {("agg", rv["ak"], ops, ())}
        if k == "repeat":
            return {("repeat",) }
        if k == "through":
            # pass-through arm of a normalised combinator: the receiver, known to be `variant` here
            out = set()
            fam = {"None": "Some", "Some": "None", "Ok": "Err", "Err": "Ok"}
            for t in self.of_operand(rv["op"], depth):
                if t[0] == "through":
                    if t[1] == rv["variant"]:
                        out.add(t)
                    # a value known to be the other variant cannot take this arm: infeasible, dropped
                    continue
                if t[0] == "agg" and t[1].split("::")[-1] in fam and t[1].startswith(rv["adt"] + "::"):
                    if t[1].split("::")[-1] == rv["variant"]:
                        out.add(t)
                    continue
                out.add(("through", rv["variant"], t))
            return out
        return {("unknown", rv.get("dbg", k)[:40])}

    def _call(self, t, blk, depth):
        callee = t["callee"]
        res = t.get("resolved") or callee
        args = t["args"]
        A = [self.of_operand(a, depth) for a in args]

        def first():
            return A[0] if A else {("unknown", "noargs")}

        if callee == "std::ops::FromResidual::from_residual":
            # the early return of `?`: the operand's failure passed on — it is the Err / None variant, it has no success payload
            variant = "None" if (t["dest"].get("ty") or "").startswith("std::option::Option") else "Err"
            return {a if a[0] == "through" and a[1] == variant else ("through", variant, a) for a in first()
                    if not (a[0] == "through" and a[1] != variant)}
        if callee in VIEW_CALLS or res in VIEW_CALLS:
            kind = VIEW_CALLS.get(callee) or VIEW_CALLS.get(res)
            return {("view", kind, a) for a in first()}
        if any(r.match(callee) for r in _ITER_MAKERS):
            # skip(n), cloned() keep the base
            out = set()
            for a in first():
                if a[0] == "subslice":
                    # iterating the tail of a slice pattern = skipping the matched head
                    out.add(("adapt", "skip", ("iter", a[1]), frozenset({("const", a[2])})))
                elif a[0] in ITER_HEADS:
                    out.add(a)
                else:
                    out.add(("iter", a))
            return out
        if callee in ("std::iter::Iterator::skip", "std::iter::Iterator::take", "std::iter::Iterator::step_by",
                      "std::iter::Iterator::filter", "std::iter::Iterator::skip_while", "std::iter::Iterator::take_while"):
            name = callee.split("::")[-1]
            arg = frozenset(A[1]) if len(A) > 1 else frozenset()
            return {("adapt", name, a, arg) for a in first()}
        if callee in ("std::iter::Iterator::zip", "std::iter::Iterator::chain") and len(A) == 2:
            head = callee.split("::")[-1]
            return {(head, a, b if b[0] in ITER_HEADS else ("iter", b)) for a in A[0] for b in A[1]}
        if callee == "std::iter::Iterator::cycle":
            return {("cycle_iter", a) for a in first()}
        if callee == "std::iter::Iterator::enumerate":
            return {("enum", a[1] if a[0] == "iter" else a) for a in first()}
        if callee in ("std::iter::Iterator::rev",):
            return {("rev", a) for a in first()}
        if callee in ("std::iter::Iterator::next", "std::iter::DoubleEndedIterator::next_back"):
            return {elem_of(a) for a in first()}
        if callee in ("std::ops::Index::index", "std::ops::IndexMut::index_mut"):
            ks = A[1] if len(A) > 1 else set()
            kc = [k[1] for k in ks if k[0] == "const" and isinstance(k[1], int)]
            if len(ks) == 1 and len(kc) == 1:
                return {("elem", a, kc[0]) for a in first()}
            if ks:
                return {("elem", a, ("ix", frozenset(ks))) for a in first()}
            return {("elem", a) for a in first()}
        if is_transparent(callee) or any(r.match(callee) for r in self.extra_transparent):
            return first()
        g = getter_summary(self.facts, res)
        if g is not None and A:
            # `x.as_str()` where as_str is `&self.expression`: the field itself
            out = set()
            for a in first():
                out.add(_subst_self(g, a))
            return out
        flatargs = tuple(frozenset(a) for a in A)
        if callee == "<indirect>" and t.get("func"):
            # a call through a function pointer: a direct call when the pointer is one named function here; otherwise the
            # pointer's provenance travels with the term (5th component) so that a rule can resolve it in context
            ft = set()
            for x in self.of_operand(t["func"], depth):
                while x[0] == "cast":
                    x = x[1]
                ft.add(x)
            names = {x[1] for x in ft if x[0] == "fnitem"}
            if ft and len(names) == 1 and all(x[0] == "fnitem" for x in ft):
                return {("call", next(iter(names)), flatargs, blk)}
            return {("call", callee, flatargs, blk, frozenset(ft))}
        return {("call", callee, flatargs, blk)}


def _subst_self(t, a):
    if t == ("param", 1):
        return a
    return ("field", _subst_self(t[1], a), t[2])


_GETTER_BUSY = set()


def getter_summary(lib, name):
    """A crate-local method whose whole body is `&self.f.g` (two blocks at most, only transparent calls): the field chain
    over ("param", 1); None otherwise.  Cached on lib."""
    if lib is None or not hasattr(lib, "fn"):
        return None
    cache = lib.__dict__.setdefault("_getter_cache", {})
    if name in cache:
        return cache[name]
    if name in _GETTER_BUSY or name.startswith("std::") or name.startswith("core::") or "::" not in name:
        return None
    cache[name] = None
    b = lib.fn(name)
    if b is None or b.j.get("auto_derived") or b.arg_count != 1:
        return None
    try:
        if b is None or len(b.reachable()) > 3 or any(not is_transparent(t["callee"]) for _, t in b.calls()):
            return None
        if any(bl["term"]["k"] == "switch" for i, bl in enumerate(b.blocks) if i in b.reachable()):
            return None
        _GETTER_BUSY.add(name)
        try:
            r = Origins(b, lib).of_local(0)
        finally:
            _GETTER_BUSY.discard(name)
    except Exception:
        return None
    if len(r) != 1:
        return None
    t = next(iter(r))
    x = t
    n = 0
    while x[0] == "field" and len(x) == 3 and isinstance(x[2], str):
        x = x[1]
        n += 1
    if n == 0 or x != ("param", 1):
        return None
    cache[name] = t
    return t


def simplify(t):
    """Re-apply the projection rules of Origins._field inside a term (after a substitution put a structured term under a
    field projection)."""
    if isinstance(t, frozenset):
        return frozenset(simplify(x) for x in t)
    if not isinstance(t, tuple) or not t:
        return t
    if t[0] == "field" and len(t) == 3:
        inner = simplify(t[1])
        r = Origins._field(None, inner, t[2])
        if isinstance(r, tuple) and r and r[0] == "oneof":
            return r
        return r
    return tuple(simplify(x) if isinstance(x, (tuple, frozenset)) else x for x in t)


def term_mentions(t, pred):
    """True if any sub-term satisfies pred."""
    if isinstance(t, (frozenset, set, list)):
        return any(term_mentions(x, pred) for x in t)
    if isinstance(t, tuple):
        if t and isinstance(t[0], str):
            if pred(t):
                return True
            return any(term_mentions(x, pred) for x in t[1:] if isinstance(x, (tuple, frozenset)))
        return any(term_mentions(x, pred) for x in t)
    return False


def fmt_term(t, depth=0):
    if depth > 6:
        return "…"
    if not isinstance(t, tuple):
        return str(t)
    h = t[0]
    if h == "param":
        return f"param{t[1]}"
    if h == "field":
        return f"{fmt_term(t[1], depth+1)}.{t[2]}"
    if h == "call":
        args = ", ".join("|".join(sorted(fmt_term(x, depth + 1) for x in a)) for a in t[2])
        return f"{t[1].split('::')[-1]}({args})"
    if h == "view":
        return f"as_{t[1]}({fmt_term(t[2], depth+1)})"
    if h == "elem" and len(t) > 2:
        ix = t[2]
        if isinstance(ix, tuple) and ix and ix[0] == "ix":
            ix = "|".join(sorted(fmt_term(x, depth + 1) for x in ix[1]))
        return f"{fmt_term(t[1], depth+1)}[{ix}]"
    if h == "adapt":
        return f"{fmt_term(t[2], depth+1)}.{t[1]}({'|'.join(sorted(fmt_term(x, depth+1) for x in t[3]))})"
    if h in ("iter", "elem", "enum", "index", "rev", "len", "discr", "enumitem", "cycle_iter") and len(t) == 2:
        return f"{h}({fmt_term(t[1], depth+1)})"
    if h in ("zip", "chain"):
        return f"{h}({fmt_term(t[1], depth+1)}, {fmt_term(t[2], depth+1)})"
    if h == "agg":
        args = ", ".join("|".join(sorted(fmt_term(x, depth + 1) for x in a)) for a in t[2])
        return f"{t[1].split('::', 1)[-1] if '::' in t[1] else t[1]}{{{args}}}"
    if h == "through":
        return f"{fmt_term(t[2], depth+1)}[still {t[1]}]"
    if h == "bin":
        return f"{t[1]}({fmt_term(t[2], depth+1)}, {fmt_term(t[3], depth+1)})"
    if h == "un":
        return f"{t[1]}({fmt_term(t[2], depth+1)})"
    if h == "cast":
        return f"({fmt_term(t[1], depth+1)} as {t[2]})"
    if h == "const":
        return f"const {t[1]}"
    return str(t)


def fmt_terms(ts):
    return " | ".join(sorted(fmt_term(t) for t in ts))


# ---------------------------------------------------------------------------
# A2 edge dominance, cycles
# ---------------------------------------------------------------------------
def reach_avoiding(body, start, avoid_blocks=(), avoid_edges=()):
    """Blocks reachable from start on normal edges without entering avoid_blocks
    and without taking avoid_edges."""
    avoid_blocks = set(avoid_blocks)
    avoid_edges = set(avoid_edges)
    if start in avoid_blocks:
        return set()
    seen = {start}
    st = [start]
    sc = body.succs()
    while st:
        b = st.pop()
        for s in sc[b]:
            if (b, s) in avoid_edges or s in avoid_blocks or s in seen:
                continue
            seen.add(s)
            st.append(s)
    return seen


def edge_dominates(body, edge, site):
    """Every normal path from entry to `site` takes `edge` (u, v)."""
    r = reach_avoiding(body, 0, avoid_edges=[edge])
    return site not in r and site in body.reachable()


def edges_dominate(body, edges, site):
    """Every normal path from entry to `site` takes one of `edges`."""
    r = reach_avoiding(body, 0, avoid_edges=list(edges))
    return site not in r and site in body.reachable()


def block_dominates(body, blk, site):
    return body.dominates(blk, site)


def blocks_separate(body, blocks, site, start=0):
    """Every normal path from start to site passes through one of `blocks`."""
    if site in blocks:
        return True
    r = reach_avoiding(body, start, avoid_blocks=blocks)
    return site not in r


def region_always_errs(body, blocks):
    """Every path that enters `blocks` ends in a `_0 = Err(..)` assignment made inside the
    region: avoiding those assignments no return is reachable from the region's entries."""
    blocks = set(blocks)
    if not blocks:
        return False
    errb = set()
    for x in blocks:
        for s in body.blocks[x]["stmts"]:
            if s["k"] == "assign" and s["place"]["l"] == 0 and not s["place"]["p"] and s["rv"]["k"] == "agg" and \
                    s["rv"].get("adt") == "std::result::Result" and s["rv"]["variant"] == "Err":
                errb.add(x)
        # `..?` early return: _0 = from_residual(the failure)
        tx = body.blocks[x]["term"]
        if tx["k"] == "call" and tx["callee"] == "std::ops::FromResidual::from_residual" and tx["dest"]["l"] == 0 and not tx["dest"]["p"]:
            errb.add(x)
    if not errb:
        return False
    entries = [x for x in blocks if any(p not in blocks for p in body.preds()[x])] or [min(blocks)]
    for e in entries:
        for x in reach_avoiding(body, e, avoid_blocks=errb):
            if body.blocks[x]["term"]["k"] == "return":
                return False
    return True


def copy_root(b, l, depth=6):
    """The local that `l` is a plain copy of: follows single-assignment moves/copies, also through a tuple that is built
    once and taken apart again (`let (a, b) = helper(..)` after inlining)."""
    for _ in range(depth):
        ws = b.assigns_to(l)
        if len(ws) != 1 or ws[0][1] == "term":
            break
        rv = ws[0][2]
        if rv["k"] != "use" or rv["op"].get("k") not in ("copy", "move"):
            break
        op = rv["op"]
        if not op["p"]:
            l = op["l"]
            continue
        if len(op["p"]) == 1 and isinstance(op["p"][0], dict) and "f" in op["p"][0]:
            tw = b.assigns_to(op["l"])
            if len(tw) == 1 and tw[0][1] != "term" and tw[0][2]["k"] == "agg" and tw[0][2].get("ak") == "tuple":
                comp = tw[0][2]["ops"][op["p"][0]["f"]] if op["p"][0]["f"] < len(tw[0][2]["ops"]) else None
                if comp is not None and comp.get("k") in ("copy", "move") and not comp.get("p"):
                    l = comp["l"]
                    continue
        break
    return l


def is_failure_term(t):
    """The term denotes an Err(..) / None-as-failure result: an Err aggregate, a value known to be the Err variant, the early
    return of `?`."""
    if t[0] == "through" and t[1] == "Err":
        return True
    if t[0] == "agg" and t[1] == "std::result::Result::Err":
        return True
    return False


def results_avoiding_edge(body, lib, edge):
    """Provenance of the function's result over the paths that do not take `edge` (e.g. the success edge of a fallible call:
    what is returned when it failed)."""
    feas = reach_avoiding(body, 0, avoid_edges=[edge])
    return Origins(body, lib, only_blocks=feas).of_local(0)


def sccs(nodes, succ):
    """Tarjan; succ: node -> iterable of nodes. Returns list of lists."""
    index = {}
    low = {}
    onst = set()
    st = []
    out = []
    counter = [0]
    import sys

    sys.setrecursionlimit(10000)

    def visit(v):
        index[v] = low[v] = counter[0]
        counter[0] += 1
        st.append(v)
        onst.add(v)
        for w in succ(v):
            if w not in index:
                visit(w)
                low[v] = min(low[v], low[w])
            elif w in onst:
                low[v] = min(low[v], index[w])
        if low[v] == index[v]:
            comp = []
            while True:
                w = st.pop()
                onst.discard(w)
                comp.append(w)
                if w == v:
                    break
            out.append(comp)

    for v in nodes:
        if v not in index:
            visit(v)
    return out


def cfg_cycles(body):
    """Non-trivial SCCs of the normal CFG (loops), as sorted block lists."""
    rs = sorted(body.reachable())
    sc = body.succs()
    comps = sccs(rs, lambda v: sc[v])
    out = []
    for c in comps:
        if len(c) > 1 or (len(c) == 1 and c[0] in sc[c[0]]):
            out.append(sorted(c))
    return out


# ---------------------------------------------------------------------------
# branch conditions
# ---------------------------------------------------------------------------
class Branches:
    """Maps each switch terminator to a condition term and labelled edges."""

    def __init__(self, body, origins=None):
        self.b = body
        self.o = origins or Origins(body)

    def switches(self):
        for blk in sorted(self.b.reachable()):
            t = self.b.blocks[blk]["term"]
            if t["k"] == "switch":
                yield blk, t

    def cond(self, blk):
        t = self.b.blocks[blk]["term"]
        return self.o.of_operand(t["discr"])

    def variant_edges(self, blk):
        """For a switch on an enum discriminant: {variant_name: target}, otherwise target,
        adt path, scrutinee terms.  None if not a discriminant switch."""
        t = self.b.blocks[blk]["term"]
        if t["k"] != "switch":
            return None
        d = t["discr"]
        if d.get("k") not in ("copy", "move") or d["p"]:
            return None
        # find defining discriminant rvalue (search this block backwards, then anywhere)
        rv = None
        for s in reversed(self.b.blocks[blk]["stmts"]):
            if s["k"] == "assign" and s["place"]["l"] == d["l"] and not s["place"]["p"]:
                rv = s["rv"]
                break
        if rv is None:
            defs = self.b.assigns_to(d["l"])
            rvs = [x[2] for x in defs if x[1] != "term"]
            if len(rvs) == 1:
                rv = rvs[0]
        if rv is None or rv["k"] != "discr" or "variants" not in rv:
            return None
        names = {v: n for v, n in rv["variants"]}
        edges = {}
        for v, tgt in t["targets"]:
            nm = names.get(v)
            if nm is None and v < 0:
                # negative discriminants (Ordering::Less = -1) are listed by their unsigned bit pattern in the variant table
                for bits in (8, 16, 32, 64, 128):
                    nm = names.get(v + (1 << bits))
                    if nm is not None:
                        break
            edges[nm if nm is not None else f"#{v}"] = tgt
        return {
            "adt": rv["adt"],
            "edges": edges,
            "otherwise": t["otherwise"],
            "all": [n for _, n in rv["variants"]],
            "scrutinee": self.o.of_place(rv["place"]),
            "place": rv["place"],
        }

    def first_variant_switch(self, adt, scrutinee_ok=None, within=None):
        """The dominator-earliest discriminant switch on `adt` whose scrutinee terms satisfy
        scrutinee_ok (drop elaboration re-tests the same discriminant later; those are not it)."""
        best = None
        for blk, t in self.switches():
            if within is not None and blk not in within:
                continue
            ve = self.variant_edges(blk)
            if ve and ve["adt"] == adt and (scrutinee_ok is None or scrutinee_ok(ve["scrutinee"])):
                depth = len(self.b.dominators().get(blk, ()))
                if best is None or depth < best[0]:
                    best = (depth, blk, ve)
        return (best[1], best[2]) if best else (None, None)

    def bool_edges(self, blk):
        """For a switch on a bool: (true_target, false_target) or None."""
        t = self.b.blocks[blk]["term"]
        if t["k"] != "switch":
            return None
        d = t["discr"]
        if d.get("ty") != "bool":
            return None
        tt = ft = None
        for v, tgt in t["targets"]:
            if v == 0:
                ft = tgt
            elif v == 1:
                tt = tgt
        if tt is None:
            tt = t["otherwise"]
        if ft is None:
            ft = t["otherwise"]
        return tt, ft


def strip_not(term):
    """Returns (inner, negated)."""
    neg = False
    while isinstance(term, tuple) and term[0] == "un" and term[1] == "Not":
        term = term[2]
        neg = not neg
    return term, neg


# ---------------------------------------------------------------------------
# A1 call graph
# ---------------------------------------------------------------------------
class CallGraph:
    def __init__(self, facts):
        self.f = facts
        self.nodes = {}
        for b in facts.bodies:
            if b.promoted is None and b.kind in ("fn", "method", "closure", "static", "const"):
                self.nodes[b.deff] = b
        # trait method -> local impl bodies
        self.trait_impls = defaultdict(list)
        for b in self.nodes.values():
            if b.impl_trait and b.item_name:
                self.trait_impls[(b.impl_trait, b.item_name)].append(b.deff)
        # (trait, impl self type) -> methods, for callbacks from external generic code
        self.impl_methods = defaultdict(list)
        for b in self.nodes.values():
            if b.impl_trait and b.impl_self and b.kind == "method":
                self.impl_methods[b.impl_trait].append((b.impl_self, b.deff))
        self.edges = defaultdict(set)
        self.edge_sites = defaultdict(list)
        self.external = defaultdict(set)  # body -> external callee names
        for name, b in self.nodes.items():
            for blk, t in b.calls():
                self._add_call(name, b, blk, t)
            # closures created here / fn items referenced
            for blk, i, s in b.stmts():
                if s["k"] != "assign":
                    continue
                self._scan_rv(name, s["rv"])
            for blk in b.reachable():
                t = b.blocks[blk]["term"]
                if t["k"] == "call":
                    for a in t["args"]:
                        self._scan_op(name, a)

    def _scan_op(self, name, op):
        if op.get("k") == "const" and "fn" in op:
            fn = op["fn"]
            if fn in self.nodes:
                self.edges[name].add(fn)
            else:
                # reference to a trait method item (`JmespathError::from` passed to map_err): the implementing type is the
                # first generic argument of the item; fan out to all impls only when that does not identify one
                self._fan(name, fn, None, self_ty=(op.get("fn_args") or [None])[0])

    def _scan_rv(self, name, rv):
        if rv["k"] == "agg" and rv["ak"] == "closure":
            if rv["def"] in self.nodes and not self.nodes[rv["def"]].j.get("fully_spliced"):
                self.edges[name].add(rv["def"])
        for key in ("op", "a", "b"):
            if key in rv and isinstance(rv[key], dict):
                self._scan_op(name, rv[key])
        for o in rv.get("ops", []):
            self._scan_op(name, o)

    def _fan(self, name, callee, t, self_ty=None):
        # callee like "functions::Function::evaluate" (trait method path)
        m = re.match(r"^(.*)::([A-Za-z_0-9]+)$", callee)
        if not m:
            return False
        tr, item = m.group(1), m.group(2)
        impls = self.trait_impls.get((tr, item))
        if impls and self_ty:
            exact = [d for d in impls if (self.nodes[d].impl_self or "") == self_ty]
            if exact:
                impls = exact
        if impls:
            for d in impls:
                self.edges[name].add(d)
            return True
        return False

    def _add_call(self, name, b, blk, t):
        callee = t["callee"]
        res = t.get("resolved")
        tgt = None
        if res and res in self.nodes and t.get("resolved_kind") == "Item":
            tgt = res
        elif callee in self.nodes and not t.get("callee_trait"):
            tgt = callee
        if tgt:
            self.edges[name].add(tgt)
            self.edge_sites[(name, tgt)].append(blk)
            return
        # unresolved / virtual trait method with local impls
        tr = t.get("callee_trait")
        if tr:
            item = callee.split("::")[-1]
            impls = self.trait_impls.get((tr, item))
            if impls and not (res and t.get("resolved_kind") == "Item" and not t.get("resolved_local")):
                for d in impls:
                    self.edges[name].add(d)
                    self.edge_sites[(name, d)].append(blk)
                self._callbacks(name, t)
                return
        self.external[name].add(res or callee)
        self._callbacks(name, t)

    STD_SUPERS = {
        "std::cmp::Ord": ["std::cmp::PartialOrd", "std::cmp::Eq", "std::cmp::PartialEq"],
        "std::cmp::Eq": ["std::cmp::PartialEq"],
        "std::cmp::PartialOrd": ["std::cmp::PartialEq"],
        "std::marker::Copy": ["std::clone::Clone"],
        "std::error::Error": ["std::fmt::Debug", "std::fmt::Display"],
        "std::iter::DoubleEndedIterator": ["std::iter::Iterator"],
        "std::iter::ExactSizeIterator": ["std::iter::Iterator"],
    }

    def _callbacks(self, name, t):
        """An external generic callee may call back into local trait impls named by
        its instantiated trait obligations (e.g. serde_json::from_str::<Variable>
        -> <Variable as Deserialize>::deserialize; slice::sort -> Ord for Variable)."""
        for self_ty, tr in t.get("obligations", []) + t.get("resolved_obligations", []):
            trs = [tr] + self.STD_SUPERS.get(tr, [])
            for tr2 in trs:
                for impl_self, meth in self.impl_methods.get(tr2, ()):
                    core = re.sub(r"<.*$", "", impl_self).lstrip("&").strip()
                    core = core.replace("'a ", "").replace("mut ", "")
                    if impl_self == "T" or impl_self == "F" or (core and core in self_ty):
                        self.edges[name].add(meth)

    def reachable_from(self, roots):
        seen = set()
        st = [r for r in roots if r in self.nodes]
        while st:
            n = st.pop()
            if n in seen:
                continue
            seen.add(n)
            for m in self.edges.get(n, ()):
                if m not in seen:
                    st.append(m)
        return seen

    def sccs(self, within=None):
        nodes = sorted(within if within is not None else self.nodes)
        ws = set(nodes)
        return sccs(nodes, lambda v: sorted(x for x in self.edges.get(v, ()) if x in ws))


def closure_capture_origins(lib, parent, closure_def):
    """Origins (in the parent body) of each captured value of the closure `closure_def`, by environment field index.
    Independent of the captured variables' names."""
    o = Origins(parent, lib)
    for _, _, st in parent.stmts():
        if st["k"] == "assign" and st["rv"]["k"] == "agg" and st["rv"].get("ak") == "closure" and st["rv"].get("def") == closure_def:
            return [o.of_operand(x) for x in st["rv"]["ops"]]
    return None


def success_edge(body, o, br, scrutinee_ok):
    """The CFG edge taken when a fallible call succeeded — `call(..)?` (Try::branch then the Continue edge) or a hand-written
    `match call(..) { Ok(..) => .., Err(e) => .. }` / `if let Ok(..)` (the Ok edge).  scrutinee_ok(terms) selects the call by
    the provenance of the tested value.  Returns (switch block, success target, failure target) or None."""
    for bb, t in body.calls():
        if t["callee"] == "std::ops::Try::branch":
            terms = o.of_operand(t["args"][0])
            if terms and scrutinee_ok(terms) and t["t"] is not None:
                ve = br.variant_edges(t["t"])
                if ve and "Continue" in ve["edges"]:
                    return t["t"], ve["edges"]["Continue"], ve["edges"].get("Break", ve["otherwise"])
    best = None
    for sb, sw in br.switches():
        ve = br.variant_edges(sb)
        if ve and ve["adt"] == "std::result::Result" and ve["scrutinee"] and scrutinee_ok(ve["scrutinee"]):
            ok_t = ve["edges"].get("Ok", ve["otherwise"])
            err_t = ve["edges"].get("Err", ve["otherwise"])
            if ok_t != err_t:
                depth = len(body.dominators().get(sb, ()))
                if best is None or depth < best[0]:
                    best = (depth, sb, ok_t, err_t)
    return (best[1], best[2], best[3]) if best else None
