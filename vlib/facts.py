"""Fact-file model: bodies, CFG helpers, pretty printer."""
import json
import re
from collections import defaultdict


def norm_ty(s):
    """Normalise Rc/Arc so that default and sync configurations compare equal."""
    return s.replace("std::sync::Arc", "std::rc::Rc")


class Place:
    __slots__ = ("local", "proj", "ty")

    def __init__(self, j):
        self.local = j["l"]
        self.proj = j["p"]
        self.ty = j.get("ty", "")

    def is_local(self):
        return not self.proj

    def key(self):
        return (self.local, json.dumps(self.proj, sort_keys=True))

    def __str__(self):
        s = f"_{self.local}"
        for e in self.proj:
            if e == "deref":
                s = f"(*{s})"
            elif "f" in e:
                s = f"{s}.{e['name'] or e['f']}"
            elif "dc" in e:
                s = f"({s} as {e['name']})"
            elif "idx" in e:
                s = f"{s}[_{e['idx']}]"
            elif "cidx" in e:
                s = f"{s}[{'-' if e['from_end'] else ''}{e['cidx']}]"
            elif "sub" in e:
                s = f"{s}[{e['sub']}..{e['to']}]"
            else:
                s = f"{s}.<{e}>"
        return s


def op_str(o):
    if o is None:
        return "?"
    k = o.get("k")
    if k in ("copy", "move"):
        return ("move " if k == "move" else "") + str(Place(o))
    if k == "const":
        if "fn" in o:
            return f"fn {o['fn']}"
        if "promoted" in o:
            return f"promoted[{o['promoted']}]"
        return f"const {o['val']}"
    return json.dumps(o)


def rv_str(rv):
    k = rv["k"]
    if k == "use":
        return op_str(rv["op"])
    if k == "ref":
        return ("&mut " if rv["mut"] else "&") + str(Place(rv["place"]))
    if k == "rawptr":
        return "&raw " + str(Place(rv["place"]))
    if k == "cast":
        return f"{op_str(rv['op'])} as {rv['to']} ({rv['ck']})"
    if k == "binop":
        return f"{rv['op']}({op_str(rv['a'])}, {op_str(rv['b'])})"
    if k == "unop":
        return f"{rv['op']}({op_str(rv['a'])})"
    if k == "discr":
        return f"discriminant({Place(rv['place'])})"
    if k == "agg":
        ak = rv["ak"]
        ops = ", ".join(op_str(o) for o in rv["ops"])
        if ak == "adt":
            return f"{rv['adt']}::{rv['variant']}{{{ops}}}"
        if ak == "closure":
            return f"closure {rv['def']}[{ops}]"
        return f"{ak}({ops})"
    if k == "repeat":
        return f"[{op_str(rv['op'])}; n]"
    if k == "through":
        return f"{op_str(rv['op'])} /* still {rv['variant']} */"
    return rv.get("dbg", k)


def term_str(t):
    k = t["k"]
    if k == "goto":
        return f"goto bb{t['t']}"
    if k == "switch":
        tg = ", ".join(f"{v}: bb{b}" for v, b in t["targets"])
        return f"switchInt({op_str(t['discr'])}) [{tg}, otherwise: bb{t['otherwise']}]"
    if k == "call":
        args = ", ".join(op_str(a) for a in t["args"])
        res = t.get("resolved")
        extra = f" [=> {res}]" if res and res != t["callee"] else ""
        ca = t.get("callee_args")
        cas = ("<" + ", ".join(ca) + ">") if ca else ""
        tgt = f"bb{t['t']}" if t["t"] is not None else "!"
        return f"{Place(t['dest'])} = {t['callee']}{cas}({args}){extra} -> {tgt}"
    if k == "assert":
        ops = ", ".join(op_str(o) for o in t["msg_ops"])
        return f"assert({'!' if not t['expected'] else ''}{op_str(t['cond'])}, {t['msg']}({ops})) -> bb{t['t']}"
    if k == "drop":
        return f"drop({Place(t['place'])}) -> bb{t['t']}"
    return k + (" " + t.get("dbg", "") if "dbg" in t else "")


class Body:
    def __init__(self, j, crate):
        self.j = j
        self.crate = crate
        self.deff = j["def"]
        self.kind = j["kind"]
        self.promoted = j.get("promoted")
        self.blocks = j["blocks"]
        self.locals = j["locals"]
        self.arg_count = j["arg_count"]
        self.span = j["span"]["s"]
        self.name = self.deff if self.promoted is None else f"{self.deff}::promoted[{self.promoted}]"
        self._succ = None
        self._pred = None
        self._dom = None
        self._pdom = None
        self._names = None
        self.threaded = 0
        self._thread_jumps()

    # ---- normalisation ---------------------------------------------------
    def _thread_jumps(self):
        """Jump threading: `x = const c; goto B` where B is `switchInt(x)` with no
        statements is redirected to the target selected by c.  This undoes the
        `if match {..=> true, ..=> false} {A} else {B}` lowering so that the CFG
        reflects which arm reaches which continuation.  Sound: it only removes
        infeasible paths."""
        changed = True
        rounds = 0
        while changed and rounds < 10:
            changed = False
            rounds += 1
            for bi, bl in enumerate(self.blocks):
                t = bl["term"]
                if t["k"] != "goto":
                    continue
                tgt = t["t"]
                # follow empty forwarders
                hops = 0
                while (
                    hops < 4
                    and not self.blocks[tgt]["stmts"]
                    and self.blocks[tgt]["term"]["k"] == "goto"
                    and self.blocks[tgt]["term"]["t"] != tgt
                ):
                    tgt = self.blocks[tgt]["term"]["t"]
                    hops += 1
                tb = self.blocks[tgt]
                if tb["stmts"] or tb["term"]["k"] != "switch":
                    continue
                d = tb["term"]["discr"]
                if d.get("k") not in ("copy", "move") or d["p"]:
                    continue
                x = d["l"]
                val = None
                for s in reversed(bl["stmts"]):
                    if s["k"] == "assign" and s["place"]["l"] == x:
                        if not s["place"]["p"] and s["rv"]["k"] == "use" and s["rv"]["op"].get("k") == "const" and "int" in s["rv"]["op"]:
                            val = s["rv"]["op"]["int"]
                        break
                if val is None:
                    continue
                dest = tb["term"]["otherwise"]
                for v, b2 in tb["term"]["targets"]:
                    if v == val:
                        dest = b2
                        break
                bl["term"] = dict(t)
                bl["term"]["t"] = dest
                bl["term"]["threaded_from"] = t["t"]
                self.threaded += 1
                changed = True

    # ---- identification -------------------------------------------------
    @property
    def impl_trait(self):
        return self.j.get("impl_trait")

    @property
    def impl_self(self):
        return self.j.get("impl_self")

    @property
    def item_name(self):
        return self.j.get("item_name")

    def local_name(self, l):
        if self._names is None:
            self._names = {}
            for d in self.j["debug"]:
                p = d.get("place")
                if p and not p["p"]:
                    self._names.setdefault(p["l"], d["name"])
        return self._names.get(l)

    def locals_named(self, name):
        out = []
        for d in self.j["debug"]:
            p = d.get("place")
            if p and not p["p"] and d["name"] == name:
                out.append(p["l"])
        return out

    def local_ty(self, l):
        return self.locals[l]["ty"]

    # ---- CFG -------------------------------------------------------------
    def term(self, b):
        return self.blocks[b]["term"]

    def normal_succs(self, b):
        """Successors on the normal (non-unwind) path."""
        t = self.blocks[b]["term"]
        k = t["k"]
        if k == "goto":
            return [t["t"]]
        if k == "switch":
            out = [x[1] for x in t["targets"]] + [t["otherwise"]]
            seen = []
            for x in out:
                if x not in seen:
                    seen.append(x)
            return seen
        if k in ("call", "assert", "drop"):
            return [t["t"]] if t["t"] is not None else []
        return []

    def succs(self):
        if self._succ is None:
            self._succ = [self.normal_succs(b) for b in range(len(self.blocks))]
        return self._succ

    def preds(self):
        if self._pred is None:
            self._pred = [[] for _ in self.blocks]
            for b, ss in enumerate(self.succs()):
                for s in ss:
                    self._pred[s].append(b)
        return self._pred

    def reachable(self, start=0):
        seen = {start}
        st = [start]
        sc = self.succs()
        while st:
            b = st.pop()
            for s in sc[b]:
                if s not in seen:
                    seen.add(s)
                    st.append(s)
        return seen

    def dominators(self):
        """dom[b] = set of blocks dominating b (normal edges, from bb0)."""
        if self._dom is None:
            self._dom = _dominators(len(self.blocks), self.succs(), self.preds(), [0])
        return self._dom

    def dominates(self, a, b):
        d = self.dominators()
        return b in d and a in d[b]

    def return_blocks(self):
        return [b for b in self.reachable() if self.blocks[b]["term"]["k"] == "return"]

    def postdominators(self):
        if self._pdom is None:
            n = len(self.blocks)
            exits = [b for b in range(n) if not self.succs()[b] and b in self.reachable()]
            # virtual exit: treat all exits as roots
            self._pdom = _dominators(n, self.preds(), self.succs(), exits, multi=True)
        return self._pdom

    # ---- queries -----------------------------------------------------------
    def calls(self, reachable_only=True):
        rs = self.reachable() if reachable_only else range(len(self.blocks))
        for b in sorted(rs):
            t = self.blocks[b]["term"]
            if t["k"] in ("call", "tailcall"):
                yield b, t

    def stmts(self, reachable_only=True):
        rs = self.reachable() if reachable_only else range(len(self.blocks))
        for b in sorted(rs):
            for i, s in enumerate(self.blocks[b]["stmts"]):
                yield b, i, s

    def assigns_to(self, local):
        """All (block, idx|'term', rvalue-or-call) that write the plain local."""
        out = []
        for b in sorted(self.reachable()):
            for i, s in enumerate(self.blocks[b]["stmts"]):
                if s["k"] == "assign" and s["place"]["l"] == local and not s["place"]["p"]:
                    out.append((b, i, s["rv"]))
            t = self.blocks[b]["term"]
            if t["k"] == "call" and t["dest"]["l"] == local and not t["dest"]["p"]:
                out.append((b, "term", t))
        return out

    def pretty(self):
        out = [f"fn {self.name}  [{self.kind}] {self.span}"]
        for i, l in enumerate(self.locals):
            nm = self.local_name(i)
            out.append(f"    let _{i}: {l['ty']};" + (f"  // {nm}" if nm else ""))
        for d in self.j["debug"]:
            p = d.get("place")
            if p and p["p"]:
                out.append(f"    debug {d['name']} => {Place(p)}")
        rs = self.reachable()
        for b, bl in enumerate(self.blocks):
            tag = " (cleanup)" if bl["cleanup"] else ""
            if b not in rs:
                tag += " (unreachable-normal)"
            out.append(f"  bb{b}{tag}:")
            for s in bl["stmts"]:
                if s["k"] == "assign":
                    out.append(f"      {Place(s['place'])} = {rv_str(s['rv'])};")
                else:
                    out.append(f"      {s['k']} {s.get('dbg','')}")
            out.append(f"      {term_str(bl['term'])};   // {bl['term']['span']['s'].split('/')[-1]}")
        return "\n".join(out)


def _dominators(n, succ, pred, roots, multi=False):
    """Iterative dominator sets.  With multi=True a virtual root precedes all roots."""
    reach = set()
    st = list(roots)
    while st:
        b = st.pop()
        if b in reach:
            continue
        reach.add(b)
        st.extend(succ[b])
    full = set(reach)
    dom = {}
    for b in reach:
        dom[b] = set(full)
    for r in roots:
        dom[r] = {r}
    changed = True
    order = sorted(reach)
    rootset = set(roots)
    while changed:
        changed = False
        for b in order:
            if b in rootset:
                continue
            ps = [p for p in pred[b] if p in reach]
            if not ps:
                new = {b}
            else:
                new = set(dom[ps[0]])
                for p in ps[1:]:
                    new &= dom[p]
                new.add(b)
            if new != dom[b]:
                dom[b] = new
                changed = True
    return dom


class Facts:
    def __init__(self, path, normalise=False, use_inliner=True):
        with open(path) as fh:
            text = fh.read()
        if normalise:
            # the Rcvar alias substitution: analyse a `sync` build with the same rule patterns
            text = text.replace("std::sync::Arc", "std::rc::Rc")
        self.j = json.loads(text)
        # normalisation passes (see inline.py): constant switches folded, unknown helper functions inlined
        from . import inline, renames
        # private functions renamed by a maintainer get their old names back (renames.py)
        self.renamed = renames.undo_renames(self.j, renames.load_signatures()) if use_inliner else {}
        if use_inliner:
            self.renamed.update(renames.undo_rehoming(self.j, renames.load_signatures()))
        inline._ROOT_TYPES = {x["path"] for k_ in ("adts", "traits", "type_aliases") for x in self.j.get(k_, []) if "::" not in x.get("path", "::")}
        self.folded = sum(inline.fold_const_switches(b) for b in self.j["bodies"])
        self.inlined = inline.inline_helpers(self.j["bodies"], inline.load_known()) if use_inliner else {}
        if use_inliner:
            n_dev = 0
            for b_ in self.j["bodies"]:
                if b_.get("inlined"):
                    n_dev += inline.devirtualise(b_)
            if n_dev:
                # a function pointer that turned out to be a private helper (`infix(lbp, subexpr)`): splice that one too
                again = inline.inline_helpers(self.j["bodies"], inline.load_known())
                for h, callers in again.items():
                    self.inlined[h] = sorted(set(self.inlined.get(h, [])) | set(callers))
        from . import normalize
        import os as _os
        self.combinators = normalize.normalise_combinators(self.j["bodies"], self.j.get("adts"), cli=(self.j.get("crate") == "jp")) if use_inliner and not _os.environ.get("VERIF_NO_NORMALISE") else 0
        self.normalised = normalise
        self.path = path
        self.crate = self.j["crate"]
        self.tag = self.j["tag"]
        self.bodies = [Body(b, self.crate) for b in self.j["bodies"]]
        self.by_def = defaultdict(list)
        for b in self.bodies:
            self.by_def[b.deff].append(b)
        self.adts = {a["path"]: a for a in self.j["adts"]}
        self.impls = self.j["impls"]
        self.statics = self.j["statics"]
        self.consts = {c["path"]: c for c in self.j["consts"]}
        self.traits = {t["path"]: t for t in self.j["traits"]}
        self.type_aliases = {t["path"]: t for t in self.j["type_aliases"]}

    def fn(self, deff):
        """The unique non-promoted body with this def path, or None."""
        bs = [b for b in self.by_def.get(deff, []) if b.promoted is None]
        return bs[0] if len(bs) == 1 else None

    def promoted(self, deff, idx):
        for b in self.by_def.get(deff, []):
            if b.promoted == idx:
                return b
        return None

    def find(self, regex):
        r = re.compile(regex)
        return [b for b in self.bodies if b.promoted is None and r.search(b.deff)]

    def fn_bodies(self, with_inlined_helpers=False):
        """Function-like bodies.  A helper that was inlined into its callers is analysed there, not on its own."""
        return [b for b in self.bodies if b.promoted is None and b.kind in ("fn", "method", "closure")
                and (with_inlined_helpers or not self.is_inlined_helper(b))]

    def is_inlined_helper(self, b):
        """Helpers inlined into their callers, and closures spliced into their parents at every use."""
        if b.j.get("inlined_into") or b.j.get("fully_spliced"):
            return True
        return False

    def owners(self, b):
        """The known functions a body belongs to: itself; for a closure the function it is written in; for a helper that was
        inlined, the functions it was inlined into (transitively)."""
        out = set()
        seen = set()
        work = [b.deff if b.kind != "closure" else (b.j.get("closure_root") or b.deff)]
        while work:
            d = work.pop()
            if d in seen:
                continue
            seen.add(d)
            fb = self.fn(d)
            into = fb.j.get("inlined_into") if fb is not None else None
            if into:
                work.extend(into)
            else:
                out.add(d)
        return out

    def closures_of(self, deff):
        """Closures created in `deff` — including those created in helpers that were inlined into it."""
        roots = {deff}
        fb = self.fn(deff)
        if fb is not None:
            roots |= set(fb.j.get("inlined", []))
        return [
            b
            for b in self.bodies
            if b.kind == "closure" and b.promoted is None and b.j.get("closure_root") in roots
        ]
