"""Registry and signature extraction for the builtin functions (shared by C02,
C05, C06, C12, C15)."""
import re

from .analysis import strip_through
from .analysis import Origins, fmt_terms

AT = "functions::ArgumentType"
SIMPLE = {"Any": "any", "Null": "null", "String": "string", "Number": "number", "Bool": "boolean",
          "Object": "object", "Array": "array", "Expref": "expref"}
JSON6 = frozenset({"null", "string", "number", "boolean", "object", "array"})


class SigError(Exception):
    pass


def registry(lib):
    """[(name, impl type path, block)] from Runtime::register_builtin_functions, plus
    a list of problems (strings)."""
    b = lib.fn("runtime::Runtime::register_builtin_functions")
    if b is None:
        return None, ["runtime::Runtime::register_builtin_functions not found"]
    o = Origins(b, lib)
    out = []
    problems = []
    # registrations first (a table-driven registration tells which other calls belong to it), then everything else
    for blk, t in sorted(b.calls(), key=lambda bt: (bt[1]["callee"] != "runtime::Runtime::register_function", bt[0])):
        c = t["callee"]
        if c == "runtime::Runtime::register_function":
            name_t = o.of_operand(t["args"][1])
            tab = _table_rows(name_t, o.of_operand(t["args"][2]), b, o)
            if tab is None:
                tab = _const_table_rows(lib, b, o, name_t, t["args"][2])
            if tab is not None:
                # registration driven by a table: `for (name, f) in [("abs", Box::new(AbsFn::new())), ..] { register_function(name, f) }`
                for nm, tys, why in tab:
                    if why:
                        problems.append(f"bb{blk}: {why}")
                    else:
                        out.append((nm, tys, blk))
                continue
            names = [x[1] for x in name_t if x[0] == "const"]
            if len(names) != 1 or len(name_t) != 1:
                problems.append(f"bb{blk}: registered name is not a single string literal: {fmt_terms(name_t)}")
                continue
            nm = names[0]
            m = re.match(r'^"(.*)"$', nm)
            nm = m.group(1) if m else nm
            f_t = o.of_operand(t["args"][2])
            tys = set()
            for x in f_t:
                # Box::new is transparent: x is the constructor call
                if x[0] == "call" and x[1].endswith("::new"):
                    tys.add(x[1][: -len("::new")])
                elif x[0] == "call" and x[1] == "std::default::Default::default":
                    tys.add("?default")
                else:
                    tys.add("?" + fmt_terms([x]))
            if len(tys) != 1 or next(iter(tys)).startswith("?"):
                problems.append(f"bb{blk}: function value for {nm!r} is not `T::new()`: {fmt_terms(f_t)}")
                continue
            out.append((nm, next(iter(tys)), blk))
        elif c.startswith("functions::") and c.endswith("::new"):
            pass
        elif c == "<indirect>" and _CONST_TABLE_CALLS.get(id(b)) == blk:
            pass    # the constructor taken from the const table (checked with the table)
        elif c.startswith("std::boxed::Box::<T>::new"):
            pass
        elif c in ("std::iter::IntoIterator::into_iter", "std::iter::Iterator::next") or c.startswith("std::boxed::box_assume_init") or \
                re.match(r"^(core|std)::slice::<impl \[T\]>::(iter|into_vec)$", c) or c.endswith("::into_vec") or re.match(r"^std::vec::Vec::<T, A>::(into_iter|iter)$", c):
            pass    # iterating a table of (name, function) rows
        else:
            problems.append(f"bb{blk}: unexpected call {c} in register_builtin_functions")
    return out, problems


_CONST_TABLE_CALLS = {}


def _const_table_rows(lib, b, o, name_terms, fn_operand):
    """Registration driven by a `const TABLE: [(&str, fn() -> Box<dyn Function>); N] = [("abs", boxed::<AbsFn>), ..]`:
    the name is field 0 of an element of the table, the function is the result of calling field 1 of the same element, each
    constructor is a crate-local generic `fn boxed<F>() -> Box<dyn Function> { Box::new(F::default()) }` (or `F::new()`)
    instantiated at the builtin's type, and that type's `Default::default()` is `Self::new()`."""
    def table_of(terms):
        out = set()
        for x in terms:
            if not (x[0] == "field" and x[1][0] == "elem"):
                return None
            y = x[1][1]
            while y[0] == "iter":
                y = y[1]
            out.add((y, x[2]))
        return out
    nt = table_of(name_terms)
    if not nt or len(nt) != 1:
        return None
    base, idx = next(iter(nt))
    if idx != "0" or base[0] not in ("promoted", "const"):
        return None
    # the function value: result of an indirect call whose callee is field 1 of the same element
    ft = o.of_operand(fn_operand)
    calls = [(bb, t) for bb, t in b.calls() if t["callee"] == "<indirect>" and t.get("func")]
    if len(calls) != 1 or not ft or not all(x[0] == "call" and x[1] == "<indirect>" for x in ft):
        return None
    fbb, fcall = calls[0]
    if table_of(o.of_operand(fcall["func"])) != {(base, "1")} or fcall["args"]:
        return None
    # the table itself: (promoted ->) &CONST -> the const's initialiser (-> its own promoted array for a `&[..]` const)
    cdef = None
    if base[0] == "const" and isinstance(base[1], str) and "::" in base[1]:
        cdef = base[1]
    else:
        pb = lib.promoted(b.deff, base[1])
        if pb is not None:
            for _, _, st in pb.stmts(reachable_only=False):
                if st["k"] == "assign":
                    for op in ([st["rv"].get("op")] if st["rv"].get("op") else []) + list(st["rv"].get("ops", [])):
                        if isinstance(op, dict) and op.get("k") == "const" and op.get("uneval"):
                            cdef = op["uneval"]
    cands = [x for x in lib.bodies if x.deff == cdef and x.kind in ("const", "promoted")]
    cb = None
    for x in cands:
        if any(st["k"] == "assign" and st["rv"]["k"] == "agg" and st["rv"].get("ak") == "array" for _, _, st in x.stmts(reachable_only=False)):
            if cb is not None:
                return None
            cb = x
    if cb is None:
        return None
    co = Origins(cb, lib)
    rows = []
    arrs = [st for _, _, st in cb.stmts(reachable_only=False) if st["k"] == "assign" and st["rv"]["k"] == "agg" and st["rv"].get("ak") == "array"]
    if len(arrs) != 1:
        return None
    for op in arrs[0]["rv"]["ops"]:
        for tup in co.of_operand(op):
            if not (tup[0] == "agg" and tup[1] == "tuple" and len(tup[2]) == 2):
                rows.append(("?", "?", f"table row is not a (name, constructor) pair: {fmt_terms([tup])[:60]}"))
                continue
            names = [x[1] for x in tup[2][0] if x[0] == "const"]
            if len(names) != 1 or len(tup[2][0]) != 1:
                rows.append(("?", "?", "table row name is not a single string literal"))
                continue
            m = re.match(r'^"(.*)"$', str(names[0]))
            nm = m.group(1) if m else str(names[0])
            tys = set()
            for x in tup[2][1]:
                x2 = x[1] if x[0] == "cast" else x
                if x2[0] == "closure" and not x2[2]:
                    # `|| Box::new(AbsFn::new())` coerced to a function pointer
                    kb = lib.fn(x2[1])
                    r = Origins(kb, lib).of_local(0) if kb is not None else set()
                    if r and all(y[0] == "call" and y[1].endswith("::new") and y[1].startswith("functions::") for y in r) and len(r) == 1:
                        tys.add(next(iter(r))[1][: -len("::new")])
                    else:
                        tys.add("?closure " + fmt_terms(r)[:40])
                elif x2[0] == "fnitem" and len(x2) > 2 and len(x2[2]) == 1 and _is_boxed_ctor(lib, x2[1]):
                    ty = x2[2][0]
                    if _default_is_new(lib, ty):
                        tys.add(ty)
                    else:
                        tys.add("?default of " + ty)
                else:
                    tys.add("?" + fmt_terms([x])[:50])
            if len(tys) != 1 or next(iter(tys)).startswith("?"):
                rows.append((nm, "?", f"constructor for {nm!r} is not `boxed::<T>` with T::default() = T::new(): {sorted(tys)}"))
            else:
                rows.append((nm, next(iter(tys)), None))
    _CONST_TABLE_CALLS[id(b)] = fbb
    return rows


def _is_boxed_ctor(lib, fn):
    """fn is a crate-local `fn f<F>() -> Box<dyn Function>` whose body is Box::new(F::default()) or Box::new(F::new())."""
    fb = lib.fn(fn)
    if fb is None or fb.arg_count != 0:
        return False
    names = [t["callee"] for _, t in fb.calls()]
    if sorted(names) == ["std::boxed::Box::<T>::new", "std::default::Default::default"]:
        return all(x[0] == "call" and x[1] == "std::default::Default::default" for x in Origins(fb, lib).of_local(0))
    # Box::<F>::default(): std's `impl<T: Default> Default for Box<T>` is Box::new(T::default())
    if names == ["std::default::Default::default"]:
        t = [t for _, t in fb.calls()][0]
        a = (t.get("callee_args") or [""])[0]
        import re as _re
        return bool(_re.fullmatch(r"std::boxed::Box<[A-Za-z_][A-Za-z0-9_]*>", a)) and \
            all(strip_through(x)[0] in ("call", "cast") for x in Origins(fb, lib).of_local(0))
    return False


def _default_is_new(lib, ty):
    db = lib.fn(f"<{ty} as std::default::Default>::default")
    if db is None:
        return False
    r = Origins(db, lib).of_local(0)
    return bool(r) and all(x[0] == "call" and x[1] == f"{ty}::new" for x in r)


def _table_rows(name_terms, fn_terms, body=None, o=None):
    """If the name is field 0 and the function field 1 of an element of one literal array of pairs:
    [(name, impl type, problem-or-None)], else None."""
    def base_of(terms, idx):
        bases = set()
        for x in terms:
            if x[0] == "field" and x[2] == str(idx) and x[1][0] == "elem":
                y = x[1][1]
                while y[0] in ("iter", "call") and y[0] != "agg":
                    if y[0] == "iter":
                        y = y[1]
                    elif y[0] == "call" and (y[1].endswith("box_assume_init_into_vec_unsafe") or y[1].endswith("::into_vec")):
                        break   # the vec![..] value itself
                    elif y[0] == "call" and len(y[2]) >= 1 and len(y[2][0]) == 1:
                        y = next(iter(y[2][0]))
                    else:
                        break
                bases.add(y)
            else:
                return None
        return bases
    nb, fb = base_of(name_terms, 0), base_of(fn_terms, 1)
    if not nb or nb != fb or len(nb) != 1:
        return None
    arr = next(iter(nb))
    if arr[0] == "agg" and arr[1] == "array":
        items = arr[2]
    elif body is not None:
        # a `vec![(..), ..]` table
        try:
            items = _vec_items(body, o, {arr})
        except SigError:
            items = None
        if not items:
            return None
    else:
        return None
    rows = []
    for ops in items:
        for tup in ops:
            if not (tup[0] == "agg" and tup[1] == "tuple" and len(tup[2]) == 2):
                rows.append(("?", "?", f"table row is not a (name, function) pair: {fmt_terms([tup])[:60]}"))
                continue
            names = [x[1] for x in tup[2][0] if x[0] == "const"]
            if len(names) != 1 or len(tup[2][0]) != 1:
                rows.append(("?", "?", f"table row name is not a single string literal: {fmt_terms(tup[2][0])[:60]}"))
                continue
            m = re.match(r'^"(.*)"$', names[0])
            nm = m.group(1) if m else names[0]
            tys = set()
            for x in tup[2][1]:
                if x[0] == "call" and x[1].endswith("::new"):
                    tys.add(x[1][: -len("::new")])
                else:
                    tys.add("?" + fmt_terms([x])[:40])
            if len(tys) != 1 or next(iter(tys)).startswith("?"):
                rows.append((nm, "?", f"function value for {nm!r} is not `T::new()`"))
            else:
                rows.append((nm, next(iter(tys)), None))
    return rows


def _vec_items(body, o, terms):
    """Element operand term-sets of a Vec value built by `vec![..]` / Vec::new()."""
    items = None
    for t in terms:
        if t[0] == "call" and re.match(r"^std::vec::Vec::<T>::new$", t[1]):
            cur = []
        elif t[0] == "call" and t[1] in ("std::boxed::box_assume_init_into_vec_unsafe",
                                           "std::slice::<impl [T]>::into_vec"):
            boxes = set(t[2][0])
            cur = None
            # find the array aggregate written through a pointer derived from that box
            for bb, i, s in body.stmts():
                if s["k"] != "assign" or s["rv"]["k"] != "agg" or s["rv"]["ak"] != "array":
                    continue
                pl = s["place"]
                if pl["p"]:
                    base = o.of_local(pl["l"])
                    ok = any(_derives_from(x, boxes) for x in base)
                    if ok:
                        if cur is not None:
                            raise SigError("two array initialisers for one vec!")
                        cur = [o.of_operand(op) for op in s["rv"]["ops"]]
                else:
                    # direct: Box::new([..]) moved into into_vec
                    if ("agg", "array") == (s["rv"]["k"], s["rv"]["ak"]) and any(
                        y[0] == "agg" and y[1] == "array" for x in boxes for y in [x]):
                        pass
            if cur is None:
                # array aggregate may be the box payload itself
                for x in boxes:
                    if x[0] == "agg" and x[1] == "array":
                        cur = [set(e) for e in x[2]]
            if cur is None:
                raise SigError("cannot find the array backing a vec! value")
        else:
            raise SigError(f"unrecognised Vec constructor: {fmt_terms([t])}")
        if items is not None and items != cur:
            raise SigError("ambiguous Vec value")
        items = cur
    if items is None:
        raise SigError("no Vec value")
    return items


def _derives_from(term, boxes):
    """term is <box>.0.pointer (possibly cast) for some box in boxes."""
    t = term
    while t[0] in ("cast",):
        t = t[1]
    while t[0] == "field":
        t = t[1]
        if t in boxes:
            return True
    if t[0] == "partial":
        return False
    return t in boxes


def _argtype(body, o, terms):
    vals = set()
    for t in terms:
        if t[0] != "agg" or not t[1].startswith(AT + "::"):
            raise SigError(f"not an ArgumentType constructor: {fmt_terms([t])}")
        v = t[1].split("::")[-1]
        if v in SIMPLE:
            vals.add(SIMPLE[v])
        elif v == "TypedArray":
            inner = _argtype(body, o, set(t[2][0]))
            vals.add(("array", inner))
        elif v == "Union":
            items = _vec_items(body, o, set(t[2][0]))
            u = set()
            for it in items:
                x = _argtype(body, o, it)
                if isinstance(x, frozenset):
                    u |= x
                else:
                    u.add(x)
            vals.add(frozenset(u))
        else:
            raise SigError(f"unknown ArgumentType variant {v}")
    if len(vals) != 1:
        raise SigError(f"ambiguous ArgumentType: {vals}")
    return next(iter(vals))


def norm(t):
    """Normal form: 'any' or a frozenset of atoms (strings / ('array', normal-form))."""
    if t == "any":
        return "any"
    if isinstance(t, frozenset):
        out = set()
        for x in t:
            n = norm(x)
            if n == "any":
                return "any"
            out |= n
        return frozenset(out)
    if isinstance(t, tuple) and t[0] == "array":
        return frozenset({("array", norm(t[1]))})
    return frozenset({t})


def show(t):
    if isinstance(t, str):
        return t
    parts = []
    for x in sorted(t, key=str):
        if isinstance(x, tuple):
            parts.append(f"array[{show(x[1])}]")
        else:
            parts.append(x)
    return "|".join(parts)


def signature_of(lib, ty):
    """(inputs [normal forms], variadic normal form | None) for builtin struct `ty`."""
    b = lib.fn(ty + "::new")
    if b is None:
        raise SigError(f"{ty}::new not found")
    o = Origins(b, lib)
    sn = [(blk, t) for blk, t in b.calls() if t["callee"] == "functions::Signature::new"]
    if len(sn) != 1:
        raise SigError(f"{ty}::new builds {len(sn)} signatures")
    t = sn[0][1]
    inputs = [norm(_argtype(b, o, it)) for it in _vec_items(b, o, o.of_operand(t["args"][0]))]
    vt = o.of_operand(t["args"][1])
    variadic = "?"
    for x in vt:
        if x[0] == "agg" and x[1] == "std::option::Option::None":
            v = None
        elif x[0] == "agg" and x[1] == "std::option::Option::Some":
            v = norm(_argtype(b, o, set(x[2][0])))
        else:
            raise SigError(f"variadic is not Some/None: {fmt_terms([x])}")
        if variadic != "?" and variadic != v:
            raise SigError("ambiguous variadic")
        variadic = v
    if variadic == "?":
        raise SigError("no variadic value")
    # the struct stores it in `signature`
    ok = False
    for bb, i, s in b.stmts():
        if s["k"] == "assign" and s["rv"]["k"] == "agg" and s["rv"].get("adt") == ty:
            fn = s["rv"].get("fnames", [])
            if "signature" in fn:
                st = o.of_operand(s["rv"]["ops"][fn.index("signature")])
                ok = all(x[0] == "call" and x[1] == "functions::Signature::new" for x in st)
    if not ok:
        raise SigError(f"{ty}::new does not store the signature in `signature`")
    return inputs, variadic


def evaluate_body(lib, ty):
    return lib.fn(f"<{ty} as functions::Function>::evaluate")
