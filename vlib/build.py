"""Shadow workspace + mirfacts driver invocation.

Facts are always extracted from /repo's *current* working tree: the cache key
is a hash over every source file and manifest that the build reads, the
feature set and the driver binary.  Nothing is ever written into /repo.
"""
import fcntl
import hashlib
import json
import os
import shutil
import subprocess
import sys
import time
import tomllib

VERIF = os.path.dirname(os.path.dirname(os.path.abspath(__file__)))
REPO = os.environ.get("VERIF_REPO", "/repo")
# VERIF_WORK: a private scratch directory (shadow workspace, target dir, fact cache, lock) for a regression stream that
# runs beside others; the registered commands use the default
WORK = os.environ.get("VERIF_WORK") or os.path.join(VERIF, ".work")
DRIVER_DIR = os.path.join(VERIF, "mirfacts")
DRIVER = os.path.join(DRIVER_DIR, "target", "release", "mirfacts")

CONFIGS = {
    "default": [],
    "sync": ["sync"],
    "specialized": ["specialized"],
    "sync+specialized": ["sync", "specialized"],
}

RUSTFLAGS = "-Zmir-opt-level=0 -Cdebug-assertions=off -Coverflow-checks=on -Awarnings"


class BuildError(Exception):
    pass


def _env():
    e = dict(os.environ)
    e["CARGO_NET_OFFLINE"] = "true"
    e.pop("RUSTC_WRAPPER", None)
    return e


def sysroot():
    return subprocess.check_output(
        ["rustc", "+nightly", "--print", "sysroot"], text=True, env=_env()
    ).strip()


def ensure_driver(verbose=False):
    """Build the driver if its binary is missing or older than its sources."""
    srcs = [
        os.path.join(DRIVER_DIR, "src", f)
        for f in os.listdir(os.path.join(DRIVER_DIR, "src"))
    ] + [os.path.join(DRIVER_DIR, "Cargo.toml")]
    newest = max(os.path.getmtime(p) for p in srcs)
    if os.path.exists(DRIVER) and os.path.getmtime(DRIVER) >= newest:
        return
    r = subprocess.run(
        ["cargo", "build", "--release", "--offline"],
        cwd=DRIVER_DIR,
        env=_env(),
        capture_output=True,
        text=True,
    )
    if r.returncode != 0 or not os.path.exists(DRIVER):
        raise BuildError("mirfacts driver failed to build:\n" + r.stderr[-4000:])


def source_files():
    out = []
    for sub in ("jmespath", "jmespath-cli"):
        base = os.path.join(REPO, sub)
        for root, dirs, files in os.walk(base):
            dirs[:] = [d for d in dirs if d not in ("target", ".git", "tests", "benches")]
            for f in files:
                if f.endswith(".rs") or f == "Cargo.toml":
                    out.append(os.path.join(root, f))
    return sorted(out)


def tree_hash():
    h = hashlib.sha256()
    for p in source_files():
        h.update(p.encode())
        h.update(b"\0")
        with open(p, "rb") as fh:
            h.update(fh.read())
        h.update(b"\0")
    with open(DRIVER, "rb") as fh:
        h.update(hashlib.sha256(fh.read()).digest())
    h.update(RUSTFLAGS.encode())
    return h.hexdigest()[:20]


def _toml_value(v):
    if isinstance(v, str):
        return json.dumps(v)
    if isinstance(v, bool):
        return "true" if v else "false"
    if isinstance(v, (int, float)):
        return str(v)
    if isinstance(v, list):
        return "[" + ", ".join(_toml_value(x) for x in v) + "]"
    if isinstance(v, dict):
        return "{ " + ", ".join(f"{k} = {_toml_value(x)}" for k, x in v.items()) + " }"
    raise BuildError(f"cannot render toml value {v!r}")


def read_manifests():
    with open(os.path.join(REPO, "jmespath", "Cargo.toml"), "rb") as fh:
        lib = tomllib.load(fh)
    with open(os.path.join(REPO, "jmespath-cli", "Cargo.toml"), "rb") as fh:
        cli = tomllib.load(fh)
    return lib, cli


def gen_shadow():
    """Generate the shadow workspace from /repo's current manifests."""
    lib, cli = read_manifests()
    sh = os.path.join(WORK, "shadow")
    os.makedirs(os.path.join(sh, "jmespath"), exist_ok=True)
    os.makedirs(os.path.join(sh, "jp"), exist_ok=True)
    with open(os.path.join(sh, "Cargo.toml"), "w") as fh:
        fh.write('[workspace]\nmembers = ["jmespath", "jp"]\nresolver = "2"\n')

    def lib_path(m, default):
        p = m.get("lib", {}).get("path", default)
        return p

    # library
    libsrc = os.path.join(REPO, "jmespath", lib_path(lib, "src/lib.rs"))
    lines = [
        "[package]",
        f'name = {_toml_value(lib["package"]["name"])}',
        f'version = {_toml_value(lib["package"]["version"])}',
        f'edition = {_toml_value(lib["package"].get("edition", "2015"))}',
        "[lib]",
        f"path = {_toml_value(libsrc)}",
        "[dependencies]",
    ]
    for k, v in lib.get("dependencies", {}).items():
        lines.append(f"{k} = {_toml_value(v)}")
    lines.append("[features]")
    for k, v in lib.get("features", {}).items():
        lines.append(f"{k} = {_toml_value(v)}")
    with open(os.path.join(sh, "jmespath", "Cargo.toml"), "w") as fh:
        fh.write("\n".join(lines) + "\n")

    # cli
    bins = cli.get("bin", [{"name": "jp", "path": "src/main.rs"}])
    lines = [
        "[package]",
        f'name = {_toml_value(cli["package"]["name"])}',
        f'version = {_toml_value(cli["package"]["version"])}',
        f'edition = {_toml_value(cli["package"].get("edition", "2015"))}',
    ]
    for b in bins:
        lines += [
            "[[bin]]",
            f'name = {_toml_value(b.get("name", "jp"))}',
            f'path = {_toml_value(os.path.join(REPO, "jmespath-cli", b.get("path", "src/main.rs")))}',
        ]
    lines.append("[dependencies]")
    for k, v in cli.get("dependencies", {}).items():
        if isinstance(v, dict) and "path" in v:
            v = dict(v)
            v["path"] = "../jmespath"
            v.pop("version", None)
        lines.append(f"{k} = {_toml_value(v)}")
    if cli.get("features"):
        lines.append("[features]")
        for k, v in cli["features"].items():
            lines.append(f"{k} = {_toml_value(v)}")
    with open(os.path.join(sh, "jp", "Cargo.toml"), "w") as fh:
        fh.write("\n".join(lines) + "\n")
    shutil.copy(os.path.join(VERIF, "shadow.lock"), os.path.join(sh, "Cargo.lock"))
    return sh, lib["package"]["name"], cli["package"]["name"]


def _rm_fingerprints(target, names):
    fp = os.path.join(target, "debug", ".fingerprint")
    if os.path.isdir(fp):
        for d in os.listdir(fp):
            for n in names:
                if d.startswith(n + "-"):
                    shutil.rmtree(os.path.join(fp, d), ignore_errors=True)


def facts_dir(thash):
    return os.path.join(WORK, "facts", thash)


def extract(configs, with_cli=True, verbose=False):
    """Return {config: {"jmespath": path, "jp": path?}} for the current tree."""
    os.makedirs(WORK, exist_ok=True)
    lockf = open(os.path.join(WORK, "build.lock"), "w")
    fcntl.flock(lockf, fcntl.LOCK_EX)
    try:
        ensure_driver(verbose)
        thash = tree_hash()
        fdir = facts_dir(thash)
        os.makedirs(fdir, exist_ok=True)
        out = {}
        sh = None
        target = os.path.join(WORK, "target")
        for cfg in configs:
            feats = CONFIGS[cfg]
            libp = os.path.join(fdir, f"jmespath.{cfg}.json")
            clip = os.path.join(fdir, f"jp.{cfg}.json")
            need_cli = with_cli and cfg == "default"
            if os.path.exists(libp) and (not need_cli or os.path.exists(clip)):
                out[cfg] = {"jmespath": libp}
                if need_cli:
                    out[cfg]["jp"] = clip
                continue
            if sh is None:
                sh, libname, cliname = gen_shadow()
            _rm_fingerprints(target, [libname, cliname, "jp"])
            nonce = f"{thash}-{cfg}-{time.time_ns()}"
            env = _env()
            env.update(
                {
                    "LD_LIBRARY_PATH": sysroot() + "/lib",
                    "RUSTFLAGS": RUSTFLAGS,
                    "RUSTC_WORKSPACE_WRAPPER": DRIVER,
                    "MIRFACTS_OUT": fdir,
                    "MIRFACTS_TAG": cfg,
                    "MIRFACTS_NONCE": nonce,
                    "CARGO_TARGET_DIR": target,
                }
            )
            cmd = ["cargo", "+nightly", "check", "--offline"]
            if need_cli:
                cmd += ["--workspace"]
            else:
                cmd += ["-p", libname]
            if feats:
                cmd += ["--features", ",".join(f"{libname}/{f}" for f in feats)]
            t0 = time.time()
            r = subprocess.run(cmd, cwd=sh, env=env, capture_output=True, text=True)
            if r.returncode != 0:
                raise BuildError(
                    f"cargo check failed for config {cfg}:\n{r.stderr[-6000:]}"
                )
            if not os.path.exists(libp):
                raise BuildError(f"driver produced no fact file for config {cfg}")
            with open(libp) as fh:
                head = fh.read(4096)
            if nonce not in head:
                # nonce is near the top of the file
                with open(libp) as fh:
                    if json.load(fh).get("nonce") != nonce:
                        raise BuildError(f"stale fact file for config {cfg}")
            if verbose:
                print(f"[build] facts {cfg} in {time.time()-t0:.1f}s", file=sys.stderr)
            out[cfg] = {"jmespath": libp}
            if need_cli:
                if not os.path.exists(clip):
                    raise BuildError("driver produced no fact file for the CLI")
                out[cfg]["jp"] = clip
        # prune old fact dirs (keep 3 newest)
        base = os.path.join(WORK, "facts")
        ds = sorted(
            (os.path.join(base, d) for d in os.listdir(base)),
            key=os.path.getmtime,
            reverse=True,
        )
        for d in ds[3:]:
            if d != fdir:
                shutil.rmtree(d, ignore_errors=True)
        return thash, out
    finally:
        fcntl.flock(lockf, fcntl.LOCK_UN)
        lockf.close()
