"""Decision-tree extraction: walk a loop-free CFG region under an abstract
assignment of the atoms its branch conditions compare, and report which leaf
(result construct) each assignment reaches.  The atoms are only ever compared,
so a finite set of orderings covers all inputs (DESIGN §3/C06, C07)."""
from .analysis import Origins, Branches


class Undecided(Exception):
    pass


class Walker:
    def __init__(self, body, origins=None, atom=None, call=None, max_steps=400, cut_loops=False):
        """atom(term) -> value | None for leaves of condition terms;
        call(term, argvals) -> value | None for opaque calls."""
        self.b = body
        self.o = origins or Origins(body)
        self.br = Branches(body, self.o)
        self.atom = atom or (lambda t: None)
        self.call = call or (lambda t, a: None)
        self.max_steps = max_steps
        self.cut_loops = cut_loops      # a path ends where it would enter a block for the second time (one iteration of each loop)

    # ---- term evaluation ---------------------------------------------------------
    def eval_terms(self, terms):
        vals = set()
        for t in terms:
            vals.add(self.eval(t))
        if len(vals) == 1:
            return next(iter(vals))
        if None in vals:
            return None
        raise Undecided(f"ambiguous value {vals}")

    def eval(self, t):
        v = self.atom(t)
        if v is not None:
            return v
        h = t[0]
        if h == "const":
            return t[1] if isinstance(t[1], int) else None
        if h == "discr" and len(t) == 2 and isinstance(t[1], tuple) and t[1] and t[1][0] == "agg" and "::" in t[1][1]:
            # the discriminant of a value built as a known variant (a private enum computed by one match and taken apart by
            # the next)
            return t[1][1].rsplit("::", 1)[-1]
        if h == "bin":
            a, b = self.eval(t[2]), self.eval(t[3])
            if a is None or b is None:
                return None
            op = t[1]
            if op == "Lt":
                return int(a < b)
            if op == "Le":
                return int(a <= b)
            if op == "Gt":
                return int(a > b)
            if op == "Ge":
                return int(a >= b)
            if op == "Eq":
                return int(a == b)
            if op == "Ne":
                return int(a != b)
            if op in ("Add", "AddWithOverflow", "AddUnchecked"):
                return a + b
            if op in ("Sub", "SubWithOverflow", "SubUnchecked"):
                return a - b
            if op in ("BitAnd",):
                return a & b
            if op in ("BitOr",):
                return a | b
            return None
        if h == "un":
            a = self.eval(t[2])
            if a is None:
                return None
            if t[1] == "Not":
                return int(not a)
            if t[1] == "Neg":
                return -a
            return None
        if h == "field" and t[2] == "0" and t[1][0] == "bin" and "WithOverflow" in t[1][1]:
            return self.eval(("bin", t[1][1].replace("WithOverflow", ""), t[1][2], t[1][3]))
        if h == "call":
            argvals = []
            for a in t[2]:
                try:
                    argvals.append(self.eval_terms(a))
                except Undecided:
                    argvals.append(None)
            return self.call(t, argvals)
        return None

    # ---- walking --------------------------------------------------------------------
    def walk(self, start=0):
        """Returns list of (path_blocks, leaf_block) for every path the abstract
        assignment allows (forking where a condition is not evaluable)."""
        out = []
        stack = [(start, [start])]
        steps = 0
        while stack:
            blk, path = stack.pop()
            steps += 1
            if steps > self.max_steps:
                raise Undecided("too many steps (loop?)")
            t = self.b.blocks[blk]["term"]
            k = t["k"]
            if k == "return":
                out.append((path, blk))
                continue
            if k == "switch":
                nxt = self._switch(blk, t, path)
            else:
                nxt = self.b.normal_succs(blk)
            for n in nxt:
                if self.cut_loops and n in path:
                    out.append((path, blk))
                    continue
                if path.count(n) > 1:
                    raise Undecided("loop on decision path")
                stack.append((n, path + [n]))
        return out

    def _switch(self, blk, t, path=None):
        ve = self.br.variant_edges(blk)
        if ve is not None:
            try:
                v = self.eval_terms({("discr", s) for s in ve["scrutinee"]})
            except Undecided:
                v = None
            if not isinstance(v, str) and path is not None:
                # the scrutinee as it was assigned along this path
                po = Origins(self.b, self.o.facts, only_blocks=set(path))
                ve2 = Branches(self.b, po).variant_edges(blk)
                if ve2 is not None and ve2["scrutinee"]:
                    saved, self.o = self.o, po
                    try:
                        v = self.eval_terms({("discr", s) for s in ve2["scrutinee"]})
                    except Undecided:
                        v = None
                    finally:
                        self.o = saved
            if isinstance(v, str):
                return [ve["edges"].get(v, ve["otherwise"])]
            return self.b.normal_succs(blk)
        try:
            v = self.eval_terms(self.br.cond(blk))
        except Undecided:
            v = None
        if v is None and path is not None:
            # a flag set differently on different paths (`let is_eq = matches!(..)`): its value along *this* path
            po = Origins(self.b, self.o.facts, only_blocks=set(path))
            saved, self.o = self.o, po
            try:
                v = self.eval_terms(Branches(self.b, po).cond(blk))
            except Undecided:
                v = None
            finally:
                self.o = saved
        if v is None:
            return self.b.normal_succs(blk)
        for val, tgt in t["targets"]:
            if val == v:
                return [tgt]
        return [t["otherwise"]]

    def result_on_path(self, path):
        """Origin terms of the last write to _0 along the path, with provenance taken along that path only
        (a local assigned differently on different paths contributes only the assignment on this one)."""
        po = Origins(self.b, self.o.facts, only_blocks=set(path))
        saved, self.o = self.o, po
        try:
            return self._result_on_path(path)
        finally:
            self.o = saved

    def _result_on_path(self, path):
        for blk in reversed(path):
            bl = self.b.blocks[blk]
            t = bl["term"]
            if t["k"] == "call" and t["dest"]["l"] == 0 and not t["dest"]["p"] and blk != path[-1]:
                return self.o._call(t, blk, 0)
            for s in reversed(bl["stmts"]):
                if s["k"] == "assign" and s["place"]["l"] == 0 and not s["place"]["p"]:
                    return self.o._rv(s["rv"], blk, 0)
        return set()
