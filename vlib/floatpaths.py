"""Path enumeration of a small loop-free numeric predicate (the number-equality helper) into
(path conditions, result expression) pairs over symbolic float expressions, with constant folding
of literal tolerances. Nothing is executed: expressions stay symbolic in the two parameters."""
from .analysis import cfg_cycles

COMMUTATIVE = {"Add", "Mul", "Eq", "Ne", "BitAnd", "BitOr", "max", "min"}
F64_UNARY = {
    "core::f64::<impl f64>::abs": "abs",
    "std::f64::<impl f64>::abs": "abs",
    "core::f64::<impl f64>::is_normal": "is_normal",
    "core::f64::<impl f64>::is_finite": "is_finite",
    "core::f64::<impl f64>::is_nan": "is_nan",
}
F64_BINARY = {
    "core::f64::<impl f64>::max": "max",
    "core::f64::<impl f64>::min": "min",
    "std::f64::<impl f64>::max": "max",
    "std::f64::<impl f64>::min": "min",
}


class Undecided(Exception):
    pass


def _fold(op, a, b):
    if a[0] == "const" and b[0] == "const" and isinstance(a[1], float) and isinstance(b[1], float):
        try:
            if op == "Mul":
                return ("const", a[1] * b[1])
            if op == "Add":
                return ("const", a[1] + b[1])
            if op == "Sub":
                return ("const", a[1] - b[1])
            if op == "Div" and b[1] != 0.0:
                return ("const", a[1] / b[1])
        except OverflowError:
            pass
    return None


def canon(e):
    """Canonical form: commutative operands sorted, |x - y| as an unordered distance."""
    if not isinstance(e, tuple):
        return e
    h = e[0]
    if h == "bin":
        a, b = canon(e[2]), canon(e[3])
        f = _fold(e[1], a, b)
        if f is not None:
            return f
        if e[1] in COMMUTATIVE:
            a, b = sorted((a, b), key=repr)
        return ("bin", e[1], a, b)
    if h == "abs":
        x = canon(e[1])
        if x[0] == "bin" and x[1] == "Sub":
            a, b = sorted((x[2], x[3]), key=repr)
            return ("dist", a, b)
        if x[0] in ("abs", "dist"):
            return x
        return ("abs", x)
    if h in ("max", "min", "dist"):
        a, b = sorted((canon(e[1]), canon(e[2])), key=repr)
        return (h, a, b)
    if h in ("is_normal", "is_finite", "is_nan", "not"):
        return (h, canon(e[1]))
    if h == "call":
        return ("call", e[1], tuple(canon(x) for x in e[2]))
    return e


def swap(e):
    """The same expression with the two parameters exchanged."""
    if not isinstance(e, tuple):
        return e
    if e[0] == "param":
        return ("param", {1: 2, 2: 1}.get(e[1], e[1]))
    return tuple(swap(x) if isinstance(x, tuple) else x for x in e)


def enumerate_paths(body, limit=256):
    """[(frozenset((cond expr, bool)), result expr)] for every entry-to-return path."""
    if cfg_cycles(body):
        raise Undecided("the helper contains a loop")
    blocks = body.blocks
    out = []

    def operand(env, op):
        if op.get("k") == "const":
            if "float" in op:
                return ("const", float(op["float"]))
            if "int" in op:
                return ("const", int(op["int"]))
            return ("const", op.get("val"))
        if op.get("p"):
            raise Undecided("projection in a numeric helper")
        l = op["l"]
        if l in env:
            return env[l]
        if 1 <= l <= body.arg_count:
            return ("param", l)
        raise Undecided(f"use of an unassigned local _{l}")

    def rvalue(env, rv):
        k = rv["k"]
        if k == "use":
            return operand(env, rv["op"])
        if k == "binop":
            return ("bin", rv["op"], operand(env, rv["a"]), operand(env, rv["b"]))
        if k == "unop":
            o = operand(env, rv["a"])
            return ("not", o) if rv["op"] == "Not" else ("un", rv["op"], o)
        raise Undecided(f"rvalue kind {k} in a numeric helper")

    def walk(bb, env, conds, depth):
        if len(out) > limit or depth > 200:
            raise Undecided("too many paths")
        env = dict(env)
        blk = blocks[bb]
        for s in blk["stmts"]:
            if s["k"] != "assign":
                continue
            if s["place"]["p"]:
                raise Undecided("partial assignment in a numeric helper")
            env[s["place"]["l"]] = rvalue(env, s["rv"])
        t = blk["term"]
        k = t["k"]
        if k == "return":
            if 0 not in env:
                raise Undecided("return without a result")
            out.append((frozenset((canon(c), v) for c, v in conds), canon(env[0])))
        elif k == "goto":
            walk(t["t"], env, conds, depth + 1)
        elif k == "switch":
            d = operand(env, t["discr"])
            if d[0] == "const":
                v = int(bool(d[1]))
                tgt = dict((a, b) for a, b in t["targets"]).get(v, t["otherwise"])
                walk(tgt, env, conds, depth + 1)
                return
            tg = dict((a, b) for a, b in t["targets"])
            if set(tg) - {0, 1}:
                raise Undecided("non-boolean switch in a numeric helper")
            if 0 in tg:
                walk(tg[0], env, conds + [(d, False)], depth + 1)
                walk(tg.get(1, t["otherwise"]), env, conds + [(d, True)], depth + 1)
            else:
                walk(tg[1], env, conds + [(d, True)], depth + 1)
                walk(t["otherwise"], env, conds + [(d, False)], depth + 1)
        elif k == "call":
            c = t.get("resolved") or t["callee"]
            args = [operand(env, a) for a in t["args"]]
            if c in F64_UNARY and len(args) == 1:
                v = (F64_UNARY[c], args[0])
            elif c in F64_BINARY and len(args) == 2:
                v = (F64_BINARY[c], args[0], args[1])
            else:
                v = ("call", c, tuple(args))
            if t["dest"]["p"]:
                raise Undecided("call result stored through a projection")
            env[t["dest"]["l"]] = v
            if t.get("t") is None:
                raise Undecided("diverging call in a numeric helper")
            walk(t["t"], env, conds, depth + 1)
        elif k == "assert":
            walk(t["t"], env, conds, depth + 1)
        else:
            raise Undecided(f"terminator {k} in a numeric helper")

    walk(0, {}, [], 0)
    return out


def fmt(e):
    if not isinstance(e, tuple):
        return str(e)
    h = e[0]
    if h == "param":
        return "ab"[e[1] - 1] if e[1] in (1, 2) else f"p{e[1]}"
    if h == "const":
        return repr(e[1])
    if h == "bin":
        sym = {"Add": "+", "Sub": "-", "Mul": "*", "Div": "/", "Lt": "<", "Le": "<=", "Gt": ">", "Ge": ">=", "Eq": "==", "Ne": "!="}.get(e[1], e[1])
        return f"({fmt(e[2])} {sym} {fmt(e[3])})"
    if h == "dist":
        return f"|{fmt(e[1])} - {fmt(e[2])}|"
    if h == "abs":
        return f"|{fmt(e[1])}|"
    if h in ("max", "min"):
        return f"{h}({fmt(e[1])}, {fmt(e[2])})"
    if h in ("is_normal", "is_finite", "is_nan", "not"):
        return f"{h}({fmt(e[1])})"
    if h == "call":
        return f"{e[1].split('::')[-1]}({', '.join(fmt(x) for x in e[2])})"
    return str(e)
