"""Option / Result combinators as explicit control flow.

`opt.map_or(d, f)`, `opt.map_or_else(g, f)`, `opt.map(f)`, `opt.and_then(f)`, `opt.unwrap_or_else(g)`,
`res.map(f)`, `res.and_then(f)`, `res.unwrap_or_else(g)` are, by their documented definition, a two-way case analysis
on the receiver.  Each such call whose function argument is a closure created in the same body (or a path to a
function / constructor) is replaced by that case analysis: a discriminant switch, the payload projection, the closure
body spliced in (its environment bound to the closure value), the result stored in the call's destination.  A `match`
written by hand and the combinator spelling then reach the rules as the same control-flow shape.

`map_err` is left as a call in the library (the provenance analysis treats it as transparent); in the command line tool
it and `unwrap`/`expect` are normalised too, because its error handling is written as `.map_err(|e| die!(..)).unwrap()`.

This is a rewriting of the program's own MIR by the combinators' definitions; nothing is executed."""
import copy
import re

from .inline import splice

OPTION = "std::option::Option"
RESULT = "std::result::Result"
VARIANTS = {OPTION: [[0, "None"], [1, "Some"]], RESULT: [[0, "Ok"], [1, "Err"]]}

# callee -> (adt of receiver, shape)
COMBINATORS = {
    "std::option::Option::<T>::map": (OPTION, "map"),
    "std::option::Option::<T>::map_or": (OPTION, "map_or"),
    "std::option::Option::<T>::map_or_else": (OPTION, "map_or_else"),
    "std::option::Option::<T>::and_then": (OPTION, "and_then"),
    "std::option::Option::<T>::unwrap_or_else": (OPTION, "unwrap_or_else"),
    "std::option::Option::<T>::ok_or_else": (OPTION, "ok_or_else"),
    "std::option::Option::<T>::is_some_and": (OPTION, "is_some_and"),
    "std::option::Option::<T>::is_none_or": (OPTION, "is_none_or"),
    "std::option::Option::<T>::zip": (OPTION, "zip"),
    "std::option::Option::<T>::filter": (OPTION, "filter"),
    "std::result::Result::<T, E>::map": (RESULT, "map"),
    "std::result::Result::<T, E>::and_then": (RESULT, "and_then"),
    "std::result::Result::<T, E>::unwrap_or_else": (RESULT, "unwrap_or_else"),
}


# additionally, for the command line tool only (its error handling is written as `.map_err(|e| die!(..)).unwrap()` chains)
CLI_COMBINATORS = {
    "std::result::Result::<T, E>::map_err": (RESULT, "map_err"),
    "std::result::Result::<T, E>::unwrap": (RESULT, "unwrap"),
    "std::result::Result::<T, E>::expect": (RESULT, "unwrap"),
    "std::option::Option::<T>::unwrap": (OPTION, "unwrap"),
    "std::option::Option::<T>::expect": (OPTION, "unwrap"),
}


def _closure_def_of(body, op):
    """If `op` is a plain local whose only definition is a closure aggregate: (closure def, that local)."""
    if op.get("k") not in ("copy", "move") or op.get("p"):
        return None
    l = op["l"]
    found = None
    n = 0
    for bl in body["blocks"]:
        for s in bl["stmts"]:
            if s["k"] == "assign" and s["place"]["l"] == l:
                n += 1
                if not s["place"]["p"] and s["rv"]["k"] == "agg" and s["rv"].get("ak") == "closure":
                    found = s["rv"]["def"]
        t = bl["term"]
        if t["k"] == "call" and t["dest"]["l"] == l:
            n += 1
    return (found, l) if found is not None and n == 1 else None


class _Builder:
    def __init__(self, body, span):
        self.b = body
        self.span = span

    def local(self, ty):
        self.b["locals"].append({"ty": ty, "synthetic": True})
        return len(self.b["locals"]) - 1

    def block(self, stmts, term):
        self.b["blocks"].append({"stmts": stmts, "term": term, "cleanup": False, "synthetic": True})
        return len(self.b["blocks"]) - 1

    def goto(self, t):
        return {"k": "goto", "t": t, "span": self.span}

    def assign(self, place, rv):
        return {"k": "assign", "place": place, "rv": rv, "span": self.span}

    def plain(self, l, ty=""):
        return {"l": l, "p": [], "ty": ty}

    def payload(self, recv_local, variant, vidx, ty=""):
        return {"l": recv_local, "p": [{"dc": vidx, "name": variant}, {"f": 0, "name": "0", "ty": ty}], "ty": ty, "k": "move"}

    def agg(self, adt, variant, vidx, ops):
        return {"k": "agg", "ak": "adt", "adt": adt, "variant": variant, "vidx": vidx, "fnames": ["0"] if ops else [], "ops": ops}


_ADTS = {}


def _ctor_of(path):
    """(adt, variant, index) if `path` names a tuple variant of a crate-local enum."""
    if "::" not in path:
        return None
    adt, variant = path.rsplit("::", 1)
    a = _ADTS.get(adt)
    if a is None or a.get("kind") != "enum":
        return None
    for i, v in enumerate(a["variants"]):
        if v["name"] == variant and len(v["fields"]) == 1:
            return adt, variant, i
    return None


def _apply_fn(bld, body, closures, fop, args, dest, cont):
    """Blocks computing dest = f(args...) then goto cont; returns entry block.  f is a closure created in this body
    (spliced in) or a function path (an ordinary call)."""
    cd = _closure_def_of(body, fop)
    if cd is not None and cd[0] in closures:
        cdef, cl = cd
        callee = closures[cdef]
        env_ty = callee["locals"][1]["ty"] if len(callee["locals"]) > 1 else ""
        if env_ty.startswith("&"):
            env_rv = {"k": "ref", "mut": env_ty.startswith("&mut"), "place": {"l": cl, "p": [], "ty": ""}}
        else:
            env_rv = {"k": "use", "op": {"l": cl, "p": [], "ty": env_ty, "k": "move"}}
        entry, binds = splice(body, callee, [env_rv] + [{"k": "use", "op": a} for a in args], dest, cont, bld.span)
        pre = bld.block(binds, bld.goto(entry))
        body.setdefault("inlined_closures", []).append(cdef)
        return pre
    if fop.get("k") == "const" and "fn" in fop:
        ctor = _ctor_of(fop["fn"])
        if ctor is not None and len(args) == 1:
            # `Variable::Number` used as a function is that variant's constructor: an aggregate, as in a hand-written match
            adt, variant, vidx = ctor
            return bld.block([bld.assign(copy.deepcopy(dest), {"k": "agg", "ak": "adt", "adt": adt, "variant": variant, "vidx": vidx,
                                                                "fnames": ["0"], "ops": args})], bld.goto(cont))
        term = {"k": "call", "callee": fop["fn"], "callee_args": fop.get("fn_args", []), "callee_local": None,
                "resolved": None, "obligations": [], "args": args, "dest": copy.deepcopy(dest), "t": cont, "unwind": None,
                "span": bld.span, "fn_span": bld.span, "synthetic_call": True}
        return bld.block([], term)
    return None


def _normalise_call(body, bi, closures):
    t = body["blocks"][bi]["term"]
    adt, shape = _ACTIVE[t["callee"]]
    args = t["args"]
    recv = args[0]
    if recv.get("k") not in ("copy", "move") or recv.get("p"):
        return False
    # the function argument must be a closure built here or a function path; otherwise leave the call alone
    fpos = {"map": [1], "map_or": [2], "map_or_else": [1, 2], "and_then": [1], "unwrap_or_else": [1], "map_err": [1], "unwrap": [], "ok_or_else": [1],
            "is_some_and": [1], "is_none_or": [1], "zip": [], "filter": [1]}[shape]
    for p in fpos:
        if p >= len(args):
            return False
        f = args[p]
        ok = (f.get("k") == "const" and "fn" in f) or (_closure_def_of(body, f) is not None and _closure_def_of(body, f)[0] in closures)
        if not ok:
            return False
    span = t.get("span", {"s": "", "x": False})
    bld = _Builder(body, span)
    dest = t["dest"]
    cont = t["t"]
    if cont is None:
        return False
    rl = recv["l"]
    first, second = VARIANTS[adt][0][1], VARIANTS[adt][1][1]   # None/Some or Ok/Err
    full = first == "None"
    dty = dest.get("ty", "")

    def through(variant, vidx):
        """The arm a combinator passes through unchanged: None stays None, Err(e) stays Err(e).  Emitted as a `through`
        rvalue so that the provenance analysis knows both what the value is (the receiver) and which variant it has here."""
        return bld.block([bld.assign(copy.deepcopy(dest), {"k": "through", "adt": adt, "variant": variant,
                                                           "op": {"l": rl, "p": [], "ty": "", "k": "move"}})], bld.goto(cont))

    # arms: `hit` = Some / Ok (payload handed to f), `miss` = None / Err
    hit_name, hit_idx = ("Some", 1) if adt == OPTION else ("Ok", 0)
    miss_name, miss_idx = ("None", 0) if adt == OPTION else ("Err", 1)
    pay = bld.payload(rl, hit_name, hit_idx)
    if shape == "map":
        tmp = bld.local("")
        wrap = bld.block([bld.assign(copy.deepcopy(dest), bld.agg(adt, hit_name, hit_idx, [{"l": tmp, "p": [], "ty": "", "k": "move"}]))], bld.goto(cont))
        hit = _apply_fn(bld, body, closures, args[1], [pay], bld.plain(tmp), wrap)
        miss = through(miss_name, miss_idx)
    elif shape == "and_then":
        hit = _apply_fn(bld, body, closures, args[1], [pay], dest, cont)
        miss = through(miss_name, miss_idx)
    elif shape == "map_or":
        hit = _apply_fn(bld, body, closures, args[2], [pay], dest, cont)
        miss = bld.block([bld.assign(copy.deepcopy(dest), {"k": "use", "op": copy.deepcopy(args[1])})], bld.goto(cont))
    elif shape == "map_or_else":
        hit = _apply_fn(bld, body, closures, args[2], [pay], dest, cont)
        miss = _apply_fn(bld, body, closures, args[1], [], dest, cont)
    elif shape in ("is_some_and", "is_none_or"):
        hit = _apply_fn(bld, body, closures, args[1], [pay], dest, cont)
        miss = bld.block([bld.assign(copy.deepcopy(dest), {"k": "use", "op": {"k": "const", "ty": "bool", "val": "false" if shape == "is_some_and" else "true",
                                                                                "int": 0 if shape == "is_some_and" else 1}})], bld.goto(cont))
    elif shape == "filter":
        # opt.filter(p) = match opt { Some(x) if p(&x) => Some(x), _ => None }
        keep = bld.local("bool")
        none_blk = bld.block([bld.assign(copy.deepcopy(dest), bld.agg(OPTION, "None", 0, []))], bld.goto(cont))
        some_blk = bld.block([bld.assign(copy.deepcopy(dest), {"k": "through", "adt": OPTION, "variant": "Some", "op": {"l": rl, "p": [], "ty": "", "k": "move"}})], bld.goto(cont))
        test = bld.block([], {"k": "switch", "discr": {"l": keep, "p": [], "ty": "bool", "k": "move"}, "targets": [[0, none_blk]], "otherwise": some_blk, "span": span})
        ref_tmp = bld.local("")
        pre = _apply_fn(bld, body, closures, args[1], [{"l": ref_tmp, "p": [], "ty": "", "k": "move"}], bld.plain(keep, "bool"), test)
        if pre is None:
            return False
        hit = bld.block([bld.assign(bld.plain(ref_tmp), {"k": "ref", "mut": False, "place": {"l": rl, "p": [{"dc": 1, "name": "Some"}, {"f": 0, "name": "0", "ty": ""}], "ty": ""}})],
                        bld.goto(pre))
        miss = none_blk
    elif shape == "zip":
        # a.zip(b) = match (a, b) { (Some(x), Some(y)) => Some((x, y)), _ => None }
        other = args[1]
        if other.get("k") not in ("copy", "move") or other.get("p"):
            return False
        none_blk = bld.block([bld.assign(copy.deepcopy(dest), bld.agg(OPTION, "None", 0, []))], bld.goto(cont))
        tup = bld.local("")
        both = bld.block([bld.assign(bld.plain(tup), {"k": "agg", "ak": "tuple", "ops": [pay, bld.payload(other["l"], "Some", 1)]}),
                          bld.assign(copy.deepcopy(dest), bld.agg(OPTION, "Some", 1, [{"l": tup, "p": [], "ty": "", "k": "move"}]))], bld.goto(cont))
        d2 = bld.local("isize")
        hit = bld.block([bld.assign(bld.plain(d2, "isize"), {"k": "discr", "place": {"l": other["l"], "p": [], "ty": ""}, "adt": OPTION, "variants": VARIANTS[OPTION]})],
                        {"k": "switch", "discr": {"l": d2, "p": [], "ty": "isize", "k": "move"}, "targets": [[0, none_blk], [1, both]], "otherwise": none_blk, "span": span})
        miss = none_blk
    elif shape == "ok_or_else":
        hit = bld.block([bld.assign(copy.deepcopy(dest), bld.agg(RESULT, "Ok", 0, [pay]))], bld.goto(cont))
        tmp = bld.local("")
        wrap = bld.block([bld.assign(copy.deepcopy(dest), bld.agg(RESULT, "Err", 1, [{"l": tmp, "p": [], "ty": "", "k": "move"}]))], bld.goto(cont))
        miss = _apply_fn(bld, body, closures, args[1], [], bld.plain(tmp), wrap)
    elif shape == "map_err":
        tmp = bld.local("")
        wrap = bld.block([bld.assign(copy.deepcopy(dest), bld.agg(RESULT, "Err", 1, [{"l": tmp, "p": [], "ty": "", "k": "move"}]))], bld.goto(cont))
        miss = _apply_fn(bld, body, closures, args[1], [bld.payload(rl, "Err", 1)], bld.plain(tmp), wrap)
        hit = through("Ok", 0)
    elif shape == "unwrap":
        hit = bld.block([bld.assign(copy.deepcopy(dest), {"k": "use", "op": pay})], bld.goto(cont))
        miss = bld.block([], {"k": "call", "callee": "core::panicking::panic", "callee_args": [], "callee_local": False, "resolved": None,
                              "obligations": [], "args": [], "dest": {"l": bld.local("!"), "p": [], "ty": "!"}, "t": None, "unwind": None,
                              "span": span, "fn_span": span, "synthetic_unwrap": t["callee"]})
    else:  # unwrap_or_else
        hit = bld.block([bld.assign(copy.deepcopy(dest), {"k": "use", "op": pay})], bld.goto(cont))
        miss_args = [] if adt == OPTION else [bld.payload(rl, "Err", 1)]
        miss = _apply_fn(bld, body, closures, args[1], miss_args, dest, cont)
    if hit is None or miss is None:
        return False
    d = bld.local("isize")
    targets = [[hit_idx, hit], [miss_idx, miss]]
    sw = {"k": "switch", "discr": {"l": d, "p": [], "ty": "isize", "k": "move"}, "targets": sorted(targets), "otherwise": miss,
          "span": span, "combinator": t["callee"]}
    body["blocks"][bi]["stmts"].append(bld.assign(bld.plain(d, "isize"),
                                                   {"k": "discr", "place": {"l": rl, "p": [], "ty": ""}, "adt": adt, "variants": VARIANTS[adt]}))
    body["blocks"][bi]["term"] = sw
    body.setdefault("normalised_combinators", []).append(t["callee"])
    return True


def _normalise_then_some(body, bi):
    """`cond.then_some(v)` is `if cond { Some(v) } else { None }`."""
    t = body["blocks"][bi]["term"]
    args = t["args"]
    if len(args) != 2 or t.get("t") is None or args[0].get("k") not in ("copy", "move") or args[0].get("p"):
        return False
    span = t.get("span", {"s": "", "x": False})
    bld = _Builder(body, span)
    dest, cont = t["dest"], t["t"]
    none_blk = bld.block([bld.assign(copy.deepcopy(dest), bld.agg(OPTION, "None", 0, []))], bld.goto(cont))
    some_blk = bld.block([bld.assign(copy.deepcopy(dest), bld.agg(OPTION, "Some", 1, [copy.deepcopy(args[1])]))], bld.goto(cont))
    body["blocks"][bi]["term"] = {"k": "switch", "discr": {"l": args[0]["l"], "p": [], "ty": "bool", "k": "move"}, "targets": [[0, none_blk]],
                                  "otherwise": some_blk, "span": span, "combinator": t["callee"]}
    body.setdefault("normalised_combinators", []).append(t["callee"])
    return True


def _normalise_transpose(body, bi):
    """Result<Option<T>, E>::transpose: Ok(Some(x)) -> Some(Ok(x)), Ok(None) -> None, Err(e) -> Some(Err(e)).  Only where the
    receiver's variant is already being decided in this body (it is the result of a normalised combinator, not of a call):
    `interpret(..).map(|v| cond.then_some(v)).transpose()` then reads as the three-way match it abbreviates."""
    t = body["blocks"][bi]["term"]
    args = t["args"]
    if len(args) != 1 or t.get("t") is None or args[0].get("k") not in ("copy", "move") or args[0].get("p"):
        return False
    rl = args[0]["l"]
    for bl in body["blocks"]:
        tt = bl["term"]
        if tt["k"] == "call" and not tt["dest"]["p"] and tt["dest"]["l"] == rl:
            return False
    span = t.get("span", {"s": "", "x": False})
    bld = _Builder(body, span)
    dest, cont = t["dest"], t["t"]
    inner = {"l": rl, "p": [{"dc": 0, "name": "Ok"}, {"f": 0, "name": "0", "ty": ""}], "ty": ""}
    none_blk = bld.block([bld.assign(copy.deepcopy(dest), bld.agg(OPTION, "None", 0, []))], bld.goto(cont))
    tmp = bld.local("")
    x = {"l": rl, "p": inner["p"] + [{"dc": 1, "name": "Some"}, {"f": 0, "name": "0", "ty": ""}], "ty": "", "k": "move"}
    some_blk = bld.block([bld.assign(bld.plain(tmp), bld.agg(RESULT, "Ok", 0, [x])),
                          bld.assign(copy.deepcopy(dest), bld.agg(OPTION, "Some", 1, [{"l": tmp, "p": [], "ty": "", "k": "move"}]))], bld.goto(cont))
    d3 = bld.local("isize")
    hit = bld.block([bld.assign(bld.plain(d3, "isize"), {"k": "discr", "place": inner, "adt": OPTION, "variants": VARIANTS[OPTION]})],
                    {"k": "switch", "discr": {"l": d3, "p": [], "ty": "isize", "k": "move"}, "targets": [[0, none_blk], [1, some_blk]], "otherwise": none_blk, "span": span})
    tmp2 = bld.local("")
    miss = bld.block([bld.assign(bld.plain(tmp2), {"k": "through", "adt": RESULT, "variant": "Err", "op": {"l": rl, "p": [], "ty": "", "k": "move"}}),
                      bld.assign(copy.deepcopy(dest), bld.agg(OPTION, "Some", 1, [{"l": tmp2, "p": [], "ty": "", "k": "move"}]))], bld.goto(cont))
    d = bld.local("isize")
    body["blocks"][bi]["stmts"].append(bld.assign(bld.plain(d, "isize"), {"k": "discr", "place": {"l": rl, "p": [], "ty": ""}, "adt": RESULT, "variants": VARIANTS[RESULT]}))
    body["blocks"][bi]["term"] = {"k": "switch", "discr": {"l": d, "p": [], "ty": "isize", "k": "move"}, "targets": [[0, hit], [1, miss]], "otherwise": miss,
                                  "span": span, "combinator": t["callee"]}
    body.setdefault("normalised_combinators", []).append(t["callee"])
    return True


SIMPLE = {"core::bool::<impl bool>::then_some": _normalise_then_some,
          "std::result::Result::<std::option::Option<T>, E>::transpose": _normalise_transpose}

TRAVERSALS = {"std::iter::Iterator::try_for_each": "try", "std::iter::Iterator::for_each": "plain",
              "std::iter::Iterator::try_fold": "try_fold"}


def _normalise_traversal(body, bi, closures):
    """`iter.try_for_each(|x| f(x))` is, by definition, `for x in iter { f(x)? } Ok(())`, and `iter.for_each(|x| f(x))` is
    `for x in iter { f(x); }`: the call is replaced by that loop (next() on the iterator, the case analysis on its answer, the
    closure body spliced in with the item as its argument, for try_for_each the case analysis on the closure's result with
    the failure passed on).  A per-item closure and a hand-written loop body then reach the rules in the same shape."""
    t = body["blocks"][bi]["term"]
    kind = TRAVERSALS[t["callee"]]
    args = t["args"]
    if kind == "try_fold":
        return _normalise_try_fold(body, bi, closures)
    if len(args) != 2 or t.get("t") is None:
        return False
    it = args[0]
    if it.get("k") not in ("copy", "move") or it.get("p"):
        return False
    cd = _closure_def_of(body, args[1])
    if cd is None or cd[0] not in closures or closures[cd[0]]["arg_count"] != 2:
        return False
    dest = t["dest"]
    if kind == "try" and not (dest.get("ty") or "").startswith(RESULT):
        return False
    span = t.get("span", {"s": "", "x": False})
    bld = _Builder(body, span)
    cont = t["t"]
    ref = bld.local("")
    opt = bld.local(OPTION + "<>")
    d = bld.local("isize")
    item = bld.local("")
    res = bld.local((dest.get("ty") or "") if kind == "try" else "()")
    # blocks are created back to front so that targets exist
    if kind == "try":
        done = bld.block([bld.assign(copy.deepcopy(dest), bld.agg(RESULT, "Ok", 0, [{"k": "const", "ty": "()", "val": "()"}]))], bld.goto(cont))
        fail = bld.block([bld.assign(copy.deepcopy(dest), {"k": "through", "adt": RESULT, "variant": "Err", "op": {"l": res, "p": [], "ty": "", "k": "move"}})], bld.goto(cont))
    else:
        done = bld.block([bld.assign(copy.deepcopy(dest), {"k": "use", "op": {"k": "const", "ty": "()", "val": "()"}})], bld.goto(cont))
    head = bld.block([], {"k": "unreachable", "span": span})      # terminator filled in below
    if kind == "try":
        d2 = bld.local("isize")
        after = bld.block([bld.assign(bld.plain(d2, "isize"), {"k": "discr", "place": {"l": res, "p": [], "ty": ""}, "adt": RESULT, "variants": VARIANTS[RESULT]})],
                          {"k": "switch", "discr": {"l": d2, "p": [], "ty": "isize", "k": "move"}, "targets": [[0, head], [1, fail]], "otherwise": fail,
                           "span": span, "combinator": t["callee"]})
    else:
        after = bld.block([], bld.goto(head))
    call_pre = _apply_fn(bld, body, closures, args[1], [{"l": item, "p": [], "ty": "", "k": "move"}], bld.plain(res), after)
    if call_pre is None:
        return False
    some = bld.block([bld.assign(bld.plain(item), {"k": "use", "op": bld.payload(opt, "Some", 1)})], bld.goto(call_pre))
    sw = bld.block([bld.assign(bld.plain(d, "isize"), {"k": "discr", "place": {"l": opt, "p": [], "ty": ""}, "adt": OPTION, "variants": VARIANTS[OPTION]})],
                   {"k": "switch", "discr": {"l": d, "p": [], "ty": "isize", "k": "move"}, "targets": [[0, done], [1, some]], "otherwise": done,
                    "span": span, "combinator": t["callee"]})
    body["blocks"][head]["stmts"] = [bld.assign(bld.plain(ref), {"k": "ref", "mut": True, "place": {"l": it["l"], "p": [], "ty": ""}})]
    body["blocks"][head]["term"] = {"k": "call", "callee": "std::iter::Iterator::next", "callee_args": [], "callee_local": None, "resolved": None,
                                    "obligations": [], "args": [{"l": ref, "p": [], "ty": "", "k": "move"}], "dest": bld.plain(opt, OPTION + "<>"),
                                    "t": sw, "unwind": None, "span": span, "fn_span": span, "synthetic_call": True}
    body["blocks"][bi]["term"] = {"k": "goto", "t": head, "span": span, "normalised_traversal": t["callee"]}
    body.setdefault("normalised_combinators", []).append(t["callee"])
    return True


def _normalise_try_fold(body, bi, closures):
    """`iter.try_fold(init, |acc, x| f(acc, x))` with a Result-returning f is
        let mut acc = init; for x in iter { acc = f(acc, x)?; } Ok(acc)
    (the early exit hands f's own Err on)."""
    t = body["blocks"][bi]["term"]
    args = t["args"]
    if len(args) != 3 or t.get("t") is None:
        return False
    it = args[0]
    if it.get("k") not in ("copy", "move") or it.get("p"):
        return False
    cd = _closure_def_of(body, args[2])
    if cd is None or cd[0] not in closures or closures[cd[0]]["arg_count"] != 3:
        return False
    dest = t["dest"]
    dty = dest.get("ty") or ""
    if not (dty.startswith(RESULT) or dty.startswith(OPTION)):
        return False
    # the step function answers Result (Ok continues, Err ends) or Option (Some continues, None ends)
    is_res = dty.startswith(RESULT)
    adt, good, gi, bad, bi_ = (RESULT, "Ok", 0, "Err", 1) if is_res else (OPTION, "Some", 1, "None", 0)
    span = t.get("span", {"s": "", "x": False})
    bld = _Builder(body, span)
    cont = t["t"]
    ref = bld.local("")
    opt = bld.local(OPTION + "<>")
    d = bld.local("isize")
    d2 = bld.local("isize")
    item = bld.local("")
    acc = bld.local("")
    res = bld.local(dest.get("ty") or "")
    done = bld.block([bld.assign(copy.deepcopy(dest), bld.agg(adt, good, gi, [{"l": acc, "p": [], "ty": "", "k": "move"}]))], bld.goto(cont))
    if is_res:
        fail = bld.block([bld.assign(copy.deepcopy(dest), {"k": "through", "adt": RESULT, "variant": "Err", "op": {"l": res, "p": [], "ty": "", "k": "move"}})], bld.goto(cont))
    else:
        fail = bld.block([bld.assign(copy.deepcopy(dest), bld.agg(OPTION, "None", 0, []))], bld.goto(cont))
    head = bld.block([], {"k": "unreachable", "span": span})
    keep = bld.block([bld.assign(bld.plain(acc), {"k": "use", "op": bld.payload(res, good, gi)})], bld.goto(head))
    after = bld.block([bld.assign(bld.plain(d2, "isize"), {"k": "discr", "place": {"l": res, "p": [], "ty": ""}, "adt": adt, "variants": VARIANTS[adt]})],
                      {"k": "switch", "discr": {"l": d2, "p": [], "ty": "isize", "k": "move"}, "targets": [[gi, keep], [bi_, fail]], "otherwise": fail,
                       "span": span, "combinator": t["callee"]})
    call_pre = _apply_fn(bld, body, closures, args[2], [{"l": acc, "p": [], "ty": "", "k": "move"}, {"l": item, "p": [], "ty": "", "k": "move"}], bld.plain(res), after)
    if call_pre is None:
        return False
    some = bld.block([bld.assign(bld.plain(item), {"k": "use", "op": bld.payload(opt, "Some", 1)})], bld.goto(call_pre))
    sw = bld.block([bld.assign(bld.plain(d, "isize"), {"k": "discr", "place": {"l": opt, "p": [], "ty": ""}, "adt": OPTION, "variants": VARIANTS[OPTION]})],
                   {"k": "switch", "discr": {"l": d, "p": [], "ty": "isize", "k": "move"}, "targets": [[0, done], [1, some]], "otherwise": done,
                    "span": span, "combinator": t["callee"]})
    body["blocks"][head]["stmts"] = [bld.assign(bld.plain(ref), {"k": "ref", "mut": True, "place": {"l": it["l"], "p": [], "ty": ""}})]
    body["blocks"][head]["term"] = {"k": "call", "callee": "std::iter::Iterator::next", "callee_args": [], "callee_local": None, "resolved": None,
                                    "obligations": [], "args": [{"l": ref, "p": [], "ty": "", "k": "move"}], "dest": bld.plain(opt, OPTION + "<>"),
                                    "t": sw, "unwind": None, "span": span, "fn_span": span, "synthetic_call": True}
    init = bld.block([bld.assign(bld.plain(acc), {"k": "use", "op": copy.deepcopy(args[1])})], bld.goto(head))
    body["blocks"][bi]["term"] = {"k": "goto", "t": init, "span": span, "normalised_traversal": t["callee"]}
    body.setdefault("normalised_combinators", []).append(t["callee"])
    return True


def _known_variants_at_end(stmts, known):
    """Forward simulation of plain statements over {local: (adt, variant)} facts."""
    known = dict(known)
    for st in stmts:
        if st["k"] != "assign":
            continue
        pl = st["place"]
        if pl["p"]:
            # a write into part of a local: only a field store, the variant of an enum local is not changed by our templates
            continue
        rv = st["rv"]
        l = pl["l"]
        if rv["k"] == "agg" and rv.get("ak") == "adt" and rv.get("adt") in VARIANTS:
            known[l] = (rv["adt"], rv["variant"])
        elif rv["k"] == "through":
            known[l] = (rv["adt"], rv["variant"])
        elif rv["k"] == "use" and rv["op"].get("k") in ("copy", "move") and not rv["op"].get("p") and rv["op"]["l"] in known:
            known[l] = known[rv["op"]["l"]]
        else:
            known.pop(l, None)
    return known


def _uncond(t):
    """Target of a terminator with one normal successor and no effect on variants: goto, or the drop of a local (scope end)."""
    if t["k"] == "goto":
        return t["t"]
    if t["k"] == "drop" and t.get("t") is not None:
        return t["t"]
    return None


def _chain_from(blocks, start, limit=9):
    """Blocks reached from `start` by following unconditional jumps / scope-end drops: [start, next, ..]."""
    out = [start]
    seen = {start}
    while len(out) < limit:
        nt = _uncond(blocks[out[-1]]["term"])
        if nt is None or nt in seen or blocks[nt].get("cleanup"):
            break
        out.append(nt)
        seen.add(nt)
    return out


def _switch_pattern(S):
    """(scrutinee local, adt, {variant name: value}, switch terminator) if S ends in `d = discriminant(x); switchInt(d)`."""
    t = S["term"]
    if t["k"] != "switch" or not S["stmts"]:
        return None
    d = t["discr"]
    if d.get("k") not in ("copy", "move") or d.get("p"):
        return None
    last = S["stmts"][-1]
    if not (last["k"] == "assign" and last["place"]["l"] == d["l"] and not last["place"]["p"] and last["rv"]["k"] == "discr"
            and not last["rv"]["place"]["p"] and last["rv"].get("variants")):
        return None
    return last["rv"]["place"]["l"], last["rv"].get("adt"), {nm: v for v, nm in last["rv"]["variants"]}, t


def _target_of(t, v):
    for tv, tb in t["targets"]:
        if tv == v:
            return tb
    return t["otherwise"]


def _residual_entry_facts(blocks, pi):
    """What is known on entry to block pi because its only way in is the return of `FromResidual::from_residual` (the early
    return of `?`): the destination is the failure variant."""
    ins = []
    for qi, Q in enumerate(blocks):
        t = Q["term"]
        if Q.get("cleanup"):
            continue
        if t["k"] == "switch":
            if pi in {tb for _, tb in t["targets"]} | {t["otherwise"]}:
                return {}
        elif t.get("t") == pi:
            ins.append(t)
    if len(ins) != 1:
        return {}
    t = ins[0]
    if t["k"] == "call" and t["callee"] == "std::ops::FromResidual::from_residual" and not t["dest"]["p"]:
        ty = t["dest"].get("ty") or ""
        if ty.startswith("std::result::Result"):
            return {t["dest"]["l"]: (RESULT, "Err")}
        if ty.startswith("std::option::Option"):
            return {t["dest"]["l"]: (OPTION, "None")}
    return {}


def _test_of(blocks, bi, known):
    """If block bi tests a local whose variant is known: (kind, feasible target, label, statements-known) else None."""
    B = blocks[bi]
    pat = _switch_pattern(B)
    if pat is not None and pat[1] in VARIANTS:
        kn = _known_variants_at_end(B["stmts"][:-1], known)
        x, adt, names, st = pat
        if x in kn and kn[x][0] == adt and kn[x][1] in names:
            return ("switch", _target_of(st, names[kn[x][1]]), kn[x][1])
        return None
    t = B["term"]
    if t["k"] == "call" and t["callee"] == "std::ops::Try::branch" and t.get("t") is not None and t["args"] and \
            t["args"][0].get("k") in ("copy", "move") and not t["args"][0].get("p") and not t["dest"]["p"]:
        kn = _known_variants_at_end(B["stmts"], known)
        S = blocks[t["t"]]
        pat = _switch_pattern(S)
        if pat is not None and pat[0] == t["dest"]["l"] and "Continue" in pat[2] and t["args"][0]["l"] in kn:
            variant = kn[t["args"][0]["l"]][1]
            arm = "Continue" if variant in ("Ok", "Some") else "Break"
            return ("try", _target_of(pat[3], pat[2][arm]), arm)
    return None


def _thread_region(blocks, pi, known, limit=14):
    """The same through a small acyclic region with branches that do not concern the known value (drop-flag tests of scope
    ends between a `return Err(..)` and the caller's `?`): every path from P's successor must reach one and the same test of a
    known local within `limit` blocks, passing only gotos, scope-end drops and switches on plain locals; the region is copied
    for P with the test folded."""
    if not known:
        return False
    start = _uncond(blocks[pi]["term"])
    if start is None:
        return False
    region = []          # blocks in discovery order
    facts = {start: known}
    test = None
    work = [start]
    while work:
        bi = work.pop()
        if bi in region:
            continue
        if blocks[bi].get("cleanup") or len(region) >= limit:
            return False
        kn = facts[bi]
        tst = _test_of(blocks, bi, kn)
        if tst is not None:
            if test is not None and test[0] != bi:
                return False
            test = (bi, tst)
            continue
        B = blocks[bi]
        t = B["term"]
        out_kn = _known_variants_at_end(B["stmts"], kn)
        if t["k"] == "drop":
            out_kn = dict(out_kn)
            out_kn.pop(t.get("place", {}).get("l"), None)
        if not out_kn:
            return False
        if _uncond(t) is not None:
            succs = [_uncond(t)]
        elif t["k"] == "switch" and t["discr"].get("k") in ("copy", "move") and not t["discr"].get("p") and _switch_pattern(B) is None:
            succs = sorted({tb for _, tb in t["targets"]} | {t["otherwise"]})
        else:
            return False
        region.append(bi)
        for sx in succs:
            if sx in facts and facts[sx] != out_kn and sx not in (test[0] if test else None,):
                # two ways in with different facts: keep only what both agree on
                facts[sx] = {k: v for k, v in facts[sx].items() if out_kn.get(k) == v}
            else:
                facts.setdefault(sx, out_kn)
            if sx not in region:
                work.append(sx)
    if test is None or not region or not any(blocks[b]["term"]["k"] == "switch" for b in region):
        return False
    # the region must be acyclic and closed: every successor is in the region or is the test
    tb, (kind, dest, label) = test
    for bi in region:
        t = blocks[bi]["term"]
        succs = [_uncond(t)] if _uncond(t) is not None else sorted({x for _, x in t["targets"]} | {t["otherwise"]})
        if any(sx != tb and sx not in region for sx in succs):
            return False
    first_new = len(blocks)
    newid = {bi: first_new + k for k, bi in enumerate(region)}
    newid[tb] = first_new + len(region)
    for bi in region:
        src = blocks[bi]
        t2 = copy.deepcopy(src["term"])
        if t2["k"] == "switch":
            t2["targets"] = [[v, newid[x]] for v, x in t2["targets"]]
            t2["otherwise"] = newid[t2["otherwise"]]
        else:
            t2["t"] = newid[t2["t"]]
        blocks.append({"stmts": copy.deepcopy(src["stmts"]), "term": t2, "cleanup": False, "synthetic": True})
    src = blocks[tb]
    if kind == "switch":
        blocks.append({"stmts": copy.deepcopy(src["stmts"]), "term": {"k": "goto", "t": dest, "span": src["term"].get("span"), "threaded_variant": label},
                       "cleanup": False, "synthetic": True})
    else:
        S = blocks[src["term"]["t"]]
        t2 = copy.deepcopy(src["term"])
        t2["t"] = first_new + len(region) + 1
        blocks.append({"stmts": copy.deepcopy(src["stmts"]), "term": t2, "cleanup": False, "synthetic": True, "threaded_try": True})
        blocks.append({"stmts": copy.deepcopy(S["stmts"]), "term": {"k": "goto", "t": dest, "span": S["term"].get("span"), "threaded_variant": label},
                       "cleanup": False, "synthetic": True})
    P = blocks[pi]
    P["term"] = dict(P["term"])
    P["term"]["t"] = newid[start] if start != tb else newid[tb]
    return True


def thread_known_variants(body):
    """Tail duplication + folding.  From a block P, follow unconditional jumps; if they lead to
        S: ..; d = discriminant(x); switchInt(d)                              (a case analysis on x), or to
        C: ..; cf = Try::branch(x) -> S,  S: d = discriminant(cf); switchInt(d)   (`x?`)
    and the statements along the way determine which variant x has (it was built as an aggregate of that variant, or is the
    pass-through arm of a normalised combinator), P gets its own copy of those blocks ending in a jump to the one feasible
    target.  Calls are kept; only infeasible edges disappear."""
    n = 0
    blocks = body["blocks"]
    changed = True
    rounds = 0
    while changed and rounds < 80 and len(blocks) < 4000:
        changed = False
        rounds += 1
        for pi in range(len(blocks)):
            P = blocks[pi]
            if _uncond(P["term"]) is None or P.get("cleanup"):
                continue
            chain = _chain_from(blocks, _uncond(P["term"]))
            known = _known_variants_at_end(P["stmts"], _residual_entry_facts(blocks, pi))
            if not known:
                continue
            hit = None
            for ci, bi in enumerate(chain):
                B = blocks[bi]
                pat = _switch_pattern(B)
                if pat is not None and pat[1] in VARIANTS:
                    kn = _known_variants_at_end(B["stmts"][:-1], known)
                    x, adt, names, st = pat
                    if x in kn and kn[x][0] == adt and kn[x][1] in names:
                        hit = ("switch", ci, _target_of(st, names[kn[x][1]]), kn[x][1])
                    break
                t = B["term"]
                if t["k"] == "call" and t["callee"] == "std::ops::Try::branch" and t.get("t") is not None and t["args"] and \
                        t["args"][0].get("k") in ("copy", "move") and not t["args"][0].get("p") and not t["dest"]["p"]:
                    kn = _known_variants_at_end(B["stmts"], known)
                    S = blocks[t["t"]]
                    pat = _switch_pattern(S)
                    if pat is not None and pat[0] == t["dest"]["l"] and "Continue" in pat[2] and t["args"][0]["l"] in kn:
                        variant = kn[t["args"][0]["l"]][1]
                        arm = "Continue" if variant in ("Ok", "Some") else "Break"
                        hit = ("try", ci, _target_of(pat[3], pat[2][arm]), arm)
                    break
                known = _known_variants_at_end(B["stmts"], known)
                if _uncond(B["term"]) is None:
                    break
                if B["term"]["k"] == "drop" and B["term"].get("place", {}).get("l") in known:
                    known.pop(B["term"]["place"]["l"], None)
            if hit is None:
                if _thread_region(blocks, pi, known):
                    n += 1
                    changed = True
                continue
            kind, ci, dest, label = hit
            # copy chain[0..ci] for P
            first_new = len(blocks)
            for j in range(ci + 1):
                src = blocks[chain[j]]
                last = j == ci
                if not last:
                    t2 = copy.deepcopy(src["term"]) if src["term"]["k"] == "drop" else {"k": "goto", "span": src["term"].get("span")}
                    t2["t"] = first_new + j + 1
                    blocks.append({"stmts": copy.deepcopy(src["stmts"]), "term": t2, "cleanup": False, "synthetic": True})
                elif kind == "switch":
                    blocks.append({"stmts": copy.deepcopy(src["stmts"]), "term": {"k": "goto", "t": dest, "span": src["term"].get("span"), "threaded_variant": label},
                                   "cleanup": False, "synthetic": True})
                else:
                    S = blocks[src["term"]["t"]]
                    t2 = copy.deepcopy(src["term"])
                    t2["t"] = first_new + ci + 1
                    blocks.append({"stmts": copy.deepcopy(src["stmts"]), "term": t2, "cleanup": False, "synthetic": True, "threaded_try": True})
                    blocks.append({"stmts": copy.deepcopy(S["stmts"]), "term": {"k": "goto", "t": dest, "span": S["term"].get("span"), "threaded_variant": label},
                                   "cleanup": False, "synthetic": True})
            P["term"] = dict(P["term"])
            P["term"]["t"] = first_new
            n += 1
            changed = True
    return n


_ACTIVE = dict(COMBINATORS)


def _mentions_local(x, l):
    if isinstance(x, dict):
        if x.get("l") == l and "p" in x:
            return True
        return any(_mentions_local(v, l) for v in x.values())
    if isinstance(x, list):
        return any(_mentions_local(v, l) for v in x)
    return False


def lower_mem_replace(body):
    """`old = mem::replace(&mut PLACE, new)` is `old = PLACE; PLACE = new`: written out, so that a save-and-set of a field
    (`let saved = mem::replace(&mut ctx.offset, offset)`) is read as the two statements it stands for."""
    n = 0
    for bl in body["blocks"]:
        t = bl["term"]
        if not (t["k"] == "call" and t["callee"] == "std::mem::replace" and len(t["args"]) == 2 and t.get("t") is not None):
            continue
        r = t["args"][0]
        if r.get("k") not in ("copy", "move") or r.get("p"):
            continue
        defs = [st for b2 in body["blocks"] for st in b2["stmts"] if st["k"] == "assign" and not st["place"]["p"] and st["place"]["l"] == r["l"]]
        if len(defs) != 1 or defs[0]["rv"]["k"] != "ref" or not defs[0]["rv"].get("mut") or defs[0] not in bl["stmts"]:
            continue
        pl = copy.deepcopy(defs[0]["rv"]["place"])
        dead = [defs[0]]
        # `&mut *r` with `r = &mut PLACE` (the re-borrow the compiler inserts): PLACE itself
        for _ in range(4):
            if not (pl["p"] and pl["p"][0] == "deref"):
                break
            inner = [st for b2 in body["blocks"] for st in b2["stmts"] if st["k"] == "assign" and not st["place"]["p"] and st["place"]["l"] == pl["l"]]
            if len(inner) != 1 or inner[0]["rv"]["k"] != "ref" or inner[0] not in bl["stmts"]:
                break
            dead.append(inner[0])
            base = copy.deepcopy(inner[0]["rv"]["place"])
            base["p"] = list(base["p"]) + list(pl["p"][1:])
            base["ty"] = pl.get("ty", base.get("ty"))
            pl = base
        span = t.get("span", {"s": "", "x": False})
        bl["stmts"].append({"k": "assign", "place": copy.deepcopy(t["dest"]), "rv": {"k": "use", "op": dict(pl, k="copy")}, "span": span})
        bl["stmts"].append({"k": "assign", "place": pl, "rv": {"k": "use", "op": copy.deepcopy(t["args"][1])}, "span": span})
        bl["term"] = {"k": "goto", "t": t["t"], "span": span, "lowered": "std::mem::replace"}
        # the borrows that only fed the call are gone with it
        for st in dead:
            l = st["place"]["l"]
            others = [x for b2 in body["blocks"] for x in b2["stmts"] + [b2["term"]] if x is not st and _mentions_local(x, l)]
            if not others:
                bl["stmts"].remove(st)
        n += 1
    return n


def normalise_combinators(bodies, adts=None, cli=False):
    from . import inline as _inline
    _inline._BODIES = bodies
    for b_ in bodies:
        if b_.get("promoted") is None:
            lower_mem_replace(b_)
    _ACTIVE.clear()
    _ACTIVE.update(COMBINATORS)
    if cli:
        _ACTIVE.update(CLI_COMBINATORS)
    _ADTS.clear()
    _ADTS.update({a["path"]: a for a in (adts or [])})
    closures = {b["def"]: copy.deepcopy(b) for b in bodies if b.get("promoted") is None and b["kind"] == "closure"}
    n = 0
    # innermost first: closures that are themselves spliced later already contain their own normalised calls
    order = sorted((b for b in bodies if b.get("promoted") is None and b["kind"] in ("fn", "method", "closure")),
                   key=lambda b: -b["def"].count("{closure"))
    for b in order:
        changed = True
        rounds = 0
        while changed and rounds < 40 and len(b["blocks"]) < 4000:
            changed = False
            rounds += 1
            for bi in range(len(b["blocks"])):
                t = b["blocks"][bi]["term"]
                if t["k"] == "call" and t["callee"] in _ACTIVE and not b["blocks"][bi].get("cleanup"):
                    if _normalise_call(b, bi, closures):
                        n += 1
                        changed = True
                        break
                if t["k"] == "call" and t["callee"] in SIMPLE and not cli and not b["blocks"][bi].get("cleanup"):
                    if SIMPLE[t["callee"]](b, bi):
                        n += 1
                        changed = True
                        break
                if t["k"] == "call" and t["callee"] in TRAVERSALS and not b["blocks"][bi].get("cleanup"):
                    if _normalise_traversal(b, bi, closures):
                        n += 1
                        changed = True
                        break
        if b.get("normalised_combinators") or b.get("inlined"):
            thread_known_variants(b)
        if b["kind"] == "closure" and b["def"] in closures and b.get("normalised_combinators"):
            closures[b["def"]] = copy.deepcopy(b)
    # closures every creation of which was spliced into its parent are analysed there, not on their own
    created = {}
    spliced = {}
    for b in bodies:
        if b.get("promoted") is not None:
            continue
        for bl in b["blocks"]:
            for st in bl["stmts"]:
                if st["k"] == "assign" and st["rv"]["k"] == "agg" and st["rv"].get("ak") == "closure" and not bl.get("inlined_from") and not bl.get("synthetic"):
                    created[st["rv"]["def"]] = created.get(st["rv"]["def"], 0) + 1
        for d in b.get("inlined_closures", []):
            spliced[d] = spliced.get(d, 0) + 1
    for b in bodies:
        if b.get("promoted") is None and b["kind"] == "closure" and spliced.get(b["def"], 0) >= max(1, created.get(b["def"], 0)):
            b["fully_spliced"] = True
    return n
