"""Runs the rule instances of one property, applies the known-findings file,
writes evidence and replay files, prints the verdict lines."""
import importlib
import json
import os
import re
import sys
import time

from . import build
from .facts import Facts

VERIF = build.VERIF
EVID = os.environ.get("VERIF_EVIDENCE_DIR") or os.path.join(VERIF, "evidence")
REPLAY = os.path.join(EVID, "replay")
KNOWN = os.path.join(VERIF, "known_findings.txt")

PROPS = [f"C{n:02d}" for n in range(1, 19)]


class Instance:
    __slots__ = ("rule", "key", "status", "what", "loc", "detail")

    def __init__(self, rule, key, status, what, loc="", detail=None):
        self.rule = rule
        self.key = key
        self.status = status  # ok | violation | missing | note
        self.what = what
        self.loc = loc
        self.detail = detail

    def to_json(self):
        d = {
            "rule": self.rule,
            "key": self.key,
            "status": self.status,
            "what": self.what,
            "loc": self.loc,
        }
        if self.detail is not None:
            d["detail"] = self.detail
        return d


class Ctx:
    """What a property module sees."""

    def __init__(self, pid, tier, facts, thash):
        self.pid = pid
        self.tier = tier
        self.facts = facts  # {config: {"jmespath": Facts, "jp": Facts}}
        self.thash = thash
        self.instances = []
        self.notes = []
        self.assumptions = []
        self.analysed = {}
        self.only_rule = None
        self.default_cfg = "default"
        self.key_prefix = ""

    # ---- facts access -------------------------------------------------------
    def lib(self, cfg=None):
        return self.facts[cfg or self.default_cfg]["jmespath"]

    def jp(self):
        return self.facts["default"]["jp"]

    # ---- recording ------------------------------------------------------------
    def _add(self, rule, key, status, what, loc, detail):
        key = f"{self.key_prefix}{rule}:{key}"
        if self.key_prefix:
            what = f"{self.key_prefix} {what}"
        self.instances.append(Instance(rule, key, status, what, loc, detail))

    def ok(self, rule, key, what, loc="", detail=None):
        self._add(rule, key, "ok", what, loc, detail)

    def bad(self, rule, key, what, loc="", detail=None):
        self._add(rule, key, "violation", what, loc, detail)

    def missing(self, rule, key, what, loc="", detail=None):
        self._add(rule, key, "missing", "anchor missing: " + what, loc, detail)

    def check(self, cond, rule, key, what, loc="", detail=None):
        if cond:
            self.ok(rule, key, what, loc, detail)
        else:
            self.bad(rule, key, what, loc, detail)
        return cond

    def floor(self, rule, count, minimum, what):
        """Fail closed if a rule matched fewer sites than counted by hand."""
        if count < minimum:
            self._add(
                rule,
                "floor",
                "missing",
                f"floor not met: {what}: found {count}, expected at least {minimum}",
                "",
                None,
            )
        else:
            self._add(rule, "floor", "ok", f"{what}: {count} (floor {minimum})", "", None)

    def attempt(self, label, fn, *args, **kw):
        """Run one rule group; a shape the rules cannot even traverse is `undecided` for that
        group (reported as a violation of that group only), not a crash of the whole check."""
        try:
            return fn(*args, **kw)
        except Exception as e:  # noqa: BLE001
            import traceback

            tb = traceback.format_exc().strip().splitlines()
            where = next((l.strip() for l in reversed(tb) if l.strip().startswith("File ") and "/vlib/" in l), "")
            self._add("undecided", label, "violation",
                      f"rule group {label} could not be evaluated on this tree (construct outside the idiom envelope: {type(e).__name__}: {e}; {where})", "", None)
            return None

    def note(self, text):
        self.notes.append(text)

    def assume(self, text):
        if text not in self.assumptions:
            self.assumptions.append(text)

    def fn(self, path, cfg=None, crate="jmespath", rule=None):
        """Body by def-path; records an anchor-missing instance when absent."""
        cfg = cfg or (self.default_cfg if crate == "jmespath" else "default")
        f = self.facts[cfg][crate]
        b = f.fn(path)
        if b is None and rule is not None:
            self.missing(rule, f"fn:{path}", f"function {path} not found in {crate}[{cfg}]")
        return b


def read_known():
    known = {}
    fixed = []
    if os.path.exists(KNOWN):
        with open(KNOWN) as fh:
            for line in fh:
                line = line.strip()
                if not line or line.startswith("#"):
                    continue
                m = re.match(r'known:\s+property=(\S+)\s+key=(?:"([^"]+)"|(\S+))\s+(.*)$', line)
                if m:
                    known.setdefault(m.group(1), {})[m.group(2) or m.group(3)] = m.group(4)
                    continue
                m = re.match(r"fixed:\s+property=(\S+)\s+(\S+)\s+(.*)$", line)
                if m:
                    fixed.append((m.group(1), m.group(2), m.group(3)))
    return known, fixed


def configs_for(pid, tier):
    mod = importlib.import_module(f"vlib.props.{pid.lower()}")
    cfgs = getattr(mod, "CONFIGS_QUICK", ["default"])
    if tier == "thorough":
        cfgs = getattr(mod, "CONFIGS_THOROUGH", list(build.CONFIGS))
    return mod, cfgs


def run_property(pid, tier, only_rule=None):
    mod, cfgs = configs_for(pid, tier)
    thash, paths = build.extract(cfgs, with_cli=True)
    facts = {cfg: {k: Facts(p) for k, p in d.items()} for cfg, d in paths.items()}
    ctx = Ctx(pid, tier, facts, thash)
    ctx.only_rule = only_rule
    for cfg, d in facts.items():
        for k, f in d.items():
            for new, old in sorted(getattr(f, "renamed", {}).items()):
                ctx.note(f"[{k}/{cfg}] private function {new} is analysed under its former name {old} (same module, same signature, old name gone)")
    mod.run(ctx)
    if tier == "thorough" and not getattr(mod, "HANDLES_CONFIGS", False):
        # the same rules on every other feature configuration (sync analysed modulo Arc -> Rc)
        for cfg in cfgs:
            if cfg == "default" or not getattr(mod, "PER_CONFIG", True):
                continue
            nfacts = dict(facts)
            nfacts[cfg] = {k: Facts(p, normalise=True) for k, p in paths[cfg].items()}
            sub = Ctx(pid, tier, nfacts, thash)
            sub.default_cfg = cfg
            sub.key_prefix = f"[{cfg}] "
            mod.run(sub)
            ctx.instances.extend(sub.instances)
            ctx.notes.extend(sub.notes)
            for a in sub.assumptions:
                ctx.assume(a)
            ctx.analysed[f"[{cfg}]"] = {k: v for k, v in sub.analysed.items() if isinstance(v, (int, str))}
    return mod, ctx


def liveness(pid, max_workers=6):
    """Thorough tier: show that the rules of this property are alive by running its
    one-site mutants (scratch copies outside /repo and /verif, removed afterwards)."""
    from concurrent.futures import ThreadPoolExecutor
    from . import selftest

    try:
        muts = [m for m in selftest.load_mutants() if not m.get("equiv") and any(e["prop"] == pid for e in m.get("expect", []))]
        equiv = [m for m in selftest.load_mutants() if m.get("equiv") and pid in m.get("props", [])]
    except Exception as e:  # no mutant file: nothing to show
        return {"mutants": 0, "error": str(e)}
    res = {"mutants": len(muts), "fired": 0, "missed": [], "stale": [], "equivalent_edits": len(equiv), "equivalent_silent": 0, "false_alarms": []}

    def one(m):
        edits = m.get("edits") or [{"file": m["file"], "old": m["old"], "new": m["new"], "count": m.get("count", 1)}]
        try:
            d = selftest.make_scratch(edits)
        except RuntimeError:
            return (m, "stale", None)
        try:
            rc, out = selftest.run_check(pid, d)
            return (m, rc, out)
        finally:
            import shutil
            shutil.rmtree(d, ignore_errors=True)

    with ThreadPoolExecutor(max_workers=max_workers) as ex:
        for m, rc, out in ex.map(one, muts + equiv):
            if rc == "stale":
                res["stale"].append(m["name"])
                continue
            if m.get("equiv"):
                if rc == 0:
                    res["equivalent_silent"] += 1
                else:
                    res["false_alarms"].append(m["name"])
                continue
            keys = [e["key"] for e in m["expect"] if e["prop"] == pid]
            lines = [l for l in out.splitlines() if l.startswith(("VIOLATION:", "MISSING:"))]
            if rc == 1 and all(any(k in l for l in lines) for k in keys):
                res["fired"] += 1
            else:
                res["missed"].append(m["name"])
    return res


def check(pid, tier):
    pid = pid.upper()
    if pid not in PROPS:
        print(f"unknown property {pid}", file=sys.stderr)
        return 2
    t0 = time.time()
    seed = int(os.environ.get("VERIF_SEED", "0") or 0)
    os.makedirs(REPLAY, exist_ok=True)
    evpath = os.path.join(EVID, f"{pid}.json")
    try:
        mod, ctx = run_property(pid, tier)
    except Exception as e:  # a crashing rule must not pass silently: fail closed
        if isinstance(e, build.BuildError):
            raise_build = e
        else:
            import traceback

            tb = traceback.format_exc()
            rp = os.path.join(REPLAY, f"{pid}-crash.json")
            with open(rp, "w") as fh:
                json.dump({"property": pid, "error": tb}, fh, indent=1)
            print(f"MISSING: [checker] rule evaluation crashed on this tree (treated as undecided): {tb.splitlines()[-1]}  key=checker:crash")
            print(tb)
            print(f"VIOLATION property={pid} replay={rp}")
            _write_evidence(evpath, pid, tier, seed, None, None, [], [], time.time() - t0, build_error="rule crash: " + tb[-400:])
            return 1
        e = raise_build
        # cannot analyse the tree: fail closed
        rp = os.path.join(REPLAY, f"{pid}-build.json")
        with open(rp, "w") as fh:
            json.dump({"property": pid, "error": str(e)}, fh, indent=1)
        print(f"cannot extract facts from /repo: {str(e)[-1500:]}")
        print(f"VIOLATION property={pid} replay={rp}")
        _write_evidence(evpath, pid, tier, seed, None, None, [], [], time.time() - t0, build_error=str(e))
        return 1

    known, _fixed = read_known()
    kn = known.get(pid, {})
    viol = []
    knownhits = []
    for inst in ctx.instances:
        if inst.status in ("violation", "missing"):
            base_key = re.sub(r"^\[[^\]]+\] ", "", inst.key)  # the same construct under another feature configuration
            if inst.status == "violation" and (inst.key in kn or base_key in kn):
                knownhits.append(inst)
            else:
                viol.append(inst)
    for inst in knownhits:
        text = kn.get(inst.key) or kn.get(re.sub(r"^\[[^\]]+\] ", "", inst.key))
        print(f"KNOWN-FINDING: property={pid} {inst.key} -- {text} [{inst.loc}]")
    # a listed finding that no longer fires is only a note (nothing is suppressed by it)
    fired = {i.key for i in knownhits} | {re.sub(r"^\[[^\]]+\] ", "", i.key) for i in knownhits}
    for k in kn:
        if k not in fired:
            ctx.note(f"known finding {k} did not fire on this tree")

    for n, inst in enumerate(viol):
        rp = os.path.join(REPLAY, f"{pid}-{n}.json")
        with open(rp, "w") as fh:
            json.dump(
                {
                    "property": pid,
                    "tier": tier,
                    "tree": ctx.thash,
                    "instance": inst.to_json(),
                },
                fh,
                indent=1,
            )
        print(f"{inst.status.upper()}: [{inst.rule}] {inst.what}  @ {inst.loc}  key={inst.key}")
        print(f"VIOLATION property={pid} replay={rp}")
    if tier == "thorough" and not os.environ.get("VERIF_REPO"):
        lv = liveness(pid)
        ctx.analysed["rule_liveness"] = lv
        print(f"rule liveness: {lv.get('fired', 0)}/{lv.get('mutants', 0)} one-site mutants of this property detected; "
              f"{lv.get('equivalent_silent', 0)}/{lv.get('equivalent_edits', 0)} behaviour-preserving edits silent"
              + (f"; not detected: {lv['missed']}" if lv.get("missed") else "")
              + (f"; false alarms: {lv['false_alarms']}" if lv.get("false_alarms") else "")
              + (f"; stale anchors (source changed): {len(lv['stale'])}" if lv.get("stale") else ""))
    _write_evidence(evpath, pid, tier, seed, mod, ctx, viol, knownhits, time.time() - t0)
    nok = sum(1 for i in ctx.instances if i.status == "ok")
    print(
        f"{pid} [{tier}] {len(ctx.instances)} rule instances: {nok} discharged, "
        f"{len(knownhits)} known findings, {len(viol)} violations  ({time.time()-t0:.1f}s)"
    )
    return 1 if viol else 0


def _write_evidence(evpath, pid, tier, seed, mod, ctx, viol, knownhits, wall, build_error=None):
    os.makedirs(EVID, exist_ok=True)
    if ctx is None:
        ev = {
            "property_id": pid,
            "tier": tier,
            "seed": seed,
            "level": "other",
            "coverage": {
                "explanation": "fact extraction failed; nothing analysed: " + (build_error or "")[-500:],
                "evaluations": 0,
                "distinct_nontrivial": 0,
            },
            "wall_s": round(wall, 2),
            "violations": 1,
        }
        with open(evpath, "w") as fh:
            json.dump(ev, fh, indent=1)
        return
    insts = ctx.instances
    rules = {}
    for i in insts:
        r = rules.setdefault(i.rule, {"ok": 0, "violation": 0, "missing": 0})
        r[i.status] = r.get(i.status, 0) + 1
    distinct = len({i.key for i in insts if not i.key.endswith(":floor")})
    samples = []
    seen_rules = set()
    for i in insts:
        if i.rule not in seen_rules:
            seen_rules.add(i.rule)
            samples.append(i.to_json())
    for i in viol[:5] + knownhits[:5]:
        samples.append(i.to_json())
    level = getattr(mod, "LEVEL", "other")
    cov = {
        "explanation": getattr(mod, "EXPLANATION", ""),
        "obligations": len(insts),
        "discharged": sum(1 for i in insts if i.status == "ok"),
        "evaluations": len(insts),
        "distinct_nontrivial": distinct,
        "rule": "one evaluation = one rule instance anchored at a named construct of /repo's type-checked "
        "program (function, call site, match arm, CFG path); distinct = distinct instance keys "
        "(floor bookkeeping rows excluded)",
        "samples": samples[:40],
        "rules": rules,
        "analysed": ctx.analysed,
        "configurations": sorted(ctx.facts.keys()),
        "tree_hash": ctx.thash,
        "known_findings_fired": [i.key for i in knownhits],
        "notes": ctx.notes[:50],
        "exhaustive": False,
    }
    extra = getattr(mod, "coverage_extra", None)
    if extra:
        cov.update(extra(ctx))
    ev = {
        "property_id": pid,
        "tier": tier,
        "seed": seed,
        "level": level,
        "coverage": cov,
        "assumptions": ctx.assumptions + list(getattr(mod, "ASSUMPTIONS", [])),
        "wall_s": round(wall, 2),
        "violations": len(viol),
    }
    with open(evpath, "w") as fh:
        json.dump(ev, fh, indent=1)


def explain(path):
    with open(path) as fh:
        rp = json.load(fh)
    pid = rp["property"]
    if "error" in rp:
        print(rp["error"])
        return 1
    inst = rp["instance"]
    print(f"replaying {pid} rule {inst['rule']} key {inst['key']}")
    mod, ctx = run_property(pid, rp.get("tier", "quick"), only_rule=inst["rule"])
    hit = [i for i in ctx.instances if i.key == inst["key"]]
    if not hit:
        print("instance no longer produced on the current tree")
        return 0
    rc = 0
    for i in hit:
        print(json.dumps(i.to_json(), indent=1))
        if i.status in ("violation", "missing"):
            rc = 1
    return rc
