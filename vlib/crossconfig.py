"""A9: cross-configuration comparison of MIR bodies modulo the Rc <-> Arc alias."""
import json
import re


def _norm(s):
    if not isinstance(s, str):
        return s
    s = s.replace("std::sync::Arc", "std::rc::Rc")
    if "alloc" in s:
        s = re.sub(r"\balloc\d+\b", "alloc", s)
    return s


def _canon(x):
    """Canonical JSON-able form of a statement/terminator with types normalised,
    spans and instantiated obligations dropped."""
    if isinstance(x, dict):
        out = {}
        for k, v in x.items():
            if k in ("span", "fn_span", "obligations", "resolved_obligations", "threaded_from"):
                continue
            out[k] = _canon(v)
        return out
    if isinstance(x, list):
        return [_canon(v) for v in x]
    return _norm(x)


def body_signature(body, resolved=False):
    """Canonical string for a body.  With resolved=False the *resolved* callee
    (which specialisation may re-route) is left out; the unresolved callee +
    generic arguments are compared."""
    blocks = []
    for bl in body.j["blocks"]:
        stmts = [_canon(s) for s in bl["stmts"]]
        t = _canon(bl["term"])
        if not resolved:
            for k in ("resolved", "resolved_local", "resolved_kind", "resolved_args"):
                t.pop(k, None)
        blocks.append({"s": stmts, "t": t, "c": bl["cleanup"]})
    locs = [_norm(l["ty"]) for l in body.locals]
    return json.dumps({"blocks": blocks, "locals": locs, "argc": body.arg_count}, sort_keys=True)


def resolved_calls(body):
    out = []
    for bi, bl in enumerate(body.j["blocks"]):
        t = bl["term"]
        if t["k"] == "call":
            out.append((bi, _norm(t["callee"]), [_norm(a) for a in t.get("callee_args", [])], _norm(t.get("resolved") or "")))
    return out


def index_bodies(facts):
    idx = {}
    for b in facts.bodies:
        idx[(_norm(b.deff), b.kind, b.promoted)] = b
    return idx


def compare(fa, fb):
    """Returns dict with only_a, only_b, differing (list of keys), rerouted
    (call sites whose resolved impl differs), same (count)."""
    ia, ib = index_bodies(fa), index_bodies(fb)
    only_a = sorted(k for k in ia if k not in ib)
    only_b = sorted(k for k in ib if k not in ia)
    differing = []
    rerouted = []
    same = 0
    for k in sorted(set(ia) & set(ib), key=lambda x: (x[0], x[1], x[2] if x[2] is not None else -1)):
        a, b = ia[k], ib[k]
        if body_signature(a) != body_signature(b):
            differing.append(k)
            continue
        same += 1
        ra, rb = resolved_calls(a), resolved_calls(b)
        for x, y in zip(ra, rb):
            if x[3] != y[3]:
                rerouted.append((k, x[0], x[1], x[2], x[3], y[3]))
    return {"only_a": only_a, "only_b": only_b, "differing": differing, "rerouted": rerouted, "same": same}


def first_difference(a, b):
    sa = json.loads(body_signature(a))
    sb = json.loads(body_signature(b))
    if sa["locals"] != sb["locals"]:
        for i, (x, y) in enumerate(zip(sa["locals"], sb["locals"])):
            if x != y:
                return f"local _{i}: {x} vs {y}"
        return "different number of locals"
    for i, (x, y) in enumerate(zip(sa["blocks"], sb["blocks"])):
        if x != y:
            return f"bb{i}: {json.dumps(x)[:200]} vs {json.dumps(y)[:200]}"
    return "different number of blocks"


# ---------------------------------------------------------------------------
# lexical scan for feature-conditional code
# ---------------------------------------------------------------------------
def strip_comments_and_strings(src):
    out = []
    i = 0
    n = len(src)
    while i < n:
        c = src[i]
        if src.startswith("//", i):
            j = src.find("\n", i)
            j = n if j < 0 else j
            out.append(" " * (j - i))
            i = j
        elif src.startswith("/*", i):
            depth = 1
            j = i + 2
            while j < n and depth:
                if src.startswith("/*", j):
                    depth += 1
                    j += 2
                elif src.startswith("*/", j):
                    depth -= 1
                    j += 2
                else:
                    j += 1
            out.append("".join(ch if ch == "\n" else " " for ch in src[i:j]))
            i = j
        elif c == '"':
            j = i + 1
            while j < n and src[j] != '"':
                if src[j] == "\\":
                    j += 1
                j += 1
            # keep the string (cfg(feature = "x") needs it) but mark it
            out.append(src[i : j + 1])
            i = j + 1
        elif c == "r" and re.match(r'r#*"', src[i:]):
            m = re.match(r'r(#*)"', src[i:])
            end = '"' + m.group(1)
            j = src.find(end, i + len(m.group(0)))
            j = n if j < 0 else j + len(end)
            out.append("".join(ch if ch == "\n" else " " for ch in src[i:j]))
            i = j
        elif c == "'" and re.match(r"'(\\.|[^\\'])'", src[i:]):
            m = re.match(r"'(\\.|[^\\'])'", src[i:])
            out.append(" " * len(m.group(0)))
            i += len(m.group(0))
        else:
            out.append(c)
            i += 1
    return "".join(out)


def feature_conditions(path):
    """Lines (1-based) of cfg / cfg_attr / cfg! uses mentioning `feature`."""
    with open(path) as fh:
        src = fh.read()
    clean = strip_comments_and_strings(src)
    hits = []
    for m in re.finditer(r"\bcfg(_attr)?\s*!?\s*\(", clean):
        # find matching paren
        depth = 1
        j = m.end()
        while j < len(clean) and depth:
            if clean[j] == "(":
                depth += 1
            elif clean[j] == ")":
                depth -= 1
            j += 1
        text = clean[m.start() : j]
        if "feature" in text:
            line = clean.count("\n", 0, m.start()) + 1
            hits.append((line, re.sub(r"\s+", " ", text)[:120]))
    return hits
