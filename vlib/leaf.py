"""Leaf tables of variable.rs (accessors, kind predicates, get_type, is_truthy),
decided by walking each function's decision tree under every Variable kind
(7 cases, exhaustive).  Shared by C01, C06, C10."""
from .analysis import Origins, fmt_terms
from .decision import Undecided, Walker

KINDS = ["Null", "String", "Bool", "Number", "Array", "Object", "Expref"]
V = "variable::Variable::"
AS = {"as_array": "Array", "as_object": "Object", "as_string": "String", "as_number": "Number",
      "as_boolean": "Bool", "as_null": "Null", "as_expref": "Expref"}
IS = {"is_array": "Array", "is_object": "Object", "is_string": "String", "is_number": "Number",
      "is_boolean": "Bool", "is_null": "Null", "is_expref": "Expref"}
VIEW_KIND = {"array": "Array", "object": "Object", "string": "String", "number": "Number",
             "boolean": "Bool", "null": "Null", "expref": "Expref"}
TYPE_OF = {"Null": "Null", "String": "String", "Bool": "Boolean", "Number": "Number", "Array": "Array",
           "Object": "Object", "Expref": "Expref"}


def kind_walker(body, lib, kind, self_param=1, extra_atom=None):
    """Walker in which `self` (param self_param) is a Variable of the given kind."""
    def atom(t):
        if t == ("discr", ("param", self_param)):
            return kind
        # case analysis on an accessor's answer (`self.as_object().and_then(..)`, `if let Some(m) = self.as_object()`):
        # the accessor tables (checked separately) say it is Some exactly for its own kind
        if t[0] == "discr" and t[1][0] == "view" and t[1][2] == ("param", self_param) and t[1][1] in VIEW_KIND:
            return "Some" if VIEW_KIND[t[1][1]] == kind else "None"
        if extra_atom:
            return extra_atom(t)
        return None

    def call(t, argvals):
        name = t[1]
        if name == "std::option::Option::<T>::is_some" or name == "std::option::Option::<T>::is_none":
            for a in t[2][0]:
                if a[0] == "view" and a[2] == ("param", self_param):
                    v = int(VIEW_KIND[a[1]] == kind)
                    return v if name.endswith("is_some") else 1 - v
            return None
        if name.startswith(V) and name[len(V):] in IS:
            if all(a == ("param", self_param) for a in t[2][0]):
                return int(IS[name[len(V):]] == kind)
        return None

    return Walker(body, Origins(body, lib), atom=atom, call=call)


def leaf_kind(w, path):
    """Classify the value written to _0 on this path."""
    r = w.result_on_path(path)
    return r


def check_accessors(ctx, lib, rule):
    n = 0
    for name, want in AS.items():
        b = ctx.fn(V + name, rule=rule)
        if b is None:
            continue
        ok_all = True
        detail = []
        for k in KINDS:
            try:
                w = kind_walker(b, lib, k)
                paths = w.walk()
            except Undecided as e:
                ok_all = False
                detail.append(f"{k}: undecided ({e})")
                continue
            for path, leaf in paths:
                r = w.result_on_path(path)
                some = all(t[0] == "agg" and t[1] == "std::option::Option::Some" for t in r) and bool(r)
                none = all(t[0] == "agg" and t[1] == "std::option::Option::None" for t in r) and bool(r)
                # as_number delegates to Number::as_f64 (an Option) on the Number arm
                deleg = all(t[0] == "call" and t[1] == "serde_json::Number::as_f64" for t in r) and bool(r)
                n += 1
                if k == want:
                    good = some or (name == "as_number" and deleg)
                    if good and some and name not in ("as_null", "as_boolean"):
                        # payload is the variant's own field
                        for t in r:
                            pay = set(t[2][0])
                            good = good and all(p == ("field", ("param", 1), f"{want}.0") for p in pay)
                    if good and some and name == "as_boolean":
                        for t in r:
                            good = good and all(p == ("field", ("param", 1), "Bool.0") for p in set(t[2][0]))
                else:
                    good = none
                if not good:
                    ok_all = False
                    detail.append(f"{k}: {fmt_terms(r)}")
        ctx.check(ok_all, rule, name, f"{name} yields Some(payload) exactly on {want} and None on the other six kinds" + (f" — {detail}" if detail else ""), b.span)
    for name, want in IS.items():
        b = ctx.fn(V + name, rule=rule)
        if b is None:
            continue
        ok_all = True
        detail = []
        for k in KINDS:
            try:
                w = kind_walker(b, lib, k)
                paths = w.walk()
            except Undecided as e:
                ok_all = False
                detail.append(f"{k}: undecided ({e})")
                continue
            for path, leaf in paths:
                r = w.result_on_path(path)
                n += 1
                try:
                    v = w.eval_terms(r)
                except Undecided:
                    v = None
                if v != int(k == want):
                    ok_all = False
                    detail.append(f"{k}: {fmt_terms(r)} = {v}")
        ctx.check(ok_all, rule, name, f"{name} is true exactly on {want}" + (f" — {detail}" if detail else ""), b.span)
    # get_type bijection
    b = ctx.fn(V + "get_type", rule=rule)
    if b is not None:
        ok_all = True
        detail = []
        for k in KINDS:
            try:
                w = kind_walker(b, lib, k)
                paths = w.walk()
            except Undecided as e:
                ok_all = False
                detail.append(f"{k}: undecided ({e})")
                continue
            for path, leaf in paths:
                r = w.result_on_path(path)
                n += 1
                want = ("agg", f"variable::JmespathType::{TYPE_OF[k]}", (), ())
                if r != {want}:
                    ok_all = False
                    detail.append(f"{k}: {fmt_terms(r)}")
        ctx.check(ok_all, rule, "get_type", "get_type maps each Variable kind to the like-named JmespathType" + (f" — {detail}" if detail else ""), b.span)
    return n


KIND_VIEW = {v: k for k, v in VIEW_KIND.items()}


def pair_walker(body, lib, k1, k2):
    """Walker for a binary operation on two Variables (`self` = param 1 of kind k1, `other` = param 2 of kind k2),
    whatever way the kinds are inspected: the discriminants themselves (`match (self, other)`), get_type() comparisons,
    accessors (`as_x()` case analysis / is_some), predicates (`is_x()`)."""
    kinds = {1: k1, 2: k2}

    def param_of(t):
        return t[1] if t[0] == "param" and t[1] in kinds else None

    def atom(t):
        if t[0] == "discr":
            x = t[1]
            p = param_of(x)
            if p:
                return kinds[p]
            if x[0] == "call" and x[1] == V + "get_type" and len(x[2]) == 1:
                ps = {param_of(y) for y in x[2][0]}
                if len(ps) == 1 and None not in ps:
                    return TYPE_OF[kinds[next(iter(ps))]]
            if x[0] == "view" and param_of(x[2]) and x[1] in VIEW_KIND:
                return "Some" if VIEW_KIND[x[1]] == kinds[param_of(x[2])] else "None"
            # a number's payload as f64 always exists (serde_json without arbitrary_precision)
            if x[0] == "call" and x[1] == "serde_json::Number::as_f64":
                return "Some"
        return None

    def call(t, argvals):
        name = t[1]
        if name in ("std::cmp::PartialEq::ne", "std::cmp::PartialEq::eq") and len(t[2]) == 2 and \
                all(x[0] == "call" and x[1] == V + "get_type" for a in t[2] for x in a):
            ps = []
            for a in t[2]:
                pp = {param_of(y) for x in a for y in x[2][0]}
                if len(pp) != 1 or None in pp:
                    return None
                ps.append(next(iter(pp)))
            same = int(kinds[ps[0]] == kinds[ps[1]])
            return same if name.endswith("::eq") else 1 - same
        if name in ("std::option::Option::<T>::is_some", "std::option::Option::<T>::is_none"):
            for a in t[2][0]:
                if a[0] == "view" and param_of(a[2]) and a[1] in VIEW_KIND:
                    v = int(VIEW_KIND[a[1]] == kinds[param_of(a[2])])
                    return v if name.endswith("is_some") else 1 - v
                if a[0] == "call" and a[1] == "serde_json::Number::as_f64":
                    return 1 if name.endswith("is_some") else 0
            return None
        if name.startswith(V) and name[len(V):] in IS and len(t[2]) == 1:
            ps = {param_of(y) for y in t[2][0]}
            if len(ps) == 1 and None not in ps:
                return int(IS[name[len(V):]] == kinds[next(iter(ps))])
        return None

    return Walker(body, Origins(body, lib), atom=atom, call=call)


def is_payload(t, param, kind):
    """t denotes the payload of `param` (1 or 2) as a value of `kind`: the variant field itself, the accessor's answer,
    Some(..) of either — for numbers also their f64 value."""
    from .analysis import strip_through
    t = strip_through(t)
    if t[0] == "agg" and t[1] == "std::option::Option::Some" and len(t[2]) == 1 and t[2][0]:
        return all(is_payload(x, param, kind) for x in t[2][0])
    if t == ("field", ("param", param), f"{kind}.0"):
        return True
    if t == ("view", KIND_VIEW.get(kind), ("param", param)):
        return True
    if kind == "Number" and t[0] == "call" and t[1] == "serde_json::Number::as_f64" and len(t[2]) == 1 and t[2][0] and \
            all(x == ("field", ("param", param), "Number.0") for x in t[2][0]):
        return True
    return False


def expand_defaults(terms):
    """`opt.unwrap_or(d)` as the values it can be: the payload when the option is known to be Some, `d` when it is known to be
    None, either otherwise."""
    from .analysis import strip_through
    out = set()
    for t in terms:
        if t[0] == "call" and t[1] in ("std::option::Option::<T>::unwrap_or", "std::result::Result::<T, E>::unwrap_or") and len(t[2]) == 2:
            some, none = set(), False
            unknown = False
            for a in t[2][0]:
                if a[0] == "agg" and a[1] in ("std::option::Option::None",):
                    none = True
                elif a[0] == "agg" and a[1] in ("std::option::Option::Some", "std::result::Result::Ok") and len(a[2]) == 1:
                    some |= set(a[2][0])
                elif a[0] == "through" and a[1] in ("Some", "Ok"):
                    some.add(strip_through(a))
                elif a[0] == "through":
                    none = True
                else:
                    some.add(a)
                    unknown = True
            out |= expand_defaults(some)
            if none or unknown or not some:
                out |= expand_defaults(set(t[2][1]))
        else:
            out.add(t)
    return out


def results_by_kind(body, lib, kinds_of, max_steps=4000, extra_call=None, by_path=False):
    """Every value the body can return when the values named by the terms in `kinds_of` ({term: kind}) have those kinds —
    however the kinds are inspected (match on the value, accessor case analysis, is_x()) and wherever the result is wrapped
    (per arm, or once after the case analysis): the provenance of the result is taken along each feasible path."""
    def atom(t):
        if t[0] == "discr":
            x = t[1]
            if x in kinds_of:
                return kinds_of[x]
            if x[0] == "view" and x[2] in kinds_of and x[1] in VIEW_KIND:
                return "Some" if VIEW_KIND[x[1]] == kinds_of[x[2]] else "None"
        return None

    def call(t, argvals):
        name = t[1]
        if name in ("std::option::Option::<T>::is_some", "std::option::Option::<T>::is_none") and len(t[2]) == 1:
            for a in t[2][0]:
                if a[0] == "view" and a[2] in kinds_of and a[1] in VIEW_KIND:
                    v = int(VIEW_KIND[a[1]] == kinds_of[a[2]])
                    return v if name.endswith("is_some") else 1 - v
            return None
        if name.startswith(V) and name[len(V):] in IS and len(t[2]) == 1:
            ps = {kinds_of.get(y) for y in t[2][0]}
            if len(ps) == 1 and None not in ps:
                return int(IS[name[len(V):]] == next(iter(ps)))
        if extra_call is not None:
            return extra_call(t, argvals)
        return None

    w = Walker(body, Origins(body, lib), atom=atom, call=call, max_steps=max_steps)
    out = set()
    per = []
    for path, leaf in w.walk():
        r = set(w.result_on_path(path))
        per.append((path, r))
        out |= r
    return per if by_path else out


def ok_payloads(terms):
    """Payload terms of the Ok(..) results among `terms` (failures — Err aggregates, passed-on errors — are skipped)."""
    out = set()
    for t in terms:
        if t[0] == "agg" and t[1] == "std::result::Result::Ok" and len(t[2]) == 1:
            out |= set(t[2][0])
    return out


def check_kind_equality(ctx, lib, rule):
    """The equality and order tables read `a.get_type() == b.get_type()` as "same kind of value": that holds when `==` on
    JmespathType is the derived one (a hand-written impl could identify two kinds). Shared by C10, C02 and, through them, C01."""
    b = ctx.fn("<variable::JmespathType as std::cmp::PartialEq>::eq", rule=rule)
    if b is None:
        return
    ctx.check(bool(b.j.get("auto_derived")), rule, "kind-equality-derived",
              "`==` on JmespathType is the derived structural equality (kinds are never identified)", b.span)
