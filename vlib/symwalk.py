"""Flow-sensitive path enumeration with affine symbolic values.

Used for the small integer routines whose behaviour is a finite decision tree
over comparisons of affine expressions (slice endpoint adjustment, index
clamping).  No solver: paths are enumerated, values are normalised affine
forms, and trees are compared on a complete finite set of orderings.
"""
from .analysis import cfg_cycles


class Aff:
    """c0 + sum(coef * var)"""
    __slots__ = ("terms", "const")

    def __init__(self, terms=None, const=0):
        self.terms = {k: v for k, v in (terms or {}).items() if v != 0}
        self.const = const

    @staticmethod
    def var(name):
        return Aff({name: 1}, 0)

    @staticmethod
    def k(c):
        return Aff({}, c)

    def __add__(self, o):
        t = dict(self.terms)
        for k, v in o.terms.items():
            t[k] = t.get(k, 0) + v
        return Aff(t, self.const + o.const)

    def __sub__(self, o):
        t = dict(self.terms)
        for k, v in o.terms.items():
            t[k] = t.get(k, 0) - v
        return Aff(t, self.const - o.const)

    def neg(self):
        return Aff({k: -v for k, v in self.terms.items()}, -self.const)

    def key(self):
        return (tuple(sorted(self.terms.items())), self.const)

    def __eq__(self, o):
        return isinstance(o, Aff) and self.key() == o.key()

    def __hash__(self):
        return hash(self.key())

    def eval(self, env):
        return self.const + sum(c * env[v] for v, c in self.terms.items())

    def vars(self):
        return set(self.terms)

    def __repr__(self):
        parts = []
        for v, c in sorted(self.terms.items()):
            parts.append(("" if c == 1 else "-" if c == -1 else f"{c}*") + v)
        if self.const or not parts:
            parts.append(str(self.const))
        return "+".join(parts).replace("+-", "-")


class Cmp:
    __slots__ = ("op", "a", "b")

    def __init__(self, op, a, b):
        self.op, self.a, self.b = op, a, b

    def eval(self, env):
        a, b = self.a.eval(env), self.b.eval(env)
        return {"Lt": a < b, "Le": a <= b, "Gt": a > b, "Ge": a >= b, "Eq": a == b, "Ne": a != b}[self.op]

    def key(self):
        return (self.op, self.a.key(), self.b.key())

    def __repr__(self):
        sym = {"Lt": "<", "Le": "<=", "Gt": ">", "Ge": ">=", "Eq": "==", "Ne": "!="}[self.op]
        return f"{self.a!r}{sym}{self.b!r}"


class IsSome:
    __slots__ = ("name",)

    def __init__(self, name):
        self.name = name

    def eval(self, env):
        return env[("some", self.name)]

    def key(self):
        return ("is_some", self.name)

    def __repr__(self):
        return f"is_some({self.name})"


class Opaque:
    __slots__ = ("what",)

    def __init__(self, what):
        self.what = what

    def __repr__(self):
        return f"?{self.what}"


class Path:
    def __init__(self):
        self.conds = []  # (atom, truth)
        self.blocks = []
        self.obligations = []  # (kind, detail, block)
        self.leaf = None  # ("return", value) | ("loop", block, env) | ("diverge", block)
        self.env = None


class SymWalker:
    def __init__(self, body, param_names=None, call_model=None, max_paths=400):
        self.b = body
        self.cyc_blocks = set()
        for c in cfg_cycles(body):
            self.cyc_blocks |= set(c)
        self.names = {}
        for d in body.j["debug"]:
            p = d.get("place")
            if p and not p["p"] and 1 <= p["l"] <= body.arg_count:
                self.names[p["l"]] = d["name"]
        if param_names:
            self.names.update(param_names)
        self.call_model = call_model or (lambda t, args: None)
        self.max_paths = max_paths
        self.paths = []

    # ---- values ----------------------------------------------------------------------
    def init_env(self):
        env = {}
        for i in range(1, self.b.arg_count + 1):
            nm = self.names.get(i, f"arg{i}")
            ty = self.b.local_ty(i)
            if ty.startswith("std::option::Option<"):
                env[i] = ("option", nm)
            else:
                env[i] = Aff.var(nm)
        return env

    def place_val(self, env, pl):
        v = env.get(pl["l"])
        proj = pl["p"]
        pending = None
        for e in proj:
            if e == "deref":
                continue
            if isinstance(e, dict) and "dc" in e:
                pending = e["name"]
                continue
            if isinstance(e, dict) and "f" in e:
                if isinstance(v, tuple) and v and v[0] == "option" and pending == "Some":
                    v = Aff.var(v[1])
                elif isinstance(v, tuple) and v and v[0] == "ovf":
                    v = v[1] if e["f"] == 0 else ("ovfflag",) + v[2:]
                elif isinstance(v, tuple) and v and v[0] == "optval" and pending == "Some":
                    v = v[1]
                elif isinstance(v, tuple) and v and v[0] == "tuple" and pending is None and e["f"] < len(v[1]):
                    v = v[1][e["f"]]
                else:
                    v = Opaque(f"field{e['f']}")
                pending = None
                continue
            v = Opaque("proj")
        return v

    def op_val(self, env, op):
        k = op.get("k")
        if k in ("copy", "move"):
            return self.place_val(env, op)
        if k == "const":
            if "int" in op:
                return Aff.k(op["int"])
            return Opaque("const")
        return Opaque("op")

    def rv_val(self, env, rv, blk):
        k = rv["k"]
        if k == "use":
            return self.op_val(env, rv["op"])
        if k == "binop":
            a, b = self.op_val(env, rv["a"]), self.op_val(env, rv["b"])
            op = rv["op"]
            if isinstance(a, Aff) and isinstance(b, Aff):
                if op in ("Add", "AddUnchecked"):
                    return a + b
                if op in ("Sub", "SubUnchecked"):
                    return a - b
                if op == "AddWithOverflow":
                    return ("ovf", a + b, "Add", a, b)
                if op == "SubWithOverflow":
                    return ("ovf", a - b, "Sub", a, b)
                if op in ("Lt", "Le", "Gt", "Ge", "Eq", "Ne"):
                    return Cmp(op, a, b)
            return Opaque(op)
        if k == "unop":
            a = self.op_val(env, rv["a"])
            if rv["op"] == "Neg" and isinstance(a, Aff):
                return a.neg()
            if rv["op"] == "Not" and isinstance(a, Cmp):
                inv = {"Lt": "Ge", "Le": "Gt", "Gt": "Le", "Ge": "Lt", "Eq": "Ne", "Ne": "Eq"}
                return Cmp(inv[a.op], a.a, a.b)
            if rv["op"] == "PtrMetadata":
                base = rv["a"]
                nm = self.names.get(base.get("l"))
                if nm is None:
                    # a copy of a named parameter (the array handed on to an inlined helper)
                    v = env.get(base.get("l"))
                    if isinstance(v, Aff) and len(v.terms) == 1 and v.const == 0 and list(v.terms.values()) == [1]:
                        nm = next(iter(v.terms))
                return Aff.var(f"len({nm or 'slice'})")
            return Opaque(rv["op"])
        if k == "discr":
            v = self.place_val(env, rv["place"])
            if isinstance(v, tuple) and v and v[0] == "option":
                return ("discr-option", v[1])
            if isinstance(v, tuple) and v and v[0] == "optval":
                return ("discr-optval", v)
            return Opaque("discr")
        if k == "cast":
            v = self.op_val(env, rv["op"])
            if isinstance(v, Aff) and "IntToInt" in rv["ck"]:
                return ("cast", v, rv["from"], rv["to"])
            return Opaque("cast")
        if k == "ref":
            return self.place_val(env, rv["place"])
        if k == "agg" and rv.get("ak") in ("tuple", "closure"):
            # a tuple built and taken apart again (e.g. the (start, stop) pair returned by an inlined helper)
            return ("tuple", tuple(self.op_val(env, o) for o in rv["ops"]))
        return Opaque(k)

    # ---- exploration ---------------------------------------------------------------------
    def run(self, start=0, stop_at_loops=True):
        self.paths = []
        self._go(start, self.init_env(), Path(), stop_at_loops)
        return self.paths

    def _finish(self, path, leaf, env):
        path.leaf = leaf
        path.env = env
        self.paths.append(path)
        if len(self.paths) > self.max_paths:
            raise RuntimeError("too many paths")

    def _clone(self, path):
        p = Path()
        p.conds = list(path.conds)
        p.blocks = list(path.blocks)
        p.obligations = list(path.obligations)
        return p

    def _go(self, blk, env, path, stop_at_loops):
        while True:
            if stop_at_loops and blk in self.cyc_blocks:
                self._finish(path, ("loop", blk), env)
                return
            if path.blocks.count(blk) > 0 and not stop_at_loops:
                self._finish(path, ("revisit", blk), env)
                return
            path.blocks.append(blk)
            bl = self.b.blocks[blk]
            for s in bl["stmts"]:
                if s["k"] != "assign":
                    continue
                pl = s["place"]
                val = self.rv_val(env, s["rv"], blk)
                if not pl["p"]:
                    env = dict(env)
                    env[pl["l"]] = val
            t = bl["term"]
            k = t["k"]
            if k == "return":
                self._finish(path, ("return", env.get(0)), env)
                return
            if k == "goto":
                blk = t["t"]
                continue
            if k == "assert":
                c = self.op_val(env, t["cond"])
                path.obligations.append((t["msg"], [self.op_val(env, o) for o in t["msg_ops"]], blk))
                blk = t["t"]
                continue
            if k == "call":
                args = [self.op_val(env, a) for a in t["args"]]
                val = self.call_model(t, args)
                if val is None and t["callee"] in ("std::cmp::max", "std::cmp::min", "std::cmp::Ord::max", "std::cmp::Ord::min") and \
                        len(args) == 2 and all(isinstance(a, Aff) for a in args) and t["t"] is not None and not t["dest"]["p"]:
                    # max(a, b) / min(a, b) of two affine values: a case split on their order (piecewise affine)
                    is_max = t["callee"].endswith("max")
                    c = Cmp("Ge" if is_max else "Le", args[0], args[1])
                    p2 = self._clone(path)
                    p2.conds.append((c, False))
                    env2 = dict(env)
                    env2[t["dest"]["l"]] = args[1]
                    self._go(t["t"], env2, p2, stop_at_loops)
                    path.conds.append((c, True))
                    val = args[0]
                if val is None:
                    val = Opaque(t["callee"].split("::")[-1])
                env = dict(env)
                if not t["dest"]["p"]:
                    env[t["dest"]["l"]] = val
                if t["t"] is None:
                    self._finish(path, ("diverge", blk), env)
                    return
                blk = t["t"]
                continue
            if k == "drop":
                blk = t["t"]
                continue
            if k == "switch":
                d = self.op_val(env, t["discr"])
                if isinstance(d, Cmp):
                    tt = ft = t["otherwise"]
                    for v, tgt in t["targets"]:
                        if v == 0:
                            ft = tgt
                        elif v == 1:
                            tt = tgt
                    p2 = self._clone(path)
                    p2.conds.append((d, False))
                    self._go(ft, env, p2, stop_at_loops)
                    path.conds.append((d, True))
                    blk = tt
                    continue
                if isinstance(d, tuple) and d and d[0] == "discr-option":
                    some_t = none_t = t["otherwise"]
                    for v, tgt in t["targets"]:
                        if v == 1:
                            some_t = tgt
                        elif v == 0:
                            none_t = tgt
                    atom = IsSome(d[1])
                    p2 = self._clone(path)
                    p2.conds.append((atom, False))
                    self._go(none_t, env, p2, stop_at_loops)
                    path.conds.append((atom, True))
                    blk = some_t
                    continue
                if isinstance(d, tuple) and d and d[0] == "discr-optval":
                    # Option produced by a modelled call (e.g. checked_add): fork, remember which
                    some_t = none_t = t["otherwise"]
                    for v, tgt in t["targets"]:
                        if v == 1:
                            some_t = tgt
                        elif v == 0:
                            none_t = tgt
                    atom = ("optval-some", repr(d[1]))
                    p2 = self._clone(path)
                    p2.conds.append((atom, False))
                    self._go(none_t, env, p2, stop_at_loops)
                    path.conds.append((atom, True))
                    blk = some_t
                    continue
                # opaque: explore every target
                tgts = []
                for v, tgt in t["targets"]:
                    tgts.append((v, tgt))
                tgts.append(("otherwise", t["otherwise"]))
                seen = set()
                for v, tgt in tgts[:-1]:
                    if tgt in seen:
                        continue
                    seen.add(tgt)
                    p2 = self._clone(path)
                    p2.conds.append((("opaque", blk, v), True))
                    self._go(tgt, env, p2, stop_at_loops)
                if t["otherwise"] in seen:
                    return
                path.conds.append((("opaque", blk, "otherwise"), True))
                blk = t["otherwise"]
                continue
            self._finish(path, ("other", blk), env)
            return


def holds(conds, env):
    """All evaluable path conditions hold under env (opaque atoms are ignored)."""
    for atom, truth in conds:
        if isinstance(atom, (Cmp, IsSome)):
            try:
                if bool(atom.eval(env)) != truth:
                    return False
            except KeyError:
                return None
    return True
