"""C10 — equality and ordering operators obey their algebraic contract (structural clauses)."""
import re

from ..analysis import Branches, CallGraph, Origins, fmt_terms
from ..decision import Undecided, Walker
from ..interp import Interp, NODE
from ..leaf import KINDS, VIEW_KIND, check_accessors, kind_walker

fs = frozenset
V = "variable::Variable"
CMPS = ["Equal", "NotEqual", "LessThan", "LessThanEqual", "GreaterThan", "GreaterThanEqual"]
OP_CALL = {
    "Equal": "std::cmp::PartialEq::eq", "NotEqual": "std::cmp::PartialEq::ne", "LessThan": "std::cmp::PartialOrd::lt",
    "LessThanEqual": "std::cmp::PartialOrd::le", "GreaterThan": "std::cmp::PartialOrd::gt", "GreaterThanEqual": "std::cmp::PartialOrd::ge",
}

EXPLANATION = (
    "Decided: (1) the operator gate — Variable::compare is walked under all 24 combinations of (is_number(left), "
    "is_number(right), comparator): an ordering comparator yields None unless both operands are numbers, otherwise "
    "Some(left <op> right) with exactly the like-named operator applied to (left, right) in that order; '==' yields "
    "Some(PartialEq::eq), '!=' Some(PartialEq::ne); (2) the evaluator maps None -> null, Some(b) -> Bool(b); (3) '==' is "
    "the type-gated structural equality: impl PartialEq for Variable defines only `eq` (so `ne` is its negation), which is "
    "walked under every kind pair class: different get_type -> false, same kind -> comparison of the same-kind payloads "
    "(numbers via float_eq of both as f64; strings/bools/arrays/objects via the payload's own equality; null == null); "
    "(4) the internal total order (which treats values of different types as Equal) does not leak: every call whose "
    "instantiated trait obligations put Ord/PartialOrd on a type mentioning Variable may occur only in compare's ordering "
    "arms, sort, sort_by's comparator, min/max and min_by/max_by. (5) numbers are equal by numeric value: the helper behind == on two numbers is enumerated path by path — exact equality gives true, and it is widened only by a rounding-noise tolerance (absolute tolerance below the smallest normal double, relative tolerance at most 2^-40), its decision tree is invariant under exchanging the operands (symmetry) and maps a == a to true (reflexivity). Not decided: the rounding behaviour of the floating-point operations themselves and trichotomy inside the tolerance band (value semantics)."
)
ASSUMPTIONS = [
    "Vec / BTreeMap / String / bool equality are element-wise / key+value / code-point / value equality (std)",
    "'well-separated numbers' is read as: relative distance above 2^-40 for normal doubles, absolute distance of at least the smallest normal double near zero",
    "JSON numbers are finite (no NaN), so a == a holds for the exact-equality test",
]


def promoted_variant(lib, b, idx, adt):
    pb = lib.promoted(b.deff, idx)
    if pb is None:
        return None
    for _, _, s in pb.stmts(reachable_only=False):
        if s["k"] == "assign" and s["rv"]["k"] == "agg" and s["rv"].get("adt") == adt:
            return s["rv"]["variant"]
    return None


def run(ctx):
    lib = ctx.lib()
    ctx.attempt("check_gate", check_gate, ctx, lib)
    ctx.attempt("check_mapping", check_mapping, ctx, lib)
    ctx.attempt("check_equality", check_equality, ctx, lib)
    ctx.attempt("check_number_equality", check_number_equality, ctx, lib)
    ctx.attempt("check_order_confined", check_order_confined, ctx, lib)
    # the ordering operators are the PartialOrd methods of Variable, which delegate to Ord::cmp: its table (numbers by
    # partial_cmp of the two values, so that -0 and 0 are neither < nor >) is part of what `<` means
    from .c02 import check_internal_order
    ctx.attempt("check_internal_order", check_internal_order, ctx, lib)
    # the numbers being compared are what the JSON parse made of the literal / document text (visitor rows shared with C08):
    # an integer that wraps or turns into a double on the way in compares wrongly however exact the comparison is
    from .c08 import check_visitor
    ctx.attempt("check_visitor", check_visitor, ctx, lib)
    n = check_accessors(ctx, lib, "accessor-table")
    ctx.floor("accessor-table", n, 100, "accessor decision paths walked")


def check_gate(ctx, lib):
    rule = "operator-gate"
    b = ctx.fn("variable::Variable::compare", rule=rule)
    if b is None:
        return
    o = Origins(b, lib)
    n = 0
    for ln in (0, 1):
        for rn in (0, 1):
            for cmp_ in CMPS:
                def atom(t, cmp_=cmp_):
                    if t == ("discr", ("param", 2)):
                        return cmp_
                    return None

                def call(t, argvals, ln=ln, rn=rn, cmp_=cmp_):
                    if t[1] == "variable::Variable::is_number":
                        if t[2][0] == fs({("param", 1)}):
                            return ln
                        if t[2][0] == fs({("param", 3)}):
                            return rn
                    if t[1] in ("std::cmp::PartialEq::eq", "std::cmp::PartialEq::ne") and t[2][0] == fs({("param", 2)}):
                        vs = {promoted_variant(lib, b, x[1], "ast::Comparator") for x in t[2][1] if x[0] == "promoted"}
                        if len(vs) == 1 and None not in vs:
                            r = int(next(iter(vs)) == cmp_)
                            return r if t[1].endswith("::eq") else 1 - r
                    return None

                w = Walker(b, o, atom=atom, call=call)
                try:
                    paths = w.walk()
                except Undecided as e:
                    ctx.bad(rule, f"{ln}{rn}{cmp_}", f"compare undecidable: {e}", b.span)
                    continue
                outs = set()
                for path, leaf in paths:
                    for t in w.result_on_path(path):
                        if t == ("agg", "std::option::Option::None", (), ()):
                            outs.add("None")
                        elif t[0] == "agg" and t[1] == "std::option::Option::Some":
                            for c in t[2][0]:
                                if c[0] == "call" and c[2][:2] == (fs({("param", 1)}), fs({("param", 3)})):
                                    outs.add("Some:" + c[1])
                                else:
                                    outs.add("Some:?" + fmt_terms([c]))
                        else:
                            outs.add("?" + fmt_terms([t]))
                ordering = cmp_ not in ("Equal", "NotEqual")
                want = {"None"} if (ordering and not (ln and rn)) else {"Some:" + OP_CALL[cmp_]}
                n += 1
                ctx.check(outs == want, rule, f"{cmp_}/left-number={bool(ln)}/right-number={bool(rn)}",
                          f"compare({'number' if ln else 'non-number'} {cmp_} {'number' if rn else 'non-number'}) = {sorted(want)} (found {sorted(outs)})", b.span)
    ctx.floor(rule, n, 24, "(comparator, operand kinds) cases walked")


def check_mapping(ctx, lib):
    rule = "result-mapping"
    ip = Interp(lib)
    if not ip.ok or "Comparison" not in ip.arms:
        ctx.missing(rule, "Comparison", "interpret arm for Comparison")
        return
    arm = ip.arms["Comparison"]
    from ..interp import comparison_mapping_ok
    ok = comparison_mapping_ok(ip, arm)
    ctx.check(ok, rule, "Comparison", "a comparison evaluates to compare(left, op, right): None -> null, Some(b) -> Bool(b), left/right in source order", ip.b.span)


def check_equality(ctx, lib):
    rule = "equality"
    impls = [i for i in lib.impls if i.get("trait") == "std::cmp::PartialEq" and i["self_ty"] == V]
    ok = len(impls) == 1 and impls[0]["items"] == ["eq"] and not impls[0]["auto_derived"]
    ctx.check(ok, rule, "ne-is-not-eq", f"impl PartialEq for Variable defines only `eq`, so `!=` is exactly its negation (items: {[i['items'] for i in impls]})")
    from ..leaf import check_kind_equality
    check_kind_equality(ctx, lib, rule)
    b = ctx.fn("<variable::Variable as std::cmp::PartialEq>::eq", rule=rule)
    if b is None:
        return
    n = 0
    from ..leaf import is_payload, pair_walker
    # every pair of kinds (49 cases): how the kinds are inspected does not matter (get_type comparison + accessors, or a match on
    # the pair of variants)
    for k in KINDS:
        for k2 in KINDS:
            w = pair_walker(b, lib, k, k2)
            try:
                paths = w.walk()
            except Undecided as e:
                ctx.bad(rule, f"{k}/{k2}", f"eq undecidable: {e}", b.span)
                continue
            outs = set()
            for path, leaf in paths:
                for t in w.result_on_path(path):
                    outs.add(classify_eq(t, k))
            n += 1
            if k != k2:
                want = [{"false"}]
            elif k == "Null":
                want = [{"true"}]
            elif k == "Number":
                want = [{"float_eq(self as f64, other as f64)", "false"}, {"float_eq(self as f64, other as f64)"}]
            else:
                want = [{"payload == other's same-kind payload"}]
            if k == k2:
                ctx.check(outs in want, rule, f"{k}/same-type", f"{k} == {k}: {sorted(outs)} (specified {sorted(want[0])})", b.span)
            elif outs not in want:
                ctx.bad(rule, f"{k}/different-type", f"{k} == {k2} (different types): {sorted(outs)} (specified ['false'])", b.span)
        ctx.check(True, rule, f"{k}/different-type-cases", f"{k} against the six other kinds walked")
    ctx.floor(rule, n, 49, "(kind, kind) cases walked")


def classify_eq(t, k):
    from ..leaf import is_payload
    if t == ("const", 0):
        return "false"
    if t == ("const", 1):
        return "true"
    if t[0] == "call" and t[1] == "variable::float_eq" and len(t[2]) == 2:
        a, b2 = set(t[2][0]), set(t[2][1])
        if a and b2 and all(is_payload(x, 1, "Number") for x in a) and all(is_payload(x, 2, "Number") for x in b2):
            return "float_eq(self as f64, other as f64)"
    if t[0] == "call" and t[1] == "std::cmp::PartialEq::eq" and len(t[2]) == 2:
        a, b2 = set(t[2][0]), set(t[2][1])
        if a and b2 and all(is_payload(x, 1, k) for x in a) and all(is_payload(x, 2, k) for x in b2):
            return "payload == other's same-kind payload"
    return "?" + fmt_terms([t])


ORDER_TRAITS = {"std::cmp::Ord", "std::cmp::PartialOrd"}


def uses_order(t):
    """The call places an Ord/PartialOrd obligation on a type mentioning Variable, or is itself
    a method of Variable's Ord/PartialOrd impls."""
    res = t.get("resolved") or ""
    if re.match(r"^<variable::Variable as std::cmp::(Ord|PartialOrd)>::", res):
        return True
    for self_ty, tr in t.get("obligations", []) + t.get("resolved_obligations", []):
        if tr in ORDER_TRAITS and "variable::Variable" in self_ty:
            return True
    return False


def check_order_confined(ctx, lib):
    rule = "order-confined"
    allowed = {
        "variable::Variable::compare": "behind the number gate (ordering arms)",
        "<functions::SortFn as functions::Function>::evaluate": "sort: argument validated homogeneous",
        "<functions::SortByFn as functions::Function>::evaluate": "sort_by comparator on type-checked keys",
        "<functions::MaxFn as functions::Function>::evaluate": "max: argument validated homogeneous",
        "<functions::MinFn as functions::Function>::evaluate": "min: argument validated homogeneous",
        "<functions::MaxByFn as functions::Function>::evaluate": "max_by on type-checked keys",
        "<functions::MinByFn as functions::Function>::evaluate": "min_by on type-checked keys",
        "<variable::Variable as std::cmp::PartialOrd>::partial_cmp": "the order's own definition",
        "<variable::Variable as std::cmp::PartialOrd>::lt": "the order's own definition",
        "<variable::Variable as std::cmp::PartialOrd>::le": "the order's own definition",
        "<variable::Variable as std::cmp::PartialOrd>::gt": "the order's own definition",
        "<variable::Variable as std::cmp::PartialOrd>::ge": "the order's own definition",
    }
    seen = {}
    ncalls = 0
    # (helpers inlined into their callers are analysed there; their closures belong to those callers)
    for b in lib.fn_bodies():
        for bb, t in b.calls():
            ncalls += 1
            if uses_order(t):
                seen.setdefault(b.deff, []).append((t["callee"], t["span"]["s"], b))
    for d, sites in sorted(seen.items()):
        own = lib.owners(sites[0][2])
        ok = bool(own) and own <= set(allowed)
        why = "; ".join(sorted({allowed[x] for x in own if x in allowed}))
        ctx.check(ok, rule, d, f"{d} (part of {sorted(own)}) uses the internal total order of Variable ({sorted({c for c, _, _ in sites})}) — " +
                  (why if ok else "not an allowed caller: values of different types would compare Equal"), sites[0][1])
    ctx.check("variable::Variable::compare" in seen, rule, "compare-uses-order", "the ordering operators are implemented through the order inside compare (behind the gate)")
    ctx.floor(rule, len(seen), 8, "bodies using the internal order")
    ctx.analysed["calls_inspected_for_order_use"] = ncalls
    # interpret itself never uses the order or equality directly
    ip = lib.fn("interpreter::interpret")
    if ip is not None:
        direct = [t["callee"] for bb, t in ip.calls() if re.match(r"^std::cmp::(PartialEq|PartialOrd|Ord)::", t["callee"]) and
                  any("variable::Variable" in a for a in t.get("callee_args", []))]
        ctx.check(not direct, rule, "interpret-delegates", f"the evaluator compares values only through Variable::compare (direct comparisons: {direct})", ip.span)


# ---------------------------------------------------------------------------
MIN_POSITIVE = 2.2250738585072014e-308
REL_BOUND = 2.0 ** -40


def check_number_equality(ctx, lib, rule="number-equality"):
    """Numbers are equal 'by numeric value': the helper behind `==` on two numbers is exact equality
    widened by at most a rounding-noise tolerance. Its paths are enumerated symbolically; each result must be
    true under a == b, a comparison `distance < t`, or false, where an absolute tolerance may not reach the
    smallest normal double (so zero never equals a non-zero normal number) and a relative tolerance may not
    exceed 2^-40 (so numbers that differ visibly are ordered, not equal). The path set must be invariant under
    exchanging the operands (symmetry) and map a == b to true (reflexivity)."""
    from .. import floatpaths as FP
    b = ctx.fn("variable::float_eq", rule=rule)
    if b is None:
        return
    try:
        paths = FP.enumerate_paths(b)
    except FP.Undecided as e:
        ctx.bad(rule, "paths", f"number-equality helper not decidable: {e}", b.span)
        return
    ctx.check(bool(paths), rule, "paths", f"{len(paths)} paths of the number-equality helper enumerated", b.span)
    A, B = ("param", 1), ("param", 2)
    exact = FP.canon(("bin", "Eq", A, B))
    dist = FP.canon(("abs", ("bin", "Sub", A, B)))
    scales = {FP.canon(x) for x in (
        ("bin", "Add", ("abs", A), ("abs", B)), ("max", ("abs", A), ("abs", B)), ("min", ("abs", A), ("abs", B)))}
    # symmetry
    # (as a decision function over its tests, not as a set of paths: `p(a) || p(b)` short-circuits asymmetrically)
    import itertools
    atoms = sorted({c for conds, _ in paths for c, _ in conds} | {FP.canon(FP.swap(c)) for conds, _ in paths for c, _ in conds}, key=repr)
    asym = []
    if len(atoms) > 10:
        ctx.bad(rule, "symmetric", f"too many distinct tests ({len(atoms)}) to decide symmetry", b.span)
    else:
        def decide(sigma):
            hit = [res for conds, res in paths if all(sigma[c] == v for c, v in conds)]
            return hit[0] if len(hit) == 1 else None
        for vals in itertools.product((False, True), repeat=len(atoms)):
            sigma = dict(zip(atoms, vals))
            sigma2 = {c: sigma[FP.canon(FP.swap(c))] for c in atoms}
            r1, r2 = decide(sigma), decide(sigma2)
            if r1 is None or r2 is None:
                asym.append("paths are not exclusive and exhaustive")
                break
            if FP.canon(FP.swap(r2)) != r1:
                asym.append(f"{FP.fmt(r1)} vs {FP.fmt(FP.canon(FP.swap(r2)))}")
                break
        ctx.check(not asym, rule, "symmetric",
                  f"the helper's decision function is invariant under exchanging its operands (== is symmetric on numbers){': ' + asym[0] if asym else ''}", b.span)
    # reflexivity + tolerance forms
    refl = True
    n_abs = n_rel = 0
    for conds, res in paths:
        cd = dict(conds)
        where = " and ".join(("" if v else "not ") + FP.fmt(c) for c, v in sorted(conds, key=repr)) or "always"
        if cd.get(exact) is True:
            ok = res == ("const", 1) or res == ("const", True) or res == ("const", "true")
            refl = refl and ok
            ctx.check(ok, rule, "exact-equal-is-equal", f"a == b gives true ({FP.fmt(res)})", b.span)
            continue
        if res[0] == "const":
            truthy = res[1] in (1, True, "true")
            ctx.check(not truthy, rule, f"constant-true:{where[:60]}", f"[{where}] the helper answers `true` without comparing the operands", b.span)
            if exact not in cd:
                refl = False
            continue
        if res == exact:
            continue
        form = None
        if res[0] == "bin" and res[1] in ("Lt", "Le") and res[3][0] == "const" and isinstance(res[3][1], float):
            lhs, t = res[2], res[3][1]
            if lhs == dist:
                form = ("absolute", t)
            elif lhs[0] == "bin" and lhs[1] == "Div" and lhs[2] == dist and lhs[3] in scales:
                form = ("relative", t)
        elif res[0] == "bin" and res[1] in ("Lt", "Le") and res[2] == dist and res[3][0] == "bin" and res[3][1] == "Mul":
            x, y = res[3][2], res[3][3]
            for c, sc in ((x, y), (y, x)):
                if c[0] == "const" and isinstance(c[1], float) and sc in scales:
                    form = ("relative", c[1])
        if form is None:
            ctx.bad(rule, f"tolerance-form:{where[:60]}", f"[{where}] result {FP.fmt(res)} is neither exact equality nor a recognised `distance < tolerance` test", b.span)
            refl = False
            continue
        kind, t = form
        if exact not in cd and not t > 0:
            refl = False
        if kind == "absolute":
            n_abs += 1
            ctx.check(0 <= t <= MIN_POSITIVE, rule, "absolute-tolerance",
                      f"[{where}] |a - b| < {t!r}: an absolute tolerance stays below the smallest normal double {MIN_POSITIVE!r}, so 0 equals no non-zero normal number", b.span)
        else:
            n_rel += 1
            ctx.check(0 <= t <= REL_BOUND, rule, "relative-tolerance",
                      f"[{where}] relative distance < {t!r}: at most 2^-40, so numbers that differ beyond rounding noise are never equal", b.span)
    ctx.check(refl, rule, "reflexive", "a == a is true on every path (exact equality is tested first, or the tolerance is positive)", b.span)
    ctx.analysed["number_equality_paths"] = len(paths)
