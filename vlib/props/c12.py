"""C12 — errors are classified and located truthfully (structural clauses)."""
import re

from .. import builtins as B
from .. import rettags as RT
from ..analysis import strip_through
from ..analysis import (Branches, CallGraph, Origins, blocks_separate, cfg_cycles, edge_dominates, fmt_terms,
                        reach_avoiding, term_mentions)
from ..build import read_manifests
from ..charclass import CharFlow, ISet
from ..effects import _is_ctx_field, reachable_bodies
from ..interp import CTX, DATA, INTERP, NODE, Interp
from ..parsing import AST, P, TOKEN, first_discr_switch, region_aggs

fs = frozenset
L = "lexer::Lexer::<'a>::"
NEW = "errors::JmespathError::new"
FROM_CTX = "errors::JmespathError::from_ctx"

EXPLANATION = (
    "Decided: (1) classification — every error built in the lexer/parser is JmespathError::new(self.expr, position, "
    "Parse(..)) with the expression text flowing from compile's argument; every error built under the evaluator is "
    "from_ctx(ctx, Runtime(..)), or a JmespathError::new(\"\", 0, Parse(..)) in an ok_or_else that is dead because the option "
    "is provably Some (accessor matching the validated parameter kind; Number::as_f64 without arbitrary_precision; "
    "from_f64 of a value that is finite by a small finiteness analysis) — live ones are reported; (2) offset typestate — "
    "Context.offset is written only by the evaluator; in the Function arm the store of the call's offset follows argument "
    "evaluation and dominates lookup, invocation and the unknown-function error, and the caller's offset (saved before) is "
    "restored on every path from the invocation's return, so by induction every error a function raises after evaluating "
    "nested calls carries its own call's offset; the Slice arm stores before raising; (3) offset provenance — token "
    "positions are char_indices() indices or expr.len(), Parser.offset / Ast offsets / Context.offset derive only from "
    "those (or 0), Function.offset is the position of the consumed '(': all byte positions on character boundaries; "
    "(4) units — JmespathError::new counts characters whose byte index (char_indices) is below the byte offset; no "
    "Chars-iterator take/skip/nth is fed a byte quantity; newline resets the column and bumps the line; (5) rendering — the message is one "
    "write of reason, line, column and the location block; the location block gets exactly one caret line (`column` blanks "
    "and a '^'): inside the scan only on the newline whose running count equals line + 1 (an equality on a counter bumped "
    "before each test), otherwise once after the scan, the two linked by a flag set exactly where the inner caret is placed."
)
ASSUMPTIONS = [
    "serde_json::Number::as_f64 is Some for every Number when arbitrary_precision is off (checked in the manifest)",
    "conversion failures of non-JSON-representable input data are outside the property ('on convertible data')",
]


def run(ctx):
    lib = ctx.lib()
    ctx.attempt("check_parse_side", check_parse_side, ctx, lib)
    ctx.attempt("check_runtime_side", check_runtime_side, ctx, lib)
    ctx.attempt("check_offset_typestate", check_offset_typestate, ctx, lib)
    ctx.attempt("check_offset_provenance", check_offset_provenance, ctx, lib)
    ctx.attempt("check_units", check_units, ctx, lib)
    ctx.attempt("check_rendering", check_rendering, ctx, lib)
    # the dead-ness of the builtins' fabricated Parse errors (classification rule) rests on the validator having
    # checked every argument against its declared kind: the arity / per-position / kind-predicate rows (shared with C06)
    from . import c06
    for name in ("check_arity", "check_positions", "check_is_valid"):
        ctx.attempt(name, getattr(c06, name), ctx, lib)
    # a runtime error is located in the text the Expression carries, with offsets counted by the parser in the text it was given:
    # the two are the same string only if compile / Expression::new / Clone keep the text untouched (shared with C13)
    from ..effects import check_same_triple
    ctx.attempt("check_same_triple", check_same_triple, ctx, lib, "located-in-parsed-text")


# =============================================================================================
def check_parse_side(ctx, lib):
    rule = "parse-classification"
    n = 0
    for b in lib.fn_bodies():
        if not (b.deff.startswith("lexer::") or b.deff.startswith("parser::")):
            continue
        o = Origins(b, lib)
        for bb, t in b.calls():
            if t["callee"] == FROM_CTX:
                ctx.bad(rule, f"{b.deff}:from_ctx", f"{b.deff} builds a runtime error while compiling", t["span"]["s"])
            if t["callee"] != NEW:
                continue
            n += 1
            e = o.of_operand(t["args"][0])
            r = o.of_operand(t["args"][2])
            # expression text: self.expr (possibly captured by a closure)
            def is_expr(x):
                if x[0] == "field" and x[2] == "expr":
                    return True
                if x[0] == "field" and x[1] == ("closure_env",):
                    return True
                if x[0] == "field" and x[1][0] == "field" and x[1][1] == ("closure_env",) and x[2] == "expr":
                    return True
                return False
            e_ok = bool(e) and all(is_expr(x) for x in e)
            r_ok = bool(r) and all(x[0] == "agg" and x[1] == "errors::ErrorReason::Parse" for x in r)
            ctx.check(e_ok and r_ok, rule, f"{b.deff}@{ordinal(b, bb, NEW)}", f"{b.deff}: JmespathError::new(self.expr, pos, Parse(..)) (expr: {fmt_terms(e)[:60]}; reason: {'Parse' if r_ok else fmt_terms(r)[:60]})", t["span"]["s"])
        for bb, i, s in b.stmts():
            if s["k"] == "assign" and s["rv"]["k"] == "agg" and s["rv"].get("adt") == "errors::JmespathError":
                ctx.bad(rule, f"{b.deff}:raw-aggregate", f"{b.deff} builds a JmespathError without going through JmespathError::new (line/column would not be computed)", s["span"]["s"])
    ctx.floor(rule, n, 8, "error construction sites in lexer + parser")
    # closures capturing self: captured field is self (then .expr) — check Lexer/Parser .expr come from the argument
    for fn, adt in ((L + "new", "lexer::Lexer"), (P + "new", "parser::Parser")):
        b = ctx.fn(fn, rule=rule)
        if b is None:
            continue
        o = Origins(b, lib)
        aggs = [s for _, _, s in b.stmts() if s["k"] == "assign" and s["rv"]["k"] == "agg" and s["rv"].get("adt") == adt]
        ok = len(aggs) == 1
        if ok:
            vals = dict(zip(aggs[0]["rv"]["fnames"], (o.of_operand(x) for x in aggs[0]["rv"]["ops"])))
            ok = vals["expr"] == {("param", b.arg_count)}
        ctx.check(ok, rule, f"{adt}.expr", f"{adt}.expr is the expression string handed to the constructor", b.span)
    pf = ctx.fn("parser::parse", rule=rule)
    if pf is not None:
        o = Origins(pf, lib)
        tk = [t for _, t in pf.calls() if t["callee"] == "lexer::tokenize"]
        pn = [t for _, t in pf.calls() if t["callee"] == P + "new"]
        ok = len(tk) == 1 and len(pn) == 1 and o.of_operand(tk[0]["args"][0]) == {("param", 1)} and o.of_operand(pn[0]["args"][1]) == {("param", 1)}
        ctx.check(ok, rule, "parse-threads-expr", "parse(expr) hands the same string to the lexer and the parser", pf.span)
    tz = ctx.fn("lexer::tokenize", rule=rule)
    if tz is not None:
        o = Origins(tz, lib)
        ln = [t for _, t in tz.calls() if t["callee"] == L + "new"]
        ctx.check(len(ln) == 1 and o.of_operand(ln[0]["args"][0]) == {("param", 1)}, rule, "tokenize-threads-expr", "tokenize(expr) builds the lexer over that string", tz.span)
    # Runtime::compile: errors of parse are returned unchanged (map on Ok only)
    rc = ctx.fn("runtime::Runtime::compile", rule=rule)
    if rc is not None:
        # whatever the spelling (map, `?`, match): an Err result is parse's own result / error payload, nothing else builds an error
        o = Origins(rc, lib)
        pcs = [t for _, t in rc.calls() if t["callee"] == "parser::parse"]
        ok = len(pcs) == 1 and o.of_operand(pcs[0]["args"][0]) == {("param", 2)}

        def from_parse(t):
            t = strip_through(t)
            return t[0] == "call" and t[1] == "parser::parse"

        for t in o.of_local(0):
            if from_parse(t):
                continue
            if t[0] == "agg" and t[1] == "std::result::Result::Ok":
                continue
            if t[0] == "agg" and t[1] == "std::result::Result::Err" and len(t[2]) == 1 and t[2][0] and all(from_parse(x) for x in t[2][0]):
                continue
            ok = False
        builds = [t["callee"] for _, t in rc.calls() if "JmespathError" in t["callee"]] + \
            [s["rv"]["adt"] for _, _, s in rc.stmts() if s["k"] == "assign" and s["rv"]["k"] == "agg" and "JmespathError" in str(s["rv"].get("adt"))]
        ctx.check(ok and not builds, rule, "compile-returns-parse-error", f"compile returns parse's error unchanged (result {fmt_terms(o.of_local(0))[:120]})", rc.span)


def ordinal(b, blk, callee):
    n = 0
    for bb, t in b.calls():
        if t["callee"] == callee:
            n += 1
            if bb == blk:
                return n
    return 0


# =============================================================================================
def finite(term, depth=0):
    """Finiteness qualifier of an f64 origin term: True = provably finite."""
    if depth > 6:
        return False
    h = term[0]
    if h == "view" and term[1] == "number":
        return True  # Number::as_f64 of a stored JSON number
    if h == "call":
        name = term[1]
        if name == "serde_json::Number::as_f64":
            return True
        if re.match(r"^core::f64::<impl f64>::(abs|ceil|floor|round|trunc|min|max|signum|clamp)$", name) or \
                re.match(r"^std::f64::<impl f64>::(abs|ceil|floor|round|trunc|min|max|signum|clamp)$", name):
            return all(finite(x, depth + 1) for a in term[2] for x in a)
        return False
    if h == "un" and term[1] == "Neg":
        return finite(term[2], depth + 1)
    if h == "const":
        return True
    if h == "cast":
        return "IntToFloat" in str(term) or term[3] in ("usize", "i32", "i64", "u64", "u32") if len(term) > 3 else False
    return False  # arithmetic (+ - * /), folds, unknown calls


def check_runtime_side(ctx, lib):
    rule = "runtime-classification"
    cg = CallGraph(lib)
    roots = [INTERP] + cg.trait_impls.get(("functions::Function", "evaluate"), []) + \
        ["functions::Signature::validate", "functions::Signature::validate_arity", "functions::Signature::validate_arg"]
    reach = cg.reachable_from(roots)
    reach = {d for d in reach if d.startswith("interpreter::") or d.startswith("<functions::") or d.startswith("functions::")}
    libm, _ = read_manifests()
    sj = libm.get("dependencies", {}).get("serde_json")
    feats = sj.get("features", []) if isinstance(sj, dict) else []
    ap_off = "arbitrary_precision" not in feats
    ctx.check(ap_off, rule, "manifest:arbitrary_precision", f"serde_json is used without arbitrary_precision (features {feats})")
    sigs = {}
    for path, adt in lib.adts.items():
        if adt["kind"] == "struct" and any(f["ty"] == "functions::Signature" for f in adt["variants"][0]["fields"]):
            try:
                sigs[path] = B.signature_of(lib, path)
            except B.SigError:
                pass
    nfrom = nnew = 0
    for d in sorted(reach):
        b = cg.nodes[d]
        o = Origins(b, lib)
        for bb, t in b.calls():
            if t["callee"] == FROM_CTX:
                nfrom += 1
                c = o.of_operand(t["args"][0])
                r = o.of_operand(t["args"][1])
                ok = bool(r) and all(x[0] == "agg" and x[1] == "errors::ErrorReason::Runtime" for x in r) and \
                    all(x == ("param", 3) or x == ("param", 2) or x[0] == "param" for x in c)
                ctx.check(ok, rule, f"{d}@from_ctx{ordinal(b, bb, FROM_CTX)}", f"{d}: error built from the evaluation context with a Runtime reason", t["span"]["s"])
            elif t["callee"] == NEW:
                nnew += 1
                ok, why = dead_new_site(lib, cg, b, bb, t, sigs, ap_off)
                # keyed by the function the site belongs to and by what makes the option possibly None, so that a different
                # live fabrication in the same function is a different finding
                m_ = re.match(r"^(from_f64|as_[a-z]+\(\)|Number::as_f64|option of unknown origin|closure is passed to [^ ]+|not the None case)", why)
                tag = (m_.group(1) if m_ else "other").replace(" ", "-")
                owner = "+".join(sorted(lib.owners(b)))
                ctx.check(ok, rule, f"live-parse-error:{owner}:{tag}", f"{d}: JmespathError::new(\"\", 0, Parse(..)) while searching — {why}", t["span"]["s"])
        for bb, i, s in b.stmts():
            if s["k"] == "assign" and s["rv"]["k"] == "agg" and s["rv"].get("adt") == "errors::JmespathError":
                ctx.bad(rule, f"{d}:raw-aggregate", f"{d} builds a JmespathError directly", s["span"]["s"])
    ctx.floor(rule, nfrom + nnew, 36, "error construction sites under the evaluator")
    ctx.analysed["from_ctx_sites"] = nfrom
    ctx.analysed["internal_conversion_error_sites"] = nnew
    fc = ctx.fn(FROM_CTX, rule=rule)
    if fc is not None:
        o = Origins(fc, lib)
        calls = [t for _, t in fc.calls()]
        ok = len(calls) == 1 and calls[0]["callee"] == NEW
        if ok:
            a = [o.of_operand(x) for x in calls[0]["args"]]
            ok = a[0] == {("field", ("param", 1), "expression")} and a[1] == {("field", ("param", 1), "offset")} and a[2] == {("param", 2)}
        ctx.check(ok, rule, "from_ctx", "from_ctx(ctx, reason) = JmespathError::new(ctx.expression, ctx.offset, reason)", fc.span)
    sb = lib.fn("Expression::<'a>::search")
    if sb is not None:
        o = Origins(sb, lib)
        news = [t for _, t in sb.calls() if t["callee"] == "Context::<'a>::new"]
        ok = len(news) == 1 and o.of_operand(news[0]["args"][0]) == {("field", ("param", 1), "expression")}
        ctx.check(ok, rule, "context-expression", "the context carries the text of the expression being searched", sb.span)


def dead_new_site(lib, cg, b, bb, t, sigs, ap_off):
    """JmespathError::new("", 0, Parse) built for the None case of an option is dead if the option is provably Some.
    The None case is either the None edge of a case analysis in this body (`opt.ok_or_else(|| ..)?` after normalisation,
    `match opt { None => return Err(..) }`, `let .. else`) or — where a combinator was left as a call — the closure handed to ok_or_else."""
    opt = None
    parent = None
    pb = None
    o = Origins(b, lib)
    br = Branches(b, o)
    best = None
    for sb, sw in br.switches():
        ve = br.variant_edges(sb)
        if ve and ve["adt"] == "std::option::Option" and "None" in ve["edges"] and ve["edges"]["None"] != ve["edges"].get("Some") and \
                edge_dominates(b, (sb, ve["edges"]["None"]), bb):
            depth = len(b.dominators().get(sb, ()))
            if best is None or depth > best[0]:
                best = (depth, sb, ve)
    if best is None and b.impl_trait == "functions::Function" and b.item_name == "evaluate" and sigs.get(b.impl_self):
        # the catch-all arm of a match on an argument's kind: dead when validation admits none of the kinds that reach it
        sig = sigs.get(b.impl_self)
        cx0 = RT.TagCx(lib, b, sig[0], sig[1])
        for sb, sw in br.switches():
            ve = br.variant_edges(sb)
            if not ve or ve["adt"] != "variable::Variable":
                continue
            ks = set()
            for sx in ve["scrutinee"]:
                isarg, k = cx0.is_arg(sx)
                if isarg and k is not None:
                    ks.add(k)
            if len(ks) != 1:
                continue
            k = next(iter(ks))
            if not edge_dominates(b, (sb, ve["otherwise"]), bb) and not any(edge_dominates(b, (sb, tg), bb) for tg in ve["edges"].values()):
                continue
            reaching = {v for v, tg in ve["edges"].items() if bb in reach_avoiding(b, tg)}
            if bb in reach_avoiding(b, ve["otherwise"]):
                reaching |= set(ve["all"]) - set(ve["edges"])
            admitted = RT.tags_of_type(cx0.arg_type(k))
            if not (admitted & reaching):
                return True, f"dead: reached only for kinds {sorted(reaching)} of args[{k}], validation admits only {sorted(admitted)}"
    if best is not None:
        parent, pb, opt = b, best[1], set(best[2]["scrutinee"])
    else:
        if b.kind != "closure":
            return False, "not the None case of an option: live"
        parent = lib.fn(b.j.get("closure_parent", ""))
        if parent is None:
            return False, "closure parent not found"
        po = Origins(parent, lib)
        use = None
        for pb_, pt in parent.calls():
            for i, a in enumerate(pt["args"]):
                if any(x[0] == "closure" and x[1] == b.deff for x in po.of_operand(a)):
                    use = (pb_, pt, i)
        if use is None:
            return False, "closure use not found"
        pb, pt, ai = use
        if pt["callee"] not in ("std::option::Option::<T>::ok_or_else",):
            return False, f"closure is passed to {pt['callee']}"
        opt = po.of_operand(pt["args"][0])
    # evaluate body (root) for parameter kinds
    root = parent
    while root.kind == "closure":
        root = lib.fn(root.j.get("closure_parent", ""))
        if root is None:
            return False, "closure chain broken"
    sig = sigs.get(root.impl_self) if root.impl_trait == "functions::Function" else None
    cx = RT.TagCx(lib, parent if parent.kind != "closure" else root, sig[0], sig[1]) if sig else None
    reasons = []
    opt = set(opt)
    for _ in range(3):
        nxt = set()
        for x in opt:
            if x[0] == "call" and x[1] in ("std::option::Option::<T>::map", "std::option::Option::<&T>::cloned", "std::option::Option::<&T>::copied"):
                nxt |= set(x[2][0])
            else:
                nxt.add(x)
        opt = nxt
    # a pass-through arm is None only if its receiver is: judge the receiver
    opt = {strip_through(x) for x in opt}
    for x in opt:
        if x[0] == "agg" and x[1] == "std::option::Option::Some":
            reasons.append("Some(..) built on the spot")
            continue
        if x[0] == "view":
            kind = {"array": "Array", "object": "Object", "string": "String", "number": "Number", "boolean": "Bool", "expref": "Expref", "null": "Null"}[x[1]]
            if cx is None:
                return False, "accessor on a value whose kind is not validated"
            base = x[2]
            if parent.kind == "closure":
                # e.g. join's per-element closure: element of args[k]
                tags = closure_param_tags(lib, parent, root, cx, base)
            else:
                tags = cx.tags(base, pb)
            if tags == {kind} and ap_off:
                reasons.append(f"as_{x[1]}() of a value validated to be {kind}")
                continue
            return False, f"as_{x[1]}() may be None (value kinds {sorted(tags)}): live"
        if x[0] == "call" and x[1] == "serde_json::Number::as_f64":
            if ap_off:
                reasons.append("Number::as_f64 is always Some")
                continue
            return False, "Number::as_f64 may be None with arbitrary_precision"
        if x[0] == "call" and x[1] == "serde_json::Number::from_f64":
            args = x[2][0]
            if all(finite(y) for y in args) and args:
                reasons.append("from_f64 of a finite value")
                continue
            return False, f"from_f64({fmt_terms(args)[:80]}) is None for a non-finite result: the caller receives a Parse-class error with an empty expression: live"
        return False, f"option of unknown origin {fmt_terms([x])[:80]}: live"
    return True, "dead: " + "; ".join(sorted(set(reasons)))


def closure_param_tags(lib, clo, root, cx, base):
    """Kinds of a closure parameter that is an element of an iterator over args[k]'s array view."""
    if base == ("param", 2):
        # find where the closure is used: Iterator::map(iter(view(array, args[k])), closure)
        parent = lib.fn(clo.j.get("closure_parent", ""))
        po = Origins(parent, lib)
        for pb, pt in parent.calls():
            for a in pt["args"]:
                if any(x[0] == "closure" and x[1] == clo.deff for x in po.of_operand(a)):
                    it = po.of_operand(pt["args"][0])
                    out = set()
                    for i in it:
                        while i[0] in ("iter", "adapt", "enum", "rev"):
                            i = i[2] if i[0] == "adapt" else i[1]
                        out |= cx.tags(("elem", i), pb)
                    return out
    return set(RT.ALL)


# =============================================================================================
def offset_stores(b):
    out = []
    for bb, i, s in b.stmts():
        if s["k"] == "assign" and s["place"]["p"] and _is_ctx_field(b, s["place"], "offset"):
            out.append((bb, i, s))
    return out


def check_offset_typestate(ctx, lib):
    rule = "offset-typestate"
    writers = set()
    for b in lib.fn_bodies():
        if offset_stores(b):
            writers.add(b.deff)
        for bb, i, s in b.stmts():
            if s["k"] == "assign" and s["rv"]["k"] == "agg" and s["rv"].get("adt") == "Context":
                writers.add(b.deff)
    ctx.check(writers == {INTERP, "Context::<'a>::new"}, rule, "who-may-write", f"Context.offset is written only by the evaluator (and initialised by Context::new): {sorted(writers)}")
    ip = Interp(lib)
    if not ip.ok:
        ctx.missing(rule, "interpret", "; ".join(ip.problems))
        return
    b, o = ip.b, ip.o
    stores = offset_stores(b)
    by_arm = {}
    for bb, i, s in stores:
        arm = next((v for v, a in ip.arms.items() if bb in a.blocks), None)
        by_arm.setdefault(arm, []).append((bb, i, s))
    ctx.check(set(by_arm) == {"Function", "Slice"}, rule, "store-sites", f"the offset is stored only in the Function and Slice arms (found {sorted(map(str, by_arm))})", b.span)
    # ---- Function arm
    arm = ip.arms.get("Function")
    fs_ = by_arm.get("Function", [])
    if arm is not None:
        set_st = [(bb, s) for bb, i, s in fs_ if o.of_operand(s["rv"]["op"]) == {("field", NODE, "Function.offset")}] if all(s["rv"]["k"] == "use" for _, _, s in fs_) else []
        rest_st = [(bb, s) for bb, i, s in fs_ if s["rv"]["k"] == "use" and o.of_operand(s["rv"]["op"]) == {("field", CTX, "offset")}]
        ok = len(fs_) == 2 and len(set_st) == 1 and len(rest_st) == 1
        ctx.check(ok, rule, "Function:stores", f"the Function arm stores the call's own offset once and restores the caller's offset once ({len(set_st)} set, {len(rest_st)} restore, {len(fs_)} total)", b.span)
        if ok:
            sb_, _ = set_st[0]
            rb_, rs = rest_st[0]
            nexts = [x for x, t in arm.calls if t["callee"] == "std::iter::Iterator::next"]
            gf = [x for x, t in arm.calls if t["callee"] == "runtime::Runtime::get_function"]
            ev = [(x, t) for x, t in arm.calls if t["callee"] == "functions::Function::evaluate"]
            fc = [x for x, t in arm.calls if t["callee"] == FROM_CTX]
            loop = set()
            for c in cfg_cycles(b):
                if nexts and nexts[0] in c:
                    loop = set(c)
            # no argument is evaluated once the offset is set (whether the arguments are evaluated in a loop or by an iterator chain)
            rec_blocks = {x for x, _, _, _ in arm.recursive}
            later = reach_avoiding(b, sb_) - {sb_}
            in_cycle_with_store = any(sb_ in c and (rec_blocks & set(c)) for c in cfg_cycles(b))
            after_args = bool(rec_blocks) and not (rec_blocks & later) and not in_cycle_with_store
            before = all(b.dominates(sb_, x) for x in gf + [e[0] for e in ev] + fc) and gf and ev and fc
            ctx.check(after_args and bool(before), rule, "Function:set-point", "the call's offset is stored after all arguments were evaluated and before lookup, invocation and the unknown-function error", b.span)
            # the saved value is read before the set and never overwritten in between
            saved_local = rs["rv"]["op"]["l"] if not rs["rv"]["op"]["p"] else None
            for _ in range(4):
                ws = b.assigns_to(saved_local) if saved_local is not None else []
                if len(ws) == 1 and ws[0][1] != "term" and ws[0][2]["k"] == "use" and ws[0][2]["op"].get("k") in ("copy", "move") and not ws[0][2]["op"]["p"]:
                    saved_local = ws[0][2]["op"]["l"]
                else:
                    break
            reads = [x for x in b.assigns_to(saved_local)] if saved_local is not None else []
            ok_save = len(reads) == 1 and reads[0][1] != "term" and reads[0][2]["k"] == "use" and \
                _is_ctx_field(b, reads[0][2]["op"], "offset") and (reads[0][0] == sb_ or b.dominates(reads[0][0], sb_)) and \
                reads[0][0] not in loop and (not nexts or b.dominates(nexts[0], reads[0][0]))
            # position within the same block: read precedes the set
            if ok_save and reads[0][0] == sb_:
                idx_read = reads[0][1]
                idx_set = [i for bb, i, s in fs_ if bb == sb_ and s is set_st[0][1]][0]
                ok_save = idx_read < idx_set
            ctx.check(ok_save, rule, "Function:save", "the caller's offset is read right before the call's offset is stored (after argument evaluation)", b.span)
            # restore on every path from evaluate's return to the function's return
            if ev:
                ret_blocks = [x for x in b.reachable() if b.blocks[x]["term"]["k"] == "return"]
                ok_r = all(blocks_separate(b, {rb_}, r, start=ev[0][1]["t"]) for r in ret_blocks if r in reach_avoiding(b, ev[0][1]["t"]))
                ctx.check(ok_r, rule, "Function:restore", "on every path from the invocation's return the caller's offset is restored before interpret returns", b.span)
    # ---- Slice arm
    arm = ip.arms.get("Slice")
    ss = by_arm.get("Slice", [])
    if arm is not None:
        fc = [x for x, t in arm.calls if t["callee"] == FROM_CTX]
        ok = len(ss) == 1 and len(fc) == 1 and ss[0][2]["rv"]["k"] == "use" and \
            o.of_operand(ss[0][2]["rv"]["op"]) == {("field", NODE, "Slice.offset")} and b.dominates(ss[0][0], fc[0])
        ctx.check(ok, rule, "Slice:store-before-raise", "the slice's offset is stored before InvalidSlice is raised", b.span)
    # ---- builtins never raise with a stale offset: they cannot write it (who-may-write) and interpret restores it
    n = 0
    for d in ("SortByFn", "MaxByFn", "MinByFn", "MapFn"):
        eb = lib.fn(f"<functions::{d} as functions::Function>::evaluate")
        if eb is None:
            continue
        n += 1
        ctx.check(not offset_stores(eb), rule, f"{d}:no-store", f"{d}::evaluate does not touch Context.offset; nested evaluations restore it (interpret is offset-preserving on return)", eb.span)
    ctx.floor(rule, n, 4, "expression-reference builtins")
    # Function.offset is the position of the consumed '('
    led = lib.fn(P + "led")
    if led is not None:
        lo = Origins(led, lib)
        aggs = [s for _, _, s in region_aggs(led, led.reachable(), AST) if s["rv"]["variant"] == "Function"]
        ok = len(aggs) == 1
        if ok:
            vals = dict(zip(aggs[0]["rv"]["fnames"], (lo.of_operand(x) for x in aggs[0]["rv"]["ops"])))
            ok = all(x[0] == "field" and x[2] == "0" and x[1][0] == "call" and x[1][1] == P + "advance_with_pos" for x in vals["offset"]) and bool(vals["offset"])
        ctx.check(ok, rule, "Function.offset-is-paren", "a call node's offset is the position of the '(' token just consumed", led.span)


# =============================================================================================
def check_offset_provenance(ctx, lib):
    rule = "offset-provenance"
    tk = ctx.fn(L + "tokenize", rule=rule)
    n = 0
    if tk is not None:
        o = Origins(tk, lib)
        for bb, t in tk.calls():
            if not t["callee"].endswith("::push_back"):
                continue
            n += 1
            ts = o.of_operand(t["args"][1])
            ok = bool(ts)
            for x in ts:
                if not (x[0] == "agg" and x[1] == "tuple"):
                    ok = False
                    continue
                toks = {y[1].split("::")[-1] for y in x[2][1] if y[0] == "agg"} if len(x[2]) > 1 else set()
                for p in x[2][0]:
                    idx = p[0] == "field" and p[2] == "0" and p[1][0] == "elem" and p[1][1] == ("field", ("param", 1), "iter")
                    ln = p[0] == "call" and p[1] == "core::str::<impl str>::len" and set(p[2][0]) == {("field", ("param", 1), "expr")}
                    # the end-of-input marker sits at expr.len(), every other token at the index of its first character
                    ok = ok and ((ln and toks == {"Eof"}) or (idx and "Eof" not in toks))
            ctx.check(ok, rule, f"token-position#{n}", "a token's position is the char_indices() index of its first character (or expr.len() for Eof)", t["span"]["s"])
        # one push per token kind or one shared push: at least the end marker's and one other
        ctx.floor(rule, n, 2, "token push sites")
    ln_ = ctx.fn(L + "new", rule=rule)
    if ln_ is not None:
        o = Origins(ln_, lib)
        names = [t["callee"] for _, t in ln_.calls()]
        ok = names == ["core::str::<impl str>::char_indices", "std::iter::Iterator::peekable"] and o.of_operand(list(ln_.calls())[0][1]["args"][0]) == {("param", 1)}
        ctx.check(ok, rule, "lexer-iterator", "the lexer iterates expr.char_indices() (byte index of every character)", ln_.span)
    # positions passed to the scanners / errors in the lexer are that index
    for b in lib.fn_bodies():
        if not b.deff.startswith("lexer::Lexer"):
            continue
        o = Origins(b, lib)
        for bb, t in b.calls():
            if t["callee"] == NEW:
                p = o.of_operand(t["args"][1])
                def pos_ok(x):
                    if x[0] == "param":
                        return True  # `pos` parameter of a scanner (checked at its call site below)
                    if x[0] == "field" and x[2] == "0" and x[1][0] == "elem":
                        return True
                    if x[0] == "field" and (x[1] == ("closure_env",) or (x[1][0] == "field" and x[1][1] == ("closure_env",))):
                        return True
                    return False
                ctx.check(bool(p) and all(pos_ok(x) for x in p), rule, f"lexer-error-position:{b.deff}@{ordinal(b, bb, NEW)}", f"{b.deff}: the error position is the token's start index ({fmt_terms(p)[:60]})", t["span"]["s"])
            if t["callee"].startswith(L + "consume_") and len(t["args"]) >= 2 and t["args"][1].get("k") in ("copy", "move") and \
                    b.local_ty(t["args"][1].get("l", 0)) == "usize":
                p = o.of_operand(t["args"][1])
                ok = all((x[0] == "field" and x[2] == "0" and x[1][0] == "elem") or x[0] == "param" for x in p) and bool(p)
                ctx.check(ok, rule, f"scanner-position:{b.deff}->{t['callee'].split('::')[-1]}", "scanners receive the start index of their token", t["span"]["s"])
    # Parser.offset
    writers = {}
    for b in lib.fn_bodies():
        o = None
        for bb, i, s in b.stmts():
            if s["k"] == "assign" and s["place"]["p"] and "Parser<" in b.local_ty(s["place"]["l"]) and \
                    [e.get("name") for e in s["place"]["p"] if isinstance(e, dict) and "f" in e][:1] == ["offset"]:
                o = o or Origins(b, lib)
                writers.setdefault(b.deff, []).append(o._rv(s["rv"], bb, 0))
    OWN = ("field", ("param", 1), "offset")

    def popped(y):
        return y[0] == "call" and y[1].endswith("::pop_front")

    def pos_of_popped(x):
        if x == OWN:
            return True     # past the end the parser stays where it is: the offset written is the offset it has
        if not (x[0] == "field" and x[2] == "0"):
            return False
        y = x[1]
        if popped(y):
            return True
        # pop_front().unwrap_or((self.offset, Eof)): the popped token's position, or the offset it already has
        if y[0] == "call" and y[1].endswith("::unwrap_or") and len(y[2]) == 2:
            return bool(y[2][0]) and all(popped(z) for z in y[2][0]) and bool(y[2][1]) and \
                all(z[0] == "agg" and z[1] == "tuple" and len(z[2]) == 2 and set(z[2][0]) == {OWN} for z in y[2][1])
        return False
    ok = set(writers) == {P + "advance_with_pos"} and all(bool(w) and all(pos_of_popped(x) for x in w) for w in writers.get(P + "advance_with_pos", [])) and \
        any(any(x != OWN for x in w) for w in writers.get(P + "advance_with_pos", []))
    ctx.check(ok, rule, "parser-offset", f"Parser.offset is only ever set to the position of the token just popped (writers: {sorted(writers)})")
    pn = lib.fn(P + "new")
    if pn is not None:
        o = Origins(pn, lib)
        aggs = [s for _, _, s in pn.stmts() if s["k"] == "assign" and s["rv"]["k"] == "agg" and s["rv"].get("adt") == "parser::Parser"]
        ok = len(aggs) == 1 and o.of_operand(dict(zip(aggs[0]["rv"]["fnames"], aggs[0]["rv"]["ops"]))["offset"]) == {("const", 0)}
        ctx.check(ok, rule, "parser-offset-init", "Parser.offset starts at 0", pn.span)
    # every Ast offset in the parser
    n = 0
    for b in lib.fn_bodies():
        if not b.deff.startswith("parser::"):
            continue
        o = Origins(b, lib)
        for bb, i, s in b.stmts():
            if s["k"] == "assign" and s["rv"]["k"] == "agg" and s["rv"].get("adt") == AST and "offset" in s["rv"].get("fnames", []):
                n += 1
                v = o.of_operand(s["rv"]["ops"][s["rv"]["fnames"].index("offset")])
                ok = bool(v) and all(
                    (x == ("field", ("param", 1), "offset")) or
                    (x[0] == "field" and x[2] == "0" and x[1][0] == "call" and x[1][1] == P + "advance_with_pos") for x in v)
                ctx.check(ok, rule, f"ast-offset:{b.deff.split('::')[-1]}:{s['rv']['variant']}#{n}", f"{s['rv']['variant']}.offset is a token position ({fmt_terms(v)[:60]})", s["span"]["s"])
    ctx.floor(rule, n, 20, "Ast nodes built by the parser")
    # a slice error must point *into the slice*: Slice.offset is read before anything after the brackets is parsed
    pi = lib.fn(P + "parse_index")
    if pi is None:
        ctx.missing(rule, "slice-offset", P + "parse_index")
    else:
        po = Origins(pi, lib)
        sl = [(bb, s) for bb, i, s in pi.stmts() if s["k"] == "assign" and s["rv"]["k"] == "agg" and s["rv"].get("adt") == AST and s["rv"]["variant"] == "Slice"]
        pr = [(bb, t) for bb, t in pi.calls() if t["callee"] == P + "projection_rhs"]
        ok = len(sl) == 1 and len(pr) == 1
        if ok:
            op = sl[0][1]["rv"]["ops"][sl[0][1]["rv"]["fnames"].index("offset")]
            # the block where Parser.offset is read for that field
            loc = op.get("l")
            read_blk = None
            for _ in range(4):
                ws = pi.assigns_to(loc)
                if len(ws) == 1 and ws[0][1] != "term" and ws[0][2]["k"] == "use":
                    src = ws[0][2]["op"]
                    if src.get("k") in ("copy", "move") and src["p"]:
                        read_blk = ws[0][0]
                        break
                    loc = src.get("l")
                else:
                    break
            after = reach_avoiding(pi, pr[0][1]["t"]) if pr[0][1]["t"] is not None else set()
            ok = read_blk is not None and read_blk not in after and po.of_operand(op) == {("field", ("param", 1), "offset")}
        ctx.check(ok, rule, "slice-offset-inside-slice", "Slice.offset is the parser position taken before the projection's right-hand side is parsed (it points into the slice brackets)", pi.span)
    er = lib.fn(P + "err")
    if er is not None:
        o = Origins(er, lib)
        nc = [t for _, t in er.calls() if t["callee"] == NEW]
        ok = len(nc) == 1
        if ok:
            p = o.of_operand(nc[0]["args"][1])
            ok = bool(p) and all(x == ("field", ("param", 1), "offset") or (x[0] == "field" and x[2] == "0" and x[1][0] == "call" and x[1][1].endswith(("::get", "::front")) and
                                                                                 x[1][2][0] == frozenset({("field", ("param", 1), "token_queue")})) for x in p)
        ctx.check(ok, rule, "parser-error-position", "parser errors are located at the current or the peeked token's position", er.span)


# =============================================================================================

def fold_line_column(lib, b, o):
    """The (line, column) scan written as `iter.fold((0, 0), |(line, column), (_, c)| ..)`: returns (ok, iterator terms, fold call
    term) where ok means: a newline gives (line + 1, 0), any other character gives (line, column + 1), starting from (0, 0)."""
    folds = [(bb, t) for bb, t in b.calls() if t["callee"] == "std::iter::Iterator::fold"]
    if len(folds) != 1:
        return False, None, None
    fb, ft = folds[0]
    it = o.of_operand(ft["args"][0])
    init = o.of_operand(ft["args"][1])
    zero2 = all(x[0] == "agg" and x[1] == "tuple" and len(x[2]) == 2 and all(set(c) == {("const", 0)} for c in x[2]) for x in init) and bool(init)
    clo = [x for x in o.of_operand(ft["args"][2]) if x[0] == "closure"]
    if not zero2 or len(clo) != 1:
        return False, it, None
    cb = lib.fn(clo[0][1])
    if cb is None:
        return False, it, None
    co = Origins(cb, lib)
    cbr = Branches(cb, co)
    ACC, ITEM = ("param", 2), ("param", 3)
    nl_edge = other_edge = None
    for sb in sorted(cb.reachable()):
        t = cb.blocks[sb]["term"]
        if t["k"] != "switch":
            continue
        d = t["discr"]
        if d.get("ty") == "char" and d.get("k") in ("copy", "move"):
            src = co.of_operand(d)
            if src == {("field", ITEM, "1")}:
                tg = dict((v, x) for v, x in t["targets"])
                if set(tg) == {10}:
                    nl_edge, other_edge = (sb, tg[10]), (sb, t["otherwise"])
        be = cbr.bool_edges(sb)
        if be:
            for c in cbr.cond(sb):
                if c[0] == "bin" and c[1] in ("Eq", "Ne") and {c[2], c[3]} == {("field", ITEM, "1"), ("const", 10)}:
                    nl_edge, other_edge = ((sb, be[0]), (sb, be[1])) if c[1] == "Eq" else ((sb, be[1]), (sb, be[0]))
    if nl_edge is None:
        return False, it, None

    def inc(f):
        base = ("field", ACC, f)
        return {("field", ("bin", "AddWithOverflow", base, ("const", 1)), "0"), ("bin", "Add", base, ("const", 1))}

    ok = True
    seen = set()
    for bb, i, st in cb.stmts():
        if st["k"] == "assign" and st["rv"]["k"] == "agg" and st["rv"].get("ak") == "tuple" and len(st["rv"]["ops"]) == 2 and \
                (st["place"]["l"] == 0 or cb.local_ty(st["place"]["l"]) == cb.local_ty(0)):
            x, y = (co.of_operand(op) for op in st["rv"]["ops"])
            if edge_dominates(cb, nl_edge, bb):
                ok = ok and x <= inc("0") and bool(x) and y == {("const", 0)}
                seen.add("nl")
            elif edge_dominates(cb, other_edge, bb):
                ok = ok and x == {("field", ACC, "0")} and y <= inc("1") and bool(y)
                seen.add("other")
            else:
                ok = False
    fold_term = [x for x in o.of_local(ft["dest"]["l"]) if x[0] == "call" and x[1] == "std::iter::Iterator::fold"]
    return ok and seen == {"nl", "other"}, it, (fold_term[0] if fold_term else None)


def check_units(ctx, lib):
    rule = "byte-vs-char-units"
    b = ctx.fn(NEW, rule=rule)
    if b is None:
        return
    o = Origins(b, lib)
    # negative rule, crate-wide: Chars-derived iterator adapters fed a byte quantity
    nbad = 0
    for body in lib.fn_bodies():
        bo = None
        for bb, t in body.calls():
            if t["callee"] in ("std::iter::Iterator::take", "std::iter::Iterator::skip", "std::iter::Iterator::nth", "std::iter::Iterator::step_by"):
                bo = bo or Origins(body, lib)
                it = bo.of_operand(t["args"][0])
                cnt = bo.of_operand(t["args"][1])
                from_chars = any(term_mentions(x, lambda y: y[0] == "call" and y[1] == "std::str::<impl str>::chars") or
                                 (x[0] == "iter" and "chars" in str(x)) for x in it) or \
                    any("Chars" in a for a in t.get("callee_args", []))
                bytes_ = any(term_mentions(x, lambda y: (y[0] == "call" and y[1].endswith("str>::len")) or (y[0] == "field" and y[2] in ("offset",))) or
                             (body.deff == NEW and x == ("param", 2)) for x in cnt)
                if from_chars and bytes_:
                    nbad += 1
                    ctx.bad(rule, f"chars-adapter-fed-bytes:{body.deff}", f"{body.deff}: {t['callee'].split('::')[-1]}() on a character iterator is given a byte quantity ({fmt_terms(cnt)[:60]})", t["span"]["s"])
    ctx.check(nbad == 0, rule, "no-chars-adapter-fed-bytes", "no take/skip/nth/step_by on a character iterator receives a byte offset or byte length")
    # positive rule: the prefix is delimited by comparing the char_indices() byte index with the offset
    cyc = cfg_cycles(b)
    ok = len(cyc) == 1
    how = ""
    fold_ok, fold_it, fold_term = (False, None, None)
    if not cyc:
        # the scan as a fold over the same iterator
        fold_ok, fold_it, fold_term = fold_line_column(lib, b, o)
        ok = False
        for i in fold_it or ():
            if i[0] == "adapt" and i[1] == "take_while" and i[2] == ("iter", ("param", 1)):
                for c in i[3]:
                    if c[0] == "closure":
                        cb = lib.fn(c[1])
                        co = Origins(cb, lib)
                        r = co.of_local(0)
                        cap_ok = c[2] == (fs({("param", 2)}),)
                        cmp_ok = all(x[0] == "bin" and x[1] == "Lt" and x[2] == ("field", ("param", 2), "0") and
                                     x[3][0] == "field" and x[3][1] == ("closure_env",) for x in r) and bool(r)
                        ok = cap_ok and cmp_ok
                        how = "fold over take_while(|(i, _)| i < offset) over char_indices()"
        ci = [t for _, t in b.calls() if t["callee"] == "core::str::<impl str>::char_indices"]
        ok = ok and len(ci) == 1 and o.of_operand(ci[0]["args"][0]) == {("param", 1)}
    elif ok:
        nx = [(x, b.blocks[x]["term"]) for x in cyc[0] if b.blocks[x]["term"]["k"] == "call" and b.blocks[x]["term"]["callee"] == "std::iter::Iterator::next"]
        ok = len(nx) == 1
        if ok:
            it = o.of_operand(nx[0][1]["args"][0])
            ok = False
            for i in it:
                # take_while(char_indices(expr), |(i, _)| i < offset)
                if i[0] == "adapt" and i[1] == "take_while" and i[2] == ("iter", ("param", 1)):
                    for c in i[3]:
                        if c[0] == "closure":
                            cb = lib.fn(c[1])
                            co = Origins(cb, lib)
                            r = co.of_local(0)
                            cap_ok = c[2] == (fs({("param", 2)}),)
                            cmp_ok = all(x[0] == "bin" and x[1] == "Lt" and x[2] == ("field", ("param", 2), "0") and
                                         x[3][0] == "field" and x[3][1] == ("closure_env",) for x in r) and bool(r)
                            ok = cap_ok and cmp_ok
                            how = "take_while(|(i, _)| i < offset) over char_indices()"
                # or: explicit `if i >= offset { break }` inside a char_indices loop
                if i == ("iter", ("param", 1)):
                    br = Branches(b, o)
                    for sb, sw in br.switches():
                        be = br.bool_edges(sb)
                        if be and sb in cyc[0]:
                            for c in br.cond(sb):
                                if c[0] == "bin" and c[1] in ("Ge", "Lt") and ("param", 2) in (c[2], c[3]) and \
                                        any(z[0] == "field" and z[2] == "0" and z[1][0] == "elem" for z in (c[2], c[3])):
                                    exit_t = be[0] if c[1] == "Ge" else be[1]
                                    if exit_t not in cyc[0]:
                                        ok = True
                                        how = "break at the first char_indices() index >= offset"
            ci = [t for _, t in b.calls() if t["callee"] == "core::str::<impl str>::char_indices"]
            ok = ok and len(ci) == 1 and o.of_operand(ci[0]["args"][0]) == {("param", 1)}
    ctx.check(ok, rule, "prefix-by-byte-index", f"JmespathError::new scans exactly the characters whose byte index is below the byte offset ({how or 'shape not recognised'})", b.span)
    # line / column bookkeeping
    ch = None
    for bb, i, s in b.stmts():
        if s["k"] == "assign" and not s["place"]["p"] and b.local_ty(s["place"]["l"]) == "char":
            ch = (s["place"]["l"], bb)
    agg = [s for _, _, s in b.stmts() if s["k"] == "assign" and s["rv"]["k"] == "agg" and s["rv"].get("adt") == "errors::JmespathError"]
    ok = ch is not None and len(agg) == 1
    if not cyc and len(agg) == 1 and fold_term is not None:
        # fold form: the two components of the fold's result are stored as line and column
        vals = dict(zip(agg[0]["rv"]["fnames"], agg[0]["rv"]["ops"]))
        ok = fold_ok and o.of_operand(vals["line"]) == {("field", fold_term, "0")} and o.of_operand(vals["column"]) == {("field", fold_term, "1")}
        ok = ok and o.of_operand(vals["offset"]) == {("param", 2)} and o.of_operand(vals["reason"]) == {("param", 3)} and o.of_operand(vals["expression"]) == {("param", 1)}
    elif ok:
        vals = dict(zip(agg[0]["rv"]["fnames"], agg[0]["rv"]["ops"]))
        line_l, col_l = vals["line"].get("l"), vals["column"].get("l")
        from ..analysis import copy_root
        root = lambda l: copy_root(b, l)
        line_l, col_l = root(line_l), root(col_l)
        cf = CharFlow(b, ch[0], ch[1], o)
        nl = ISet([(10, 10)])
        good = True
        seen_line_inc = seen_col_inc = seen_col_reset = False
        for wl, name in ((line_l, "line"), (col_l, "column")):
            for wb, wi, rv in b.assigns_to(wl):
                if wi == "term":
                    good = False
                    continue
                at = cf.at(wb)
                if rv["k"] == "use" and rv["op"].get("k") == "const" and rv["op"].get("int") == 0:
                    if at.is_empty():
                        continue  # initialisation
                    if name == "column" and at == nl:
                        seen_col_reset = True
                    else:
                        good = False
                elif rv["k"] == "use" and rv["op"].get("k") in ("copy", "move") and rv["op"]["p"]:
                    # move (_t.0) with _t = AddWithOverflow(wl, 1)
                    tw = [x for x in b.assigns_to(rv["op"]["l"]) if x[1] != "term"]
                    inc = len(tw) == 1 and tw[0][2]["k"] == "binop" and tw[0][2]["op"] == "AddWithOverflow" and \
                        tw[0][2]["a"].get("l") == wl and tw[0][2]["b"].get("int") == 1
                    if not inc:
                        good = False
                    elif name == "line" and at == nl:
                        seen_line_inc = True
                    elif name == "column" and at == nl.compl():
                        seen_col_inc = True
                    else:
                        good = False
                else:
                    good = False
        ok = good and seen_line_inc and seen_col_inc and seen_col_reset
        ok = ok and o.of_operand(vals["offset"]) == {("param", 2)} and o.of_operand(vals["reason"]) == {("param", 3)} and o.of_operand(vals["expression"]) == {("param", 1)}
    ctx.check(ok, rule, "line-column-bookkeeping", "a newline increments the line and resets the column, any other character increments the column; the error stores (offset, line, column, expression, reason) as computed", b.span)


# =============================================================================================
DISPLAY = "<errors::JmespathError as std::fmt::Display>::fmt"
CARAT = "errors::inject_carat"
P1, P2 = ("param", 1), ("param", 2)


def _plus_one(t, base_ok):
    """t is `x + 1` (checked or not) for an x accepted by base_ok."""
    if t[0] == "field" and t[2] == "0" and t[1][0] == "bin" and t[1][1] == "AddWithOverflow":
        t = ("bin", "Add", t[1][2], t[1][3])
    return t[0] == "bin" and t[1] == "Add" and t[3] == ("const", 1) and base_ok(t[2])


def check_rendering(ctx, lib):
    """`a caret under that column`: the rendered location block gets exactly one caret line, after the line the error is on,
    padded with `column` blanks."""
    rule = "rendering"
    b = ctx.fn(DISPLAY, rule=rule)
    c = ctx.fn(CARAT, rule=rule)
    if b is None or c is None:
        return
    # ---- the caret line itself: `column` blanks, then '^'
    co = Origins(c, lib)
    pushes = [(blk, co.of_operand(t["args"][1])) for blk, t in c.calls()
              if t["callee"] in ("std::string::String::push_str", "std::string::String::push") and co.of_operand(t["args"][0]) == {P2}]
    pads = [(blk, ts) for blk, ts in pushes if term_mentions(ts, lambda x: x == P1)]
    marks = [(blk, ts) for blk, ts in pushes if any(x[0] == "const" and isinstance(x[1], str) and "^" in x[1] for x in ts)]

    def plain_count(ts):
        # the column is used as a count as it stands: no arithmetic on it, a range over it starts at 0 and excludes its end
        if term_mentions(ts, lambda x: x[0] in ("bin", "un", "cast") and term_mentions(list(x[1:]), lambda y: y == P1)):
            return False
        if term_mentions(ts, lambda x: x[0] == "call" and "RangeInclusive" in x[1]):
            return False
        for_range = []
        term_mentions(ts, lambda x: for_range.append(x) if x[0] == "agg" and "ops::Range" in x[1] else None)
        return all(x[1] == "std::ops::Range::Range" and x[2] == (fs({("const", 0)}), fs({P1})) for x in for_range)
    # no case analysis in the helper: what it appends does not depend on what the buffer already holds
    straight = not any(c.blocks[i]["term"]["k"] == "switch" for i in c.reachable())
    ok = len(pads) == 1 and len(marks) == 1 and plain_count(pads[0][1]) and c.dominates(pads[0][0], marks[0][0]) and straight and \
        all(x[0] == "const" and x[1].count("^") == 1 for x in marks[0][1])
    ctx.check(ok, rule, "caret-line", "the caret line is `column` blanks (the count as stored, from 0, end excluded) followed by one '^'", c.span)

    # ---- where it goes
    o = Origins(b, lib)
    br = Branches(b, o)
    sites = [blk for blk, t in b.calls() if t["callee"] == CARAT]
    cols = all(o.of_operand(b.blocks[s]["term"]["args"][0]) == {("field", P1, "column")} for s in sites)
    ctx.check(bool(sites) and cols, rule, "caret-column", "every caret line is made for self.column", b.span)
    cyc = cfg_cycles(b)
    why = None
    if len(cyc) != 1:
        why = "the scan over the expression is not a single loop"
    else:
        loop = set(cyc[0])
        inner = [s for s in sites if s in loop]
        outer = [s for s in sites if s not in loop]
        rets = [i for i in sorted(b.reachable()) if b.blocks[i]["term"]["k"] == "return"]
        if not inner or not outer or len(rets) != 1:
            why = "expected a caret inside the scan (after the error's line) and one after it (error on the last line)"
    if why is None:
        sw = {sb: (br.cond(sb), br.bool_edges(sb)) for sb, _ in br.switches()}
        # (a) inside the scan: only right after a newline character ...
        newline = [(sb, be[0]) for sb, (cs, be) in sw.items() if sb in loop and be and cs and
                   all(x[0] == "bin" and x[1] == "Eq" and x[3] == ("const", 10) for x in cs)]
        # (b) ... and only when the count of newlines seen equals line + 1 — an equality with a counter that moves between
        # any two tests, so at most once
        hits = []
        for sb, (cs, be) in sw.items():
            if sb not in loop or not be or not cs:
                continue
            ctr = set()
            form = set()
            for x in cs:
                if not (x[0] == "bin" and x[1] == "Eq"):
                    form.add("other")
                    continue
                l, r = x[2], x[3]
                if term_mentions(r, lambda y: y[0] == "cycle") or term_mentions(l, lambda y: y == ("field", P1, "line")):
                    l, r = r, l
                if r == ("field", P1, "line"):
                    d = 0
                elif _plus_one(r, lambda y: y == ("field", P1, "line")):
                    d = 1
                else:
                    form.add("other")
                    continue
                if l[0] == "const" and isinstance(l[1], int):
                    form.add(("init", l[1], d))
                elif _plus_one(l, lambda y: y[0] == "cycle"):
                    base = l[1][2] if l[0] == "field" else l[2]
                    ctr.add(base[1])
                    form.add(("step", d))
                else:
                    form.add("other")
            if "other" in form or len(ctr) != 1:
                continue
            hits.append((sb, be, next(iter(ctr)), form))
        if len(hits) != 1 or not newline:
            why = "no single `newlines seen == self.line + 1` equality test guards the caret inside the scan"
    if why is None:
        sb, be, ctr, form = hits[0]
        inits = {f[1] for f in form if f[0] == "init"}
        ds = {f[-1] for f in form}
        incs = {wb for wb, wi, rv in b.assigns_to(ctr) if wb in loop}
        before = bool(incs) and all(blocks_separate(b, incs, sb, start=s) for s in b.normal_succs(sb) if s in loop)
        # newlines seen (this one included) = counter - init when it is bumped before the test
        good = len(inits) == 1 and len(ds) == 1 and before and next(iter(ds)) - next(iter(inits)) == 1
        good = good and all(any(edge_dominates(b, (nb, nt), i) for nb, nt in newline) for i in incs)
        good = good and all(edge_dominates(b, (sb, be[0]), s) and any(edge_dominates(b, (nb, nt), s) for nb, nt in newline) for s in inner)
        if not good:
            why = "the caret inside the scan is not guarded by `newlines seen (counted from 0, this one included) == self.line + 1`"
    if why is None:
        # (c) after the scan: exactly when no caret was placed inside it — a flag, false before the scan, set where (and only
        # where) the inner caret is placed
        flag = None
        for sb2, (cs, be2) in sw.items():
            if sb2 in loop or not be2 or not cs or not cs <= {("const", 0), ("const", 1)}:
                continue
            if all(edge_dominates(b, (sb2, be2[1]), s) for s in outer):
                d = b.blocks[sb2]["term"]["discr"]
                from ..analysis import copy_root
                flag = (sb2, be2, copy_root(b, d["l"]))
        if flag is None:
            # or by the final newline count itself: with the counter running i0+1, i0+2, .. the equality above was hit
            # exactly when the final count reached line + d, so the fallback must be taken exactly when it stayed below
            FLIP = {"Lt": "Gt", "Le": "Ge", "Gt": "Lt", "Ge": "Le"}
            good = False
            for sb2, (cs, be2) in sw.items():
                if sb2 in loop or not be2 or not cs:
                    continue
                edges = set()
                for x in cs:
                    e = None
                    if x[0] == "bin" and x[1] in FLIP:
                        op, l, r = x[1], x[2], x[3]
                        if term_mentions(l, lambda y: y == ("field", P1, "line")):
                            op, l, r = FLIP[op], r, l
                        k = 0 if r == ("field", P1, "line") else 1 if _plus_one(r, lambda y: y == ("field", P1, "line")) else None
                        is_ctr = (l[0] == "const" and l[1] in inits) or _plus_one(l, lambda y: y == ("cycle", ctr))
                        if k is not None and is_ctr:
                            # counter < line + bound, on which edge
                            bound, edge = {"Lt": (k, 0), "Le": (k + 1, 0), "Ge": (k, 1), "Gt": (k + 1, 1)}[op]
                            e = (bound, edge)
                    edges.add(e)
                if len(edges) == 1 and None not in edges:
                    bound, edge = next(iter(edges))
                    if bound == next(iter(ds)) and all(edge_dominates(b, (sb2, be2[edge]), s) for s in outer) and \
                            blocks_separate(b, set(outer), rets[0], start=be2[edge]):
                        good = True
                        fallback_edge = (sb2, be2[edge])
            if not good:
                why = "the caret after the scan is guarded neither by a `no caret placed yet` flag nor by `final newline count < self.line + 1`"
        else:
            sb2, be2, fl = flag
            ws = [(wb, rv) for wb, wi, rv in b.assigns_to(fl) if wi != "term"]
            sets = {wb for wb, rv in ws if rv["k"] == "use" and rv["op"].get("k") == "const" and rv["op"].get("int") == 1}
            clears = {wb for wb, rv in ws if rv["k"] == "use" and rv["op"].get("k") == "const" and rv["op"].get("int") == 0}
            head = min(loop)
            good = len(ws) == len(sets) + len(clears) and bool(sets) and bool(clears)
            good = good and all(wb not in loop and b.dominates(wb, head) for wb in clears) and sets <= loop
            # set <=> caret placed, within one pass of the loop body
            good = good and all(any(b.dominates(f, s) or b.dominates(s, f) for f in sets) for s in inner)
            good = good and all(any(b.dominates(f, s) or b.dominates(s, f) for s in inner) for f in sets)
            good = good and blocks_separate(b, set(outer), rets[0], start=be2[1])
            fallback_edge = (sb2, be2[1])
            if not good:
                why = "the `caret placed` flag is not set exactly where the inner caret is placed, or the fallback caret can be skipped"
    if why is None:
        # (d) the fallback caret goes on a line of its own: the error's line was not ended by a newline of the expression, so one
        # is appended first — unconditionally, between the guard and the caret
        def is_break(t):
            if t["callee"] == "std::string::String::push":
                return any(x == ("const", 10) for x in o.of_operand(t["args"][1]))
            if t["callee"] == "std::string::String::push_str":
                return any(x[0] == "const" and x[1] in ('"\\n"',) for x in o.of_operand(t["args"][1]))
            return False
        brks = [blk for blk, t in b.calls() if is_break(t) and edge_dominates(b, fallback_edge, blk)]
        if not (brks and all(any(b.dominates(k, s) for k in brks) for s in outer)):
            why = "the caret after the scan is not preceded by a line break of its own (pushed unconditionally between the guard and the caret)"
    ctx.check(why is None, rule, "caret-once", "exactly one caret line: inside the scan right after the newline that ends line self.line "
              "(an equality on the running newline count), otherwise once after the scan" + (f" — {why}" if why else ""), b.span)
    # ---- what is written
    wf = [t for _, t in b.calls() if t["callee"].endswith("::write_fmt") or t["callee"].endswith("::write_str")]
    shown = set()
    for _, t in b.calls():
        if "Argument" in t["callee"] and t["callee"].endswith("new_display"):
            shown |= {strip_through(x) for x in o.of_operand(t["args"][0])}
    want = {("field", P1, "reason"), ("field", P1, "line"), ("field", P1, "column")}
    ctx.check(len(wf) == 1 and want <= shown and len(shown) == 4, rule, "message-parts",
              f"one write of the reason, the line, the column and the location block (found {fmt_terms(shown)[:120]})", b.span)
