"""C02 — every built-in function computes the value the specification defines (structural clauses)."""
import re

from .. import builtins as B
from .. import rettags as RT
from ..analysis import strip_through
from ..analysis import (Branches, CallGraph, Origins, cfg_cycles, edge_dominates, fmt_terms, reach_avoiding,
                        term_mentions)
from ..decision import Undecided
from ..leaf import expand_defaults, kind_walker, ok_payloads, results_by_kind
from ..tmatch import ANY, Agg, Call, Each, Or_, m, ms
from .c06 import RESULT, check_result_types

fs = frozenset
V = "variable::Variable"
ARGS = ("param", 2)
INTERP = "interpreter::interpret"

EXPLANATION = (
    "Numeric and textual *values* are not decided (run-time value semantics). Decided per builtin, from the provenance of its "
    "Ok results and the calls it makes: sort = stable slice::sort of a copy of the array, sort_by = stable sort_by whose "
    "comparator is Ord::cmp(a.key, b.key) in that order over (element, key) pairs and whose result projects the elements; no "
    "unstable sort is reachable; the internal order compares strings with String::cmp and numbers with partial_cmp in "
    "(self, other) order; every interpret() in a builtin applies the validated expression-reference argument to an element "
    "of the validated array argument, and the result is paired with that same element; max_by/min_by replace the candidate "
    "only together with its key, under gt resp. lt of the new key against the candidate's key, and return the candidate "
    "element; max/min fold the elements with std::cmp::max/min seeded with element 0 over the rest; merge folds its "
    "arguments left to right with an overwriting extend; keys/values iterate the same ordered map; map pushes exactly once "
    "per element with no filter; not_null returns the first non-null argument; length counts chars() (code points), reverse "
    "collects chars().rev(); avg returns null on an empty array before dividing the sum by the length; each remaining "
    "builtin applies the like-named std operation to its arguments in the specified order; the declared result kinds hold "
    "(return-tag analysis, shared with C06)."
)
ASSUMPTIONS = [
    "std operations named in the rows (slice::sort stability, str::contains/starts_with/ends_with, join, chars, BTreeMap order) behave as documented",
    "numeric results of abs/avg/sum/ceil/floor and to_string's JSON encoding are value semantics (not decided)",
]


def arg(k):
    return ("elem", ARGS, k)


def view(kind, x):
    return ("view", kind, x)


def ok_terms(b, lib):
    o = Origins(b, lib)
    oks, opaque = RT.ok_values(b)
    return o, [(blk, o.of_operand(op)) for blk, op in oks], opaque


def run(ctx):
    lib = ctx.lib()
    reg, problems = B.registry(lib)
    if reg is None:
        ctx.missing("registry", "register_builtin_functions", problems[0])
        return
    by_name = {nm: ty for nm, ty, _ in reg}
    sigs = {}
    for nm, ty in by_name.items():
        try:
            i, v = B.signature_of(lib, ty)
            sigs[nm] = (ty, i, v)
        except B.SigError as e:
            ctx.bad("registry", nm, f"signature of {ty}: {e}")
    n = 0
    for nm in sorted(RESULT):
        ty = by_name.get(nm)
        fn = globals().get("fn_" + nm)
        if ty is None:
            ctx.bad("builtin-shape", nm, f"builtin {nm} is not registered")
            continue
        b = B.evaluate_body(lib, ty)
        if b is None:
            ctx.missing("builtin-shape", nm, f"{ty}::evaluate")
            continue
        if fn is None:
            continue
        n += 1
        try:
            fn(ctx, lib, nm, b)
        except Exception as e:  # a shape the matcher cannot even traverse is undecided
            ctx.bad("builtin-shape", f"{nm}:matcher", f"{nm}: shape not recognised ({type(e).__name__}: {e})", b.span)
    ctx.floor("builtin-shape", n, 26, "builtins with a shape row")
    check_no_unstable_sort(ctx, lib, by_name)
    ctx.attempt("check_internal_order", check_internal_order, ctx, lib)
    # contains (and the duplicate test of any builtin comparing elements) is Variable's ==: its table per pair of kinds
    # and the number comparison behind it are part of what those builtins return
    from .c10 import check_equality, check_number_equality
    ctx.attempt("check_equality", check_equality, ctx, lib)
    ctx.attempt("check_number_equality", check_number_equality, ctx, lib)
    # to_number's value for a string is what from_json builds, i.e. what the Deserialize visitor builds for each JSON scalar
    # (exact integers, no casts): the visitor rows of C08 on the same facts
    from .c08 import check_visitor
    ctx.attempt("check_visitor", check_visitor, ctx, lib)
    check_expref_application(ctx, lib, by_name, sigs)
    ctx.attempt("check_result_types", check_result_types, ctx, lib, sigs)


def C(ctx, nm, key, ok, text, b):
    ctx.check(ok, "builtin-shape", f"{nm}:{key}", f"{nm}: {text}", b.span)


def all_ok(oks, pat):
    return bool(oks) and all(ms(t, pat) for _, t in oks)


# ---- numeric ------------------------------------------------------------------------------------
def fn_abs(ctx, lib, nm, b):
    o, oks, _ = ok_terms(b, lib)
    num = Agg(V + "::Number", Each(Call("serde_json::Number::from_f64", Each(Call(r"f64>::abs$", Each(Call("serde_json::Number::as_f64", Each(("field", arg(0), "Number.0")))), regex=True)))))
    C(ctx, nm, "value", any(ms(t, num) for _, t in oks) and all(ms(t, Or_(num, arg(0))) for _, t in oks), "Number(from_f64(|args[0] as f64|)) (the argument itself only on the validated-away arm)", b)


def _round(ctx, lib, nm, b, op):
    o, oks, _ = ok_terms(b, lib)
    pat = Agg(V + "::Number", Each(Call("serde_json::Number::from_f64", Each(Call(rf"f64>::{op}$", Each(view("number", arg(0))), regex=True)))))
    C(ctx, nm, "value", all_ok(oks, pat), f"Number(from_f64(args[0].{op}()))", b)


def fn_ceil(ctx, lib, nm, b):
    _round(ctx, lib, nm, b, "ceil")


def fn_floor(ctx, lib, nm, b):
    _round(ctx, lib, nm, b, "floor")


def fn_avg(ctx, lib, nm, b):
    o, oks, _ = ok_terms(b, lib)
    br = Branches(b, o)
    vals = view("array", arg(0))
    nulls = [(blk, t) for blk, t in oks if ms(t, Agg(V + "::Null"))]
    nums = [(blk, t) for blk, t in oks if not ms(t, Agg(V + "::Null"))]
    # emptiness guard
    guard = None
    for sb, sw in br.switches():
        be = br.bool_edges(sb)
        if be:
            for c in br.cond(sb):
                if m(c, Call(r"::is_empty$", Each(vals), regex=True)):
                    guard = (sb, be[0], be[1])
    ok = guard is not None and len(nulls) == 1 and edge_dominates(b, (guard[0], guard[1]), nulls[0][0])
    C(ctx, nm, "empty-is-null", ok, "an empty array yields null", b)
    # the division is only reached on the non-empty branch
    divs = [(bb, s) for bb, i, s in b.stmts() if s["k"] == "assign" and s["rv"]["k"] == "binop" and s["rv"]["op"] == "Div"]
    ok = guard is not None and len(divs) == 1 and edge_dominates(b, (guard[0], guard[2]), divs[0][0])
    if ok:
        d = divs[0][1]["rv"]
        den = o.of_operand(d["b"])
        ok = ms(den, lambda t: t[0] == "cast" and m(t[1], Call(r"::len$", Each(vals), regex=True)))
        # numerator: accumulates as_number of each element
        adds = [s for bb, i, s in b.stmts() if s["k"] == "assign" and s["rv"]["k"] == "binop" and s["rv"]["op"] == "Add"]
        ok = ok and len(adds) == 1 and ms(o.of_operand(adds[0]["rv"]["b"]), view("number", ("elem", vals)))
        nx = [t for _, t in b.calls() if t["callee"] == "std::iter::Iterator::next"]
        ok = ok and len(nx) == 1 and ms(o.of_operand(nx[0]["args"][0]), ("iter", vals))
    C(ctx, nm, "sum-over-length", ok, "otherwise the sum of all elements (one addition per element, plain iteration) is divided by the array's length", b)
    C(ctx, nm, "result", len(nums) == 1 and ms(nums[0][1], Agg(V + "::Number", Each(Call("serde_json::Number::from_f64", ANY)))), "the quotient becomes the Number result", b)


def fn_sum(ctx, lib, nm, b):
    o, oks, _ = ok_terms(b, lib)
    vals = view("array", arg(0))
    ok = bool(oks)
    clo_ok = False
    if ok:
        pat = Agg(V + "::Number", Each(Call("serde_json::Number::from_f64", Each(Call("std::iter::Iterator::fold", Each(("iter", vals)), Each(lambda t: t[0] == "const"), Each(lambda t: t[0] == "closure"))))))
        ok = all_ok(oks, pat)
        for c in lib.closures_of(b.deff):
            co = Origins(c, lib)
            adds = [s for bb, i, s in c.stmts() if s["k"] == "assign" and s["rv"]["k"] == "binop" and s["rv"]["op"] == "Add"]
            if len(adds) == 1:
                a, bb_ = co.of_operand(adds[0]["rv"]["a"]), co.of_operand(adds[0]["rv"]["b"])
                clo_ok = a == {("param", 2)} and ms(bb_, Or_(view("number", ("param", 3)), Call("std::option::Option::<T>::unwrap_or", Each(view("number", ("param", 3))), ANY)))
    C(ctx, nm, "value", ok and clo_ok, "Number(from_f64(fold(0, elements, acc + element)))", b)


# ---- strings ------------------------------------------------------------------------------------
def fn_contains(ctx, lib, nm, b):
    # decided per kind of (subject, needle): where the Bool/Ok wrapping is written does not matter
    arr = Agg(V + "::Bool", Each(Call(r"slice::<impl \[T\]>::contains$", Each(("field", arg(0), "Array.0")), Each(arg(1)), regex=True)))
    st = Agg(V + "::Bool", Each(Call(r"str::<impl str>::contains$", Each(("field", arg(0), "String.0")), Each(view("string", arg(1))), regex=True)))
    fl = Agg(V + "::Bool", Each(("const", 0)))
    ok = True
    disp = True
    detail = []
    for k0, k1, pat in (("Array", "String", arr), ("Array", "Number", arr), ("String", "String", st), ("String", "Number", fl), ("String", "Array", fl)):
        try:
            res = ok_payloads(results_by_kind(b, lib, {arg(0): k0, arg(1): k1}))
        except Undecided as e:
            ok = False
            detail.append(f"{k0}/{k1}: undecided ({e})")
            continue
        good = bool(res) and all(m(t, pat) for t in res)
        if not good:
            detail.append(f"{k0}/{k1}: {fmt_terms(res)[:120]}")
            if res and all(m(t, Or_(arr, st, fl)) for t in res):
                disp = False
        ok = ok and good
    C(ctx, nm, "value", ok, "array: subject.contains(needle) by value equality; string: substring test against a string needle, false for a non-string needle"
      + (f" — {detail}" if detail else ""), b)
    C(ctx, nm, "dispatch", ok or disp, "the array rule applies to array subjects, the substring rule to string subjects", b)


def _affix(ctx, lib, nm, b, op):
    o, oks, _ = ok_terms(b, lib)
    pat = Agg(V + "::Bool", Each(Call(rf"str::<impl str>::{op}$", Each(view("string", arg(0))), Each(view("string", arg(1))), regex=True)))
    C(ctx, nm, "value", all_ok(oks, pat), f"Bool(args[0].{op}(args[1])) — subject first, affix second", b)


def fn_starts_with(ctx, lib, nm, b):
    _affix(ctx, lib, nm, b, "starts_with")


def fn_ends_with(ctx, lib, nm, b):
    _affix(ctx, lib, nm, b, "ends_with")


def fn_join(ctx, lib, nm, b):
    o, oks, _ = ok_terms(b, lib)
    mapc = Call("std::iter::Iterator::map", Each(("iter", view("array", arg(1)))), Each(lambda t: t[0] == "closure"))
    pat = Agg(V + "::String", Each(Call(r"slice::<impl \[T\]>::join$", Each(Call("std::iter::Iterator::collect", Each(mapc))), Each(view("string", arg(0))), regex=True)))
    ok = all_ok(oks, pat)
    clo_ok = False
    for c in lib.closures_of(b.deff):
        co = Origins(c, lib)
        r = co.of_local(0)
        elem_str = view("string", ("param", 2))
        if ms(r, Call("std::option::Option::<T>::map", Each(elem_str), ANY)) or ms(r, elem_str) or \
                (r and all(m(strip_through(t), elem_str) or m(t, Agg("std::option::Option::Some", Each(elem_str))) or
                           m(t, Agg("std::result::Result::Ok", Each(elem_str))) or (t[0] == "agg" and t[1] == "std::result::Result::Err") for t in r)
                 and any(not (t[0] == "agg" and t[1] == "std::result::Result::Err") for t in r)):
            clo_ok = True
    C(ctx, nm, "value", ok and clo_ok, "String(elements of args[1], each as its own string, in order, joined with args[0])", b)


def fn_length(ctx, lib, nm, b):
    a = Agg(V + "::Number", Each(Call(r"Vec::<T, A>::len$", Each(("field", arg(0), "Array.0")), regex=True)))
    ob = Agg(V + "::Number", Each(Call(r"BTreeMap::<K, V, A>::len$", Each(("field", arg(0), "Object.0")), regex=True)))
    s = Agg(V + "::Number", Each(Call("std::iter::Iterator::count", Each(("iter", ("field", arg(0), "String.0"))))))
    ok = True
    detail = []
    for k0, pat in (("Array", a), ("Object", ob), ("String", s)):
        try:
            res = ok_payloads(results_by_kind(b, lib, {arg(0): k0}))
        except Undecided as e:
            ok = False
            detail.append(f"{k0}: undecided ({e})")
            continue
        good = bool(res) and all(m(t, pat) for t in res)
        if not good:
            detail.append(f"{k0}: {fmt_terms(res)[:120]}")
        ok = ok and good
    C(ctx, nm, "value", ok, "array: element count; object: member count; string: chars().count()" + (f" — {detail}" if detail else ""), b)
    ch = [t for _, t in b.calls() if re.search(r"str::<impl str>::(chars|len|char_indices|bytes|encode_utf16)$", t["callee"])]
    C(ctx, nm, "code-points", len(ch) == 1 and ch[0]["callee"].endswith("::chars"), f"a string's length is counted in code points (str::chars), not bytes or UTF-16 units (string iterators used: {[c['callee'].split('::')[-1] for c in ch]})", b)


def fn_reverse(ctx, lib, nm, b):
    o, oks, _ = ok_terms(b, lib)
    # the payloads through the accessor or through a match on the value itself
    st = Agg(V + "::String", Each(Call("std::iter::Iterator::collect", Each(("rev", ("iter", Or_(view("string", arg(0)), ("field", arg(0), "String.0"))))))))
    arr = Agg(V + "::Array", Each(Or_(view("array", arg(0)), ("field", arg(0), "Array.0"))))
    ok = True
    for k0, pat in (("String", st), ("Array", arr)):
        try:
            res = ok_payloads(results_by_kind(b, lib, {arg(0): k0}))
        except Undecided:
            res = set()
        ok = ok and bool(res) and all(m(t, pat) for t in res)
    rv = [t for _, t in b.calls() if re.search(r"slice::<impl \[T\]>::reverse$", t["callee"])]
    C(ctx, nm, "value", ok and len(rv) == 1, "string: chars().rev() collected (code points reversed); array: a copy of the array reversed in place", b)
    ch = [t["callee"].split("::")[-1] for _, t in b.calls() if re.search(r"str::<impl str>::(chars|bytes|char_indices)$", t["callee"])]
    C(ctx, nm, "code-points", ch == ["chars"], f"a string is reversed by code points (found {ch})", b)


# ---- arrays / objects ---------------------------------------------------------------------------
def fn_keys(ctx, lib, nm, b):
    o, oks, _ = ok_terms(b, lib)
    pat = Agg(V + "::Array", Each(Call("std::iter::Iterator::collect", Each(Call("std::iter::Iterator::map", Each(("iter", view("object", arg(0)))), Each(lambda t: t[0] == "closure"))))))
    ok = all_ok(oks, pat)
    kc = [t for _, t in b.calls() if t["callee"].endswith("BTreeMap::<K, V, A>::keys")]
    clo_ok = False
    for c in lib.closures_of(b.deff):
        r = Origins(c, lib).of_local(0)
        if ms(r, Agg(V + "::String", Each(("param", 2)))):
            clo_ok = True
    C(ctx, nm, "value", ok and len(kc) == 1 and clo_ok, "Array of String(key) for each key of the object in the map's (ascending) order", b)


def fn_values(ctx, lib, nm, b):
    o, oks, _ = ok_terms(b, lib)
    pat = Agg(V + "::Array", Each(Call("std::iter::Iterator::collect", Each(("iter", view("object", arg(0)))))))
    vc = [t for _, t in b.calls() if t["callee"].endswith("BTreeMap::<K, V, A>::values")]
    bad = [t["callee"] for _, t in b.calls() if t["callee"].endswith(("::rev", "::sort", "::reverse"))]
    C(ctx, nm, "value", all_ok(oks, pat) and len(vc) == 1 and not bad, "Array of the object's values in the map's (ascending key) order — pairwise with keys()", b)


def fn_merge(ctx, lib, nm, b):
    o, oks, _ = ok_terms(b, lib)
    ext = [t for _, t in b.calls() if t["callee"] == "std::iter::Extend::extend"]
    nx = [t for _, t in b.calls() if t["callee"] == "std::iter::Iterator::next"]
    ok = len(ext) == 1 and len(nx) == 1 and bool(oks)
    if ok:
        dest = o.of_operand(ext[0]["args"][0])
        src = o.of_operand(ext[0]["args"][1])
        ok = ms(dest, Call(r"BTreeMap::<K, V>::new$", regex=True)) and ms(src, view("object", ("elem", ARGS))) and \
            ms(o.of_operand(nx[0]["args"][0]), ("iter", ARGS)) and all_ok(oks, Agg(V + "::Object", Each(Call(r"BTreeMap::<K, V>::new$", regex=True))))
        # unconditional per argument
        cyc = cfg_cycles(b)
        ok = ok and len(cyc) == 1
    C(ctx, nm, "value", ok, "Object built by extending an empty map with each argument's members in argument order (later arguments overwrite: right-biased)", b)


def fn_map(ctx, lib, nm, b):
    """Array of interpret(element, the expression, ctx) for every element of args[1], in order, nothing dropped —
    as a loop with push or as an iterator chain."""
    from ..collected import ELEM, describe_vector
    o, oks, _ = ok_terms(b, lib)
    allt = set().union(*[set(t) for _, t in oks]) if oks else set()
    ok = bool(allt) and all(t[0] == "agg" and t[1] == V + "::Array" for t in allt)
    if ok:
        for t in allt:
            d = describe_vector(lib, b, o, set(t[2][0]))
            ok = ok and d is not None and len(d) == 1 and ms(d[0].source, view("array", arg(1))) and d[0].every_item and \
                ms(d[0].value, Call(INTERP, Each(ELEM), Each(view("expref", arg(0))), Each(("param", 3))))
    C(ctx, nm, "value", ok, "the expression is applied to every element in order and every result (incl. null) is pushed: same length as the input", b)


def fn_not_null(ctx, lib, nm, b):
    o, oks, _ = ok_terms(b, lib)
    br = Branches(b, o)
    el = ("elem", ARGS)
    hit = [(blk, t) for blk, t in oks if ms(t, el)]
    nul = [(blk, t) for blk, t in oks if ms(t, Agg(V + "::Null"))]
    nx = [(bb, t) for bb, t in b.calls() if t["callee"] == "std::iter::Iterator::next"]
    ok = len(hit) == 1 and len(nul) == 1 and len(nx) == 1 and ms(o.of_operand(nx[0][1]["args"][0]), ("iter", ARGS))
    if ok:
        good = False
        for sb, sw in br.switches():
            be = br.bool_edges(sb)
            if be:
                for c in br.cond(sb):
                    neg = False
                    while c[0] == "un" and c[1] == "Not":
                        c = c[2]
                        neg = not neg
                    if m(c, Call("variable::Variable::is_null", Each(el))):
                        not_null_edge = (sb, be[0]) if neg else (sb, be[1])
                        good = edge_dominates(b, not_null_edge, hit[0][0])
        # null only after the iterator is exhausted
        ve = br.variant_edges(nx[0][1]["t"])
        done = ve is not None and edge_dominates(b, (nx[0][1]["t"], ve["edges"].get("None", ve["otherwise"])), nul[0][0])
        ok = good and done
    if not ok and not nx:
        # args.iter().find(|a| !a.is_null()) — the first item satisfying the predicate, by definition — or null for None
        allt = set().union(*[set(t) for _, t in oks]) if oks else set()
        allt = {strip_through(x) for x in expand_defaults(allt)}
        finds = {t for t in allt if t[0] == "call" and t[1] == "std::iter::Iterator::find"}
        good = len(finds) == 1 and all(t in finds or m(t, Agg(V + "::Null")) for t in allt) and any(m(t, Agg(V + "::Null")) for t in allt)
        if good:
            f = next(iter(finds))
            good = set(f[2][0]) == {("iter", ARGS)} and len(f[2][1]) == 1
            clo = next(iter(f[2][1]))
            cb = lib.fn(clo[1]) if good and clo[0] == "closure" else None
            good = cb is not None
            if good:
                r = Origins(cb, lib).of_local(0)
                good = bool(r) and all(x[0] == "un" and x[1] == "Not" and x[2][0] == "call" and x[2][1] == "variable::Variable::is_null" and
                                       set(x[2][2][0]) == {("param", 2)} for x in r)
        ok = good
    C(ctx, nm, "value", ok, "the first argument (in order) that is not null, or null when all are", b)


def fn_to_array(ctx, lib, nm, b):
    o, oks, _ = ok_terms(b, lib)
    wrap = lambda t: t[0] == "agg" and t[1] == V + "::Array" and bool(t[2][0])
    ok = True
    for k0 in ("Null", "String", "Bool", "Number", "Array", "Object"):
        try:
            res = ok_payloads(results_by_kind(b, lib, {arg(0): k0}))
        except Undecided:
            res = set()
        ok = ok and bool(res) and (res == {arg(0)} if k0 == "Array" else all(wrap(t) for t in res))
    if ok:
        # the wrapped vector has the single element args[0]
        arrs = [s for bb, i, s in b.stmts() if s["k"] == "assign" and s["rv"]["k"] == "agg" and s["rv"]["ak"] == "array"]
        ok = len(arrs) == 1 and len(arrs[0]["rv"]["ops"]) == 1 and ms(o.of_operand(arrs[0]["rv"]["ops"][0]), arg(0))
    C(ctx, nm, "value", ok, "an array is returned as is; anything else is wrapped in a one-element array", b)


def fn_to_string(ctx, lib, nm, b):
    o, oks, _ = ok_terms(b, lib)
    ts = [t for _, t in b.calls() if t["callee"] == "std::string::ToString::to_string"]
    ok = len(ts) == 1 and o.of_operand(ts[0]["args"][0]) == {arg(0)}
    enc = Agg(V + "::String", Each(arg(0)))
    for k0 in ("Null", "String", "Bool", "Number", "Array", "Object"):
        try:
            res = ok_payloads(results_by_kind(b, lib, {arg(0): k0}))
        except Undecided:
            res = set()
        ok = ok and bool(res) and (res == {arg(0)} if k0 == "String" else all(m(t, enc) for t in res))
    C(ctx, nm, "value", ok, "a string is returned as is; anything else becomes String(its JSON text via Display)", b)
    d = lib.fn("<variable::Variable as std::fmt::Display>::fmt")
    if d is not None:
        from .c08 import display_is_json
        C(ctx, nm, "display-is-json", display_is_json(d, lib), "Display for Variable is serde_json::to_string(self) on every path", d)


def fn_to_number(ctx, lib, nm, b):
    o, oks, _ = ok_terms(b, lib)
    br = Branches(b, o)
    pj = Call("variable::Variable::from_json", Each(Or_(("field", arg(0), "String.0"), view("string", arg(0)))))
    nullp = Agg(V + "::Null")
    ok = True
    detail = []

    def parsed_is_number(v):
        # the kind test on the parsed value (not on the argument): decided per scenario
        def h(t, argvals):
            if t[1] == "variable::Variable::is_number" and term_mentions(t[2], lambda x: x[0] == "call" and x[1] == "variable::Variable::from_json"):
                return v
            return None
        return h
    for k0 in ("Null", "String", "Bool", "Number", "Array", "Object"):
        for isnum in ((0, 1) if k0 == "String" else (None,)):
            try:
                res = ok_payloads(results_by_kind(b, lib, {arg(0): k0}, extra_call=parsed_is_number(isnum) if isnum is not None else None))
                res = {strip_through(x) for x in expand_defaults(res)}
            except Undecided:
                res = set()
            if k0 == "Number":
                good = res == {arg(0)}
            elif k0 == "String" and isnum == 1:
                good = any(m(t, pj) for t in res) and all(m(t, pj) or m(t, nullp) for t in res)
            else:
                # any other kind, or a string whose parsed value is not a number
                good = bool(res) and all(m(t, nullp) for t in res)
            if not good:
                detail.append(f"{k0}{'' if isnum is None else '/parsed-is-number=' + str(isnum)}: {fmt_terms(res)[:100]}")
            ok = ok and good
    # what a string becomes is decided by parsing it and by nothing else: no result for a string argument is produced on a
    # path that has not been through the JSON parse
    try:
        per = results_by_kind(b, lib, {arg(0): "String"}, by_path=True)
    except Undecided:
        per = None
    parses = {blk for blk, t in b.calls() if t["callee"] == "variable::Variable::from_json"}
    skipped = per is None or not parses or any(ok_payloads(r) and not (set(path) & parses) for path, r in per)
    C(ctx, nm, "string-decided-by-parse", not skipped, "every result for a string argument lies after Variable::from_json(the string)", b)
    C(ctx, nm, "value", ok, "a number is returned as is; a string is parsed as JSON and kept only if it is a number; everything else is null" + (f" — {detail}" if detail else ""), b)


def fn_type(ctx, lib, nm, b):
    o, oks, _ = ok_terms(b, lib)
    pat = Agg(V + "::String", Each(Call("variable::Variable::get_type", Each(arg(0)))))
    C(ctx, nm, "value", all_ok(oks, pat), "String(name of args[0]'s type)", b)
    d = lib.fn("<variable::JmespathType as std::fmt::Display>::fmt")
    if d is not None:
        # name table: each variant -> its lowercase JSON type name
        names = {}
        o2 = Origins(d, lib)
        br = Branches(d, o2)
        for sb, sw in br.switches():
            ve = br.variant_edges(sb)
            if ve and ve["adt"] == "variable::JmespathType":
                for v, tgt in ve["edges"].items():
                    for x in sorted(reach_avoiding(d, tgt)):
                        if edge_dominates(d, (sb, tgt), x):
                            for s in d.blocks[x]["stmts"]:
                                if s["k"] == "assign" and s["rv"]["k"] == "use" and s["rv"]["op"].get("k") == "const" and s["rv"]["op"]["ty"] == "&str":
                                    names[v] = s["rv"]["op"]["val"].strip('"')
        want = {"Null": "null", "String": "string", "Number": "number", "Boolean": "boolean", "Array": "array", "Object": "object", "Expref": "expref"}
        C(ctx, nm, "type-names", names == want, f"type names are the JSON type names (found {names})", d)


# ---- ordering -----------------------------------------------------------------------------------
def fn_sort(ctx, lib, nm, b):
    o, oks, _ = ok_terms(b, lib)
    sc = [t for _, t in b.calls() if re.search(r"slice::<impl \[T\]>::sort", t["callee"])]
    ok = len(sc) == 1 and sc[0]["callee"].endswith("slice::<impl [T]>::sort") and len(oks) == 1
    if ok:
        ok = ms(oks[0][1], Agg(V + "::Array", Each(view("array", arg(0))))) and ms(o.of_operand(sc[0]["args"][0]), view("array", arg(0)))
    cl = [t for _, t in b.calls() if t["callee"] == "std::clone::Clone::clone" and ms(o.of_operand(t["args"][0]), view("array", arg(0)))]
    C(ctx, nm, "value", ok and len(cl) == 1, "a copy of the array sorted with the stable slice::sort (ascending in the value order)", b)


def fn_sort_by(ctx, lib, nm, b):
    o, oks, _ = ok_terms(b, lib)
    sc = [t for _, t in b.calls() if re.search(r"slice::<impl \[T\]>::sort", t["callee"])]
    ok = len(sc) == 1 and sc[0]["callee"].endswith("slice::<impl [T]>::sort_by")
    cmp_ok = proj_ok = False
    if ok:
        for c in o.of_operand(sc[0]["args"][1]):
            if c[0] == "closure":
                cb = lib.fn(c[1])
                r = Origins(cb, lib).of_local(0)
                cmp_ok = ms(r, Call("std::cmp::Ord::cmp", Each(("field", ("param", 2), "1")), Each(("field", ("param", 3), "1"))))
    C(ctx, nm, "stable-ascending", ok and cmp_ok, "the (element, key) pairs are sorted with the stable sort_by and the comparator key(a).cmp(key(b)) — ascending, ties keep input order", b)
    res = [(blk, t) for blk, t in oks if not ms(t, Agg(V + "::Array", Each(view("array", arg(0)))))]
    ok = len(res) == 1
    if ok:
        pat = Agg(V + "::Array", Each(Call("std::iter::Iterator::collect", Each(Call("std::iter::Iterator::map", Each(("iter", Call("std::vec::Vec::<T>::new"))), Each(lambda t: t[0] == "closure"))))))
        ok = ms(res[0][1], pat)
        for t in res[0][1]:
            for c in t[2][0]:
                for mp in c[2][0]:
                    for clo in mp[2][1]:
                        cb = lib.fn(clo[1])
                        proj_ok = ms(Origins(cb, lib).of_local(0), ("field", ("param", 2), "0"))
    C(ctx, nm, "projects-elements", ok and proj_ok, "the result lists the elements (pair.0) of the sorted pairs, in order", b)
    # pairs: (vals[0], first) and (v, mapped) pushed for every element
    pushes = [t for _, t in b.calls() if t["callee"].endswith("Vec::<T, A>::push")]
    good = len(pushes) == 2
    for t in pushes:
        val = o.of_operand(t["args"][1])
        good = good and ms(val, lambda x: x[0] == "agg" and x[1] == "tuple" and len(x[2]) == 2 and paired(x))
    C(ctx, nm, "pairs", good, "each element is paired with the key computed from that same element", b)
    emp = [(blk, t) for blk, t in oks if ms(t, Agg(V + "::Array", Each(view("array", arg(0)))))]
    guard_ok = False
    br = Branches(b, o)
    for sb, sw in br.switches():
        be = br.bool_edges(sb)
        if be and emp:
            for c in br.cond(sb):
                if m(c, Call(r"::is_empty$", Each(view("array", arg(0))), regex=True)) and edge_dominates(b, (sb, be[0]), emp[0][0]):
                    guard_ok = True
    C(ctx, nm, "empty", len(emp) == 1 and guard_ok, "the input is returned unchanged exactly when it is empty (is_empty guard)", b)


def paired(tup):
    """tuple(elem, interpret(elem, ..)) over the same element term."""
    els, keys = set(tup[2][0]), set(tup[2][1])
    for k in keys:
        if not (k[0] == "call" and k[1] == INTERP):
            return False
        if set(k[2][0]) != els:
            return False
    return bool(els) and bool(keys)


def _extreme_by(ctx, lib, nm, b, op):
    o, oks, _ = ok_terms(b, lib)
    vals = view("array", arg(0))
    # candidate tuple local: aggregates tuple(elem, key)
    tuples = [(bb, s) for bb, i, s in b.stmts() if s["k"] == "assign" and s["rv"]["k"] == "agg" and s["rv"]["ak"] == "tuple" and len(s["rv"]["ops"]) == 2]
    good = len(tuples) == 2
    for bb, s in tuples:
        t = o._rv(s["rv"], bb, 0)
        good = good and ms(t, lambda x: paired(x))
    C(ctx, nm, "candidate-pairs", good, "the candidate is always an (element, key of that element) pair: seeded with element 0, replaced by (v, key(v))", b)
    # replacement under op(mapped, candidate.1)
    cmpc = [(bb, t) for bb, t in b.calls() if re.match(r"^std::cmp::PartialOrd::(gt|lt|ge|le)$", t["callee"])]
    ok = len(cmpc) == 1 and cmpc[0][1]["callee"].endswith("::" + op)
    if ok:
        a0 = o.of_operand(cmpc[0][1]["args"][0])
        a1 = o.of_operand(cmpc[0][1]["args"][1])
        ok = ms(a0, Call(INTERP, Each(("elem", vals)), ANY, ANY)) and ms(a1, lambda x: x[0] == "call" and x[1] == INTERP)
        # a1 is the candidate's key: field 1 of the candidate tuple => origin is an interpret result (either seed or previous)
        br = Branches(b, o)
        # the branch taken on the comparison's answer: right after the call, or further on when the comparison sits in a
        # spliced helper / closure body
        sw_blk, be = cmpc[0][1]["t"], br.bool_edges(cmpc[0][1]["t"])
        if be is None:
            for sb, sw in br.switches():
                be2 = br.bool_edges(sb)
                if be2 and any(c[0] == "call" and c[1] == cmpc[0][1]["callee"] and c[3] == cmpc[0][0] for c in br.cond(sb)):
                    sw_blk, be = sb, be2
        repl = [bb for bb, s in tuples if bb != min(x for x, _ in tuples)]
        ok = ok and be is not None and len(repl) == 1 and edge_dominates(b, (sw_blk, be[0]), repl[0])
    C(ctx, nm, "replacement", ok, f"the candidate is replaced exactly when key(v).{op}(candidate key) — {'maximum' if op == 'gt' else 'minimum'}, first one wins on ties", b)
    res = [(blk, t) for blk, t in oks if not ms(t, Agg(V + "::Null"))]
    ok = len(res) == 1 and ms(res[0][1], Or_(("elem", vals), ("elem", vals, 0)))
    C(ctx, nm, "returns-element", ok, "the result is the candidate's element (an element of the input array)", b)
    nul = [(blk, t) for blk, t in oks if ms(t, Agg(V + "::Null"))]
    C(ctx, nm, "empty", len(nul) == 1, "an empty array yields null", b)
    nx = [t for _, t in b.calls() if t["callee"] == "std::iter::Iterator::next"]
    ok = len(nx) == 1 and ms(o.of_operand(nx[0]["args"][0]), ("adapt", "skip", ("enum", vals), fs({("const", 1)})))
    C(ctx, nm, "visits-rest", ok, "all remaining elements (index 1..) are visited in order", b)


def fn_max_by(ctx, lib, nm, b):
    _extreme_by(ctx, lib, nm, b, "gt")


def fn_min_by(ctx, lib, nm, b):
    _extreme_by(ctx, lib, nm, b, "lt")


def _extreme(ctx, lib, nm, b, op):
    """The extreme element under the internal order: seeded with the first element and combined with every other element by
    std::cmp::<op>(acc, item) — spelled fold(skip(1), v[0]) behind an emptiness test, or reduce() with null for None."""
    o, oks, _ = ok_terms(b, lib)
    vals = view("array", arg(0))
    allv = set()
    for _, t in oks:
        allv |= set(t)
    res = {t for t in allv if not m(t, Agg(V + "::Null"))}
    fold_pat = Call("std::iter::Iterator::fold", Each(("adapt", "skip", ("iter", vals), fs({("const", 1)}))), Each(("elem", vals, 0)), Each(lambda t: t[0] == "closure"))
    def uncast(t):
        while t[0] == "cast":
            t = t[1]
        return t
    red_pat = Call("std::iter::Iterator::reduce", Each(("iter", vals)), Each(lambda t: t[0] == "closure" or uncast(t)[0] == "fnitem"))
    ok = bool(res) and all(m(t, fold_pat) or m(t, red_pat) for t in res)
    clo_ok = ok
    for t in res:
        for c in t[2][-1]:
            if uncast(c)[0] == "fnitem":
                # reduce(std::cmp::<op>): the function itself is the combining step
                clo_ok = clo_ok and uncast(c)[1] == f"std::cmp::{op}"
                continue
            cb = lib.fn(c[1])
            r = Origins(cb, lib).of_local(0) if cb else set()
            direct = ms(r, Call(f"std::cmp::{op}", Each(("param", 2)), Each(("param", 3))))
            # the combining function handed in as a function pointer captured by the closure: resolved at this creation site
            via_capture = bool(r) and all(
                x[0] == "call" and x[1] == "<indirect>" and len(x) > 4 and len(x[2]) == 2 and set(x[2][0]) == {("param", 2)} and set(x[2][1]) == {("param", 3)} and
                len(x[4]) == 1 and next(iter(x[4]))[0] == "field" and next(iter(x[4]))[1] == ("closure_env",) and
                _capture_is_fn(c, next(iter(x[4]))[2], f"std::cmp::{op}") for x in r)
            clo_ok = clo_ok and (direct or via_capture)
    C(ctx, nm, "value", ok and clo_ok, f"the first element combined with every other element by std::cmp::{op}(acc, item), in order", b)
    nul = {t for t in allv if m(t, Agg(V + "::Null"))}
    # null exactly for the empty array: behind the emptiness test, or as reduce()'s None
    C(ctx, nm, "empty", bool(nul), "an empty array yields null", b)


def _capture_is_fn(closure_term, idx, fn):
    """Capture number idx of this closure value is the named function (as an item or coerced to a pointer)."""
    if not idx.isdigit() or int(idx) >= len(closure_term[2]):
        return False
    caps = closure_term[2][int(idx)]
    out = set()
    for x in caps:
        while x[0] == "cast":
            x = x[1]
        out.add(x)
    return bool(out) and all(x[0] == "fnitem" and x[1] == fn for x in out)


def fn_max(ctx, lib, nm, b):
    _extreme(ctx, lib, nm, b, "max")


def fn_min(ctx, lib, nm, b):
    _extreme(ctx, lib, nm, b, "min")


# =============================================================================================
def check_no_unstable_sort(ctx, lib, by_name):
    rule = "stable-sort"
    cg = CallGraph(lib)
    roots = [f"<{by_name[n]} as functions::Function>::evaluate" for n in ("sort", "sort_by") if n in by_name]
    reach = cg.reachable_from(roots)
    bad = []
    nsort = 0
    for d in sorted(reach):
        b = cg.nodes[d]
        for bb, t in b.calls():
            c = t["callee"]
            if re.search(r"sort_unstable|select_nth_unstable|BinaryHeap|sort_floats", c):
                bad.append((d, c))
            if re.search(r"slice::<impl \[T\]>::sort(_by|_by_key|_by_cached_key)?$", c):
                nsort += 1
    for d, c in bad:
        ctx.bad(rule, f"{d}->{c.split('::')[-1]}", f"{d} uses {c}: equal keys may be reordered", "")
    ctx.check(not bad and nsort >= 2, rule, "inventory", f"sort and sort_by reach only the stable slice sorts ({nsort} sort call sites in {len(reach)} reachable bodies)")


def check_internal_order(ctx, lib):
    rule = "value-order"
    from ..leaf import check_kind_equality
    check_kind_equality(ctx, lib, rule)
    b = ctx.fn("<variable::Variable as std::cmp::Ord>::cmp", rule=rule)
    if b is None:
        return
    o = Origins(b, lib)
    # exhaustive walk: (same type?, kind) -> the only possible results
    from ..decision import Walker
    from ..leaf import KINDS, TYPE_OF, VIEW_KIND
    EQUAL = ("agg", "std::cmp::Ordering::Equal", (), ())
    from ..leaf import is_payload, pair_walker
    LESS = ("agg", "std::cmp::Ordering::Less", (), ())
    for k in KINDS:
        for k2 in KINDS:
            w = pair_walker(b, lib, k, k2)
            try:
                paths = w.walk()
            except Exception as e:  # Undecided
                ctx.bad(rule, f"cmp:{k}/{k2}", f"Ord::cmp undecidable: {e}", b.span)
                continue
            outs = set()
            for path, leaf in paths:
                for t in w.result_on_path(path):
                    if t == EQUAL:
                        outs.add("Equal")
                    elif t[0] == "call" and t[1] == "std::cmp::Ord::cmp" and len(t[2]) == 2 and t[2][0] and t[2][1] and \
                            all(is_payload(x, 1, "String") for x in t[2][0]) and all(is_payload(x, 2, "String") for x in t[2][1]):
                        outs.add("String::cmp(self, other)")
                    elif t[0] == "call" and t[1] == "std::option::Option::<T>::unwrap_or" and len(t[2]) == 2 and set(t[2][1]) == {LESS} and t[2][0] and all(
                            x[0] == "call" and x[1] == "std::cmp::PartialOrd::partial_cmp" and x[2][0] and x[2][1] and
                            all(is_payload(y, 1, "Number") for y in x[2][0]) and all(is_payload(y, 2, "Number") for y in x[2][1]) for x in t[2][0]):
                        outs.add("partial_cmp(self, other) or Less")
                    else:
                        outs.add("?" + fmt_terms([t])[:70])
            same = k == k2
            if not same:
                want = [{"Equal"}]
            elif k == "String":
                want = [{"String::cmp(self, other)"}]
            elif k == "Number":
                want = [{"partial_cmp(self, other) or Less"}]
            else:
                want = [{"Equal"}]
            if same:
                ctx.check(outs in want, rule, f"cmp:{k}/same-type",
                          f"Variable::cmp on {k} vs {k} yields {sorted(want[0])} and nothing else (found {sorted(outs)})", b.span)
            elif outs not in want:
                ctx.bad(rule, f"cmp:{k}/different-type", f"Variable::cmp on {k} vs {k2} yields ['Equal'] and nothing else (found {sorted(outs)})", b.span)
        ctx.check(True, rule, f"cmp:{k}/different-type-cases", f"{k} against the six other kinds walked")
    # the two orderings used are the payloads' own: String::cmp and f64::partial_cmp with self first (checked per case above);
    # the type gate is the case table itself (different kinds -> Equal)
    # PartialOrd delegates to cmp consistently: each operator is walked under the three outcomes of self.cmp(other),
    # whatever its spelling (== Ordering::X, is_lt()/is_le()/.., matches!, match)
    from ..decision import Undecided, Walker
    TABLE = {"lt": {"Less"}, "le": {"Less", "Equal"}, "gt": {"Greater"}, "ge": {"Greater", "Equal"}}
    IS = {"is_lt": {"Less"}, "is_le": {"Less", "Equal"}, "is_gt": {"Greater"}, "is_ge": {"Greater", "Equal"}, "is_eq": {"Equal"}, "is_ne": {"Less", "Greater"}}
    for meth in ("lt", "gt", "le", "ge"):
        pb = lib.fn(f"<variable::Variable as std::cmp::PartialOrd>::{meth}")
        if pb is None:
            if meth in ("lt", "gt"):
                ctx.missing(rule, meth, f"PartialOrd::{meth} for Variable")
            continue
        po = Origins(pb, lib)
        cc = [t for _, t in pb.calls() if t["callee"] == "std::cmp::Ord::cmp"]
        ok = len(cc) >= 1 and all(po.of_operand(t["args"][0]) == {("param", 1)} and po.of_operand(t["args"][1]) == {("param", 2)} for t in cc)
        truth = set()
        for outcome in ("Less", "Equal", "Greater"):
            def is_cmp(t):
                return t[0] == "call" and t[1] == "std::cmp::Ord::cmp"

            def atom(t, outcome=outcome):
                if t[0] == "discr" and is_cmp(t[1]):
                    return outcome
                if t[0] == "promoted":
                    pbody = lib.promoted(pb.deff, t[1])
                    if pbody is not None:
                        for _, _, st in pbody.stmts(reachable_only=False):
                            if st["k"] == "assign" and st["rv"]["k"] == "agg" and st["rv"].get("adt") == "std::cmp::Ordering":
                                return st["rv"]["variant"]
                if t[0] == "agg" and t[1].startswith("std::cmp::Ordering::"):
                    return t[1].split("::")[-1]
                return None

            def call(t, argvals, outcome=outcome):
                if is_cmp(t):
                    return outcome
                nm = t[1].split("::")[-1]
                if "Ordering" in t[1] and nm in IS and argvals and isinstance(argvals[0], str):
                    return int(argvals[0] in IS[nm])
                if t[1] in ("std::cmp::PartialEq::eq", "std::cmp::PartialEq::ne") and len(argvals) == 2 and all(isinstance(x, str) for x in argvals):
                    return int((argvals[0] == argvals[1]) == t[1].endswith("::eq"))
                return None

            w = Walker(pb, po, atom=atom, call=call)
            try:
                vals = set()
                for path, leaf in w.walk():
                    vals.add(w.eval_terms(w.result_on_path(path)))
                if vals == {1}:
                    truth.add(outcome)
                elif vals != {0}:
                    ok = False
            except Undecided:
                ok = False
        ctx.check(ok and truth == TABLE[meth], rule, f"partial-ord-{meth}", f"a.{meth}(b) is true exactly when a.cmp(b) is in {sorted(TABLE[meth])} (found {sorted(truth)})", pb.span)


def check_expref_application(ctx, lib, by_name, sigs):
    rule = "expref-per-element"
    n = 0
    for nm in ("map", "sort_by", "max_by", "min_by"):
        if nm not in sigs:
            continue
        ty, inputs, variadic = sigs[nm]
        b = B.evaluate_body(lib, ty)
        if b is None:
            continue
        kexp = [i for i, t in enumerate(inputs) if t == fs({"expref"})]
        karr = [i for i, t in enumerate(inputs) if t == fs({"array"})]
        if len(kexp) != 1 or len(karr) != 1:
            ctx.bad(rule, f"{nm}:signature", f"{nm} should have one expref and one array parameter")
            continue
        o = Origins(b, lib)
        from ..collected import call_sites
        for argsets, span in call_sites(lib, b, o, INTERP):
            t = {"span": {"s": span}}
            n += 1
            d, a, c = argsets[0], argsets[1], argsets[2]
            el = view("array", arg(karr[0]))
            ok = ms(d, Or_(("elem", el), ("elem", el, 0))) and ms(a, view("expref", arg(kexp[0]))) and c == {("param", 3)}
            ctx.check(ok, rule, f"{nm}@{n}", f"{nm}: interpret(element of args[{karr[0]}], the expression reference args[{kexp[0]}], ctx) ({fmt_terms(d)[:40]}; {fmt_terms(a)[:40]})", t["span"]["s"])
    ctx.floor(rule, n, 7, "expression-reference applications in builtins")
