"""C05 — compile and search are total: no panic, abort or hang on any input."""
import re

from .. import builtins as B
from .. import rettags as RT
from .. import slicecheck
from ..analysis import (Branches, Origins, cfg_cycles, edge_dominates, edges_dominate, fmt_terms, reach_avoiding,
                        sccs, term_mentions)
from ..charclass import CharFlow, ISet
from ..effects import reachable_bodies
from ..parsing import AST, P, TOKEN, first_discr_switch, lbp_table, region_aggs, region_calls

fs = frozenset

EXPLANATION = (
    "Three obligations over every body reachable from parse/compile/search/conversions (call graph with trait fan-out, "
    "registry fan-out and callbacks from external generic code): (1) PANIC SITES: every MIR Assert (bounds, overflow, "
    "negation, division), every call into core::panicking / unwrap / expect, every Index::index call and every call of a "
    "deny-listed panicking std API is inventoried and must be discharged by a proof rule whose side conditions are checked "
    "on the CFG (validated-argument index, constant index, guarded counter, non-empty guard, len>=k guard, arity-equal "
    "index, iteration counter, dead match arm by validated kind, token-range invariant, slice routine = reference tree) — "
    "a site no rule discharges is a violation; (2) LOOPS: every CFG cycle must contain a progress construct (next() on an "
    "in-memory iterator; a parser routine that consumes a token with Eof ending the loop; a monotone checked stepper whose "
    "direction matches its guard and whose step cannot be 0); (3) RECURSION: every recursive SCC of the call graph must be "
    "bounded — recursion over nested input (parser, evaluator, structural traversals of the syntax tree) has no depth "
    "guard and is reported as known findings."
)
ASSUMPTIONS = [
    "std / serde / serde_json callees outside the deny-list do not panic for the argument shapes used",
    "rustc emits an Assert terminator for every checked arithmetic operation and slice index in unoptimised MIR",
    "collections hold fewer than 2^31 (i32 casts) / usize::MAX elements; allocation failure is out of scope",
    "JSON documents reach search through serde_json's parser (nesting <= 128) or a user Serialize impl that recurses itself first",
    "user-supplied custom functions and Serialize impls neither panic nor diverge; serde's key-then-value protocol is respected",
]

PANIC_CALLS = re.compile(
    r"^(core|std)::(panicking::|rt::begin_panic|option::Option::<T>::(unwrap|expect|unwrap_unchecked)$|"
    r"result::Result::<T, E>::(unwrap|expect|unwrap_err|expect_err|unwrap_unchecked)$|"
    r"option::unwrap_failed|option::expect_failed|result::unwrap_failed|slice::index::|str::slice_error_fail|"
    r"cell::panic_already|process::abort)"
)
INDEX_CALLS = {"std::ops::Index::index", "std::ops::IndexMut::index_mut"}
DENY = re.compile(
    r"^std::(vec::Vec::<T, A>::(remove|insert|swap_remove|split_off|drain|truncate_front|split_at_spare_mut)|"
    r"collections::VecDeque::<T, A>::(remove|insert|swap|split_off|drain|range)|"
    r"string::String::(remove|insert|insert_str|split_off|drain|replace_range|truncate)|"
    r"slice::<impl \[T\]>::(split_at|split_at_mut|copy_from_slice|clone_from_slice|swap|chunks|chunks_exact|windows|rotate_left|rotate_right|copy_within|select_nth_unstable.*)|"
    r"str::<impl str>::(split_at|split_at_mut)|"
    r"iter::Iterator::step_by|cell::RefCell::<T>::(borrow|borrow_mut)|"
    r"char::from_digit|char::methods::<impl char>::(to_digit|is_digit)|"
    r"thread::|sync::Mutex|sync::RwLock)"
)
CORE_DENY = re.compile(
    r"^core::(slice::<impl \[T\]>::(split_at|split_at_mut|copy_from_slice|clone_from_slice|swap|chunks|chunks_exact|windows|rotate_left|rotate_right|copy_within)|"
    r"num::<impl [iu](8|16|32|64|128|size)>::(abs|pow|div_euclid|rem_euclid|next_power_of_two|isqrt|ilog|ilog2|ilog10)|"
    r"str::<impl str>::(split_at|split_at_mut)|char::methods::<impl char>::(to_digit|is_digit))"
)
FINITE_ITER_BASES = re.compile(r"^(param|field|view|call|elem|upvar|closure_env|agg|cast|undef)$")
INFINITE_ITERS = re.compile(r"(iter::repeat|iter::Iterator::cycle|iter::from_fn|iter::successors|iter::repeat_with|ops::RangeFrom)")


def run(ctx):
    lib = ctx.lib()
    cg, reach = reachable_bodies(lib)
    ctx.analysed["bodies_total"] = len(cg.nodes)
    ctx.analysed["bodies_reachable"] = len(reach)
    ctx.floor("reachability", len(reach), 200, "bodies reachable from compile/search/conversion entry points")
    st = State(ctx, lib, cg, reach)
    ctx.attempt("panic_sites", st.panic_sites)
    ctx.attempt("loops", st.loops)
    ctx.attempt("recursion", st.recursion)
    # slice::sort / sort_by panic on a comparator that is not a total order (std >= 1.81): sort and sort_by compare with
    # Variable's Ord::cmp, whose case table (C02's value-order rule) is therefore a premise of totality
    from .c02 import check_internal_order
    ctx.attempt("check_internal_order", check_internal_order, ctx, lib)


class State:
    def __init__(self, ctx, lib, cg, reach):
        self.ctx, self.lib, self.cg, self.reach = ctx, lib, cg, reach
        self.slice_res = slicecheck.verify(lib)
        self.slice_ok = all(ok for _, ok, _, _ in self.slice_res.items)
        reg, _ = B.registry(lib)
        self.sigs = {}
        for path, adt in lib.adts.items():
            if adt["kind"] == "struct" and any(f["ty"] == "functions::Signature" for f in adt["variants"][0]["fields"]):
                try:
                    self.sigs[path] = B.signature_of(lib, path)
                except B.SigError:
                    pass
        self._o = {}
        self._br = {}
        self.number_range_ok, self.number_range_why = self.token_number_range()

    def o(self, b):
        if b.name not in self._o:
            self._o[b.name] = Origins(b, self.lib)
        return self._o[b.name]

    def br(self, b):
        if b.name not in self._br:
            self._br[b.name] = Branches(b, self.o(b))
        return self._br[b.name]

    # =====================================================================================
    # (1) panic sites
    # =====================================================================================
    def panic_sites(self):
        ctx = self.ctx
        n = 0
        per_kind = {}
        for d in sorted(self.reach):
            b = self.cg.nodes[d]
            if b.kind not in ("fn", "method", "closure"):
                continue
            ordinal = {}
            for blk in sorted(b.reachable()):
                t = b.blocks[blk]["term"]
                site = None
                if t["k"] == "assert":
                    site = ("assert", t["msg"])
                elif t["k"] == "call":
                    names = {t["callee"], t.get("resolved") or t["callee"]}
                    if any(PANIC_CALLS.match(x) for x in names):
                        site = ("call", sorted(names)[0].split("::")[-1] if not t["callee"].startswith("core::panicking") else "panic")
                    elif t["callee"] in INDEX_CALLS:
                        site = ("index", t["callee_args"][0] if t.get("callee_args") else "?")
                    elif any(DENY.match(x) or CORE_DENY.match(x) for x in names):
                        site = ("deny", sorted(names)[0])
                    elif t["t"] is None:
                        site = ("diverge", t["callee"])
                if site is None:
                    continue
                kind = f"{site[0]}:{site[1]}"
                ordinal[kind] = ordinal.get(kind, 0) + 1
                key = f"{d}:{kind}#{ordinal[kind]}"
                n += 1
                per_kind[kind] = per_kind.get(kind, 0) + 1
                try:
                    ok, why = self.discharge(b, blk, t, site)
                except Exception as e:  # noqa: BLE001 — undecided site: not discharged
                    ok, why = False, f"no proof rule applies (rule evaluation failed on this shape: {type(e).__name__}: {e})"
                ctx.check(ok, "panic-site", key, (f"{kind} in {d} — " + why), t["span"]["s"])
        ctx.analysed["panic_sites"] = n
        ctx.analysed["panic_sites_by_kind"] = per_kind
        ctx.floor("panic-site", n, 40, "panic-capable sites inventoried in reachable code")

    def discharge(self, b, blk, t, site):
        kind, what = site
        o = self.o(b)
        if b.deff in ("variable::slice", "variable::adjust_slice_endpoint") or b.deff.startswith("variable::slice::{closure#"):
            if kind == "assert":
                bad = [k for k, ok, _, _ in self.slice_res.items if not ok]
                return self.slice_ok, ("P-slice: discharged by the reference-tree equivalence and loop-structure proof of the slice routine"
                                       if self.slice_ok else f"P-slice: the slice routine no longer matches the proved structure ({bad[:3]})")
        if kind == "assert" and what == "BoundsCheck":
            ln = o.of_operand(t["msg_ops"][0])
            ix = o.of_operand(t["msg_ops"][1])
            for rule in (self.p_validated_arg, self.p_const_array, self.p_bounded_counter, self.p_nonempty):
                r = rule(b, blk, ln, ix, t)
                if r:
                    return True, r
            return False, f"no proof rule bounds index {fmt_terms(ix)} by {fmt_terms(ln)}"
        if kind == "assert" and what.startswith("Overflow("):
            a = o.of_operand(t["msg_ops"][0])
            c = o.of_operand(t["msg_ops"][1])
            r = self.p_const_fold(b, what, a, c)
            if r:
                return True, r
            for rule in (self.p_counter_step, self.p_fold_counter, self.p_bounded_counter_step, self.p_sub_guard, self.p_counted_field):
                r = rule(b, blk, what, a, c, t)
                if r:
                    return True, r
            return False, f"no proof rule bounds {what}({fmt_terms(a)}, {fmt_terms(c)})"
        if kind == "assert" and what == "OverflowNeg":
            a = o.of_operand(t["msg_ops"][0])
            r = self.p_number_range(b, blk, a)
            if r:
                return True, r
            return False, f"no proof rule excludes the minimum value for -({fmt_terms(a)})"
        if kind == "assert":
            return False, f"unhandled assert kind {what}"
        if kind == "index":
            r = self.p_index_call(b, blk, t)
            if r:
                return True, r
            return False, f"no proof rule bounds this Index::index({fmt_terms(o.of_operand(t['args'][0]))}, {fmt_terms(o.of_operand(t['args'][1]))})"
        if kind in ("call", "diverge"):
            r = self.p_dead_arm(b, blk, t) or self.p_protocol(b, blk, t) or self.p_dead_rematch(b, blk, t)
            if r:
                return True, r
            return False, "reachable panicking call"
        if kind == "deny":
            r = self.p_deny_const(b, blk, t)
            if r:
                return True, r
            return False, f"call of a std API that panics on some arguments: {what}"
        return False, "unknown site kind"

    # ---- proof rules ----------------------------------------------------------------------
    def validate_edge(self, b):
        """Continue edge of `self.signature.validate(args, ctx)?` in a Function::evaluate."""
        o = self.o(b)
        br = self.br(b)
        for bb, t in b.calls():
            if t["callee"] == "std::ops::Try::branch" and all(
                    x[0] == "call" and x[1] == "functions::Signature::validate" and x[2][1] == fs({("param", 2)})
                    and x[2][0] == fs({("field", ("param", 1), "signature")}) for x in o.of_operand(t["args"][0])):
                ve = br.variant_edges(t["t"])
                if ve and "Continue" in ve["edges"]:
                    return (t["t"], ve["edges"]["Continue"])
        return None

    def p_validated_arg(self, b, blk, ln, ix, t):
        if b.impl_trait != "functions::Function" or b.item_name != "evaluate":
            return None
        if ln != {("len", ("param", 2))}:
            return None
        ks = [x[1] for x in ix if x[0] == "const" and isinstance(x[1], int)]
        if len(ix) != 1 or len(ks) != 1:
            return None
        k = ks[0]
        sig = self.sigs.get(b.impl_self)
        if sig is None:
            return None
        e = self.validate_edge(b)
        if e is None or not edge_dominates(b, e, blk):
            return None
        if k < len(sig[0]):
            return f"P-validated-arg: args[{k}] after signature.validate(args)? with {len(sig[0])} required parameter(s)"
        return None

    def p_const_array(self, b, blk, ln, ix, t):
        ls = [x[1] for x in ln if x[0] == "const" and isinstance(x[1], int)]
        ks = [x[1] for x in ix if x[0] == "const" and isinstance(x[1], int)]
        if len(ln) == 1 and len(ix) == 1 and ls and ks and 0 <= ks[0] < ls[0]:
            return f"P-const-index: constant index {ks[0]} into a fixed array of {ls[0]}"
        return None

    def counter_bound(self, b, local):
        """If `local` is only written by `= const 0` and `= local + 1` where every increment is
        dominated by the false edge of `local >= c` (or true edge of `local < c`), return c."""
        o = self.o(b)
        br = self.br(b)
        writes = b.assigns_to(local)
        if not writes:
            return None
        bound = None
        for wb, wi, rv in writes:
            if wi == "term":
                return None
            if rv["k"] == "use" and rv["op"].get("k") == "const" and rv["op"].get("int") == 0:
                continue
            # move (_t.0) with _t = AddWithOverflow(copy local, const 1)
            if rv["k"] == "use" and rv["op"].get("k") in ("copy", "move") and rv["op"]["p"] and isinstance(rv["op"]["p"][0], dict) and rv["op"]["p"][0].get("f") == 0:
                tl = rv["op"]["l"]
                tw = [x for x in b.assigns_to(tl) if x[1] != "term"]
                if len(tw) != 1 or tw[0][2]["k"] != "binop" or tw[0][2]["op"] != "AddWithOverflow":
                    return None
                a, c = tw[0][2]["a"], tw[0][2]["b"]
                if not (c.get("k") == "const" and c.get("int") == 1):
                    return None
                if not self.is_copy_of(b, a, local):
                    return None
                inc_blk = tw[0][0]
                g = self.guard_upper(b, local, inc_blk)
                if g is None:
                    return None
                bound = g if bound is None else max(bound, g)
                continue
            return None
        return bound

    def is_copy_of(self, b, op, local, depth=0):
        if op.get("k") not in ("copy", "move") or op["p"]:
            return False
        if op["l"] == local:
            return True
        if depth > 3:
            return False
        ws = b.assigns_to(op["l"])
        if len(ws) == 1 and ws[0][1] != "term" and ws[0][2]["k"] == "use":
            return self.is_copy_of(b, ws[0][2]["op"], local, depth + 1)
        return False

    def guard_upper(self, b, local, site):
        """c such that `local < c` holds on every path to site (from a dominating test on local)."""
        best = None
        for blk in sorted(b.reachable()):
            bl = b.blocks[blk]
            t = bl["term"]
            if t["k"] != "switch" or t["discr"].get("ty") != "bool":
                continue
            rv = None
            for s in reversed(bl["stmts"]):
                if s["k"] == "assign" and s["place"]["l"] == t["discr"]["l"] and not s["place"]["p"]:
                    rv = s["rv"]
                    break
            if not rv or rv["k"] != "binop" or rv["op"] not in ("Ge", "Lt", "Gt", "Le"):
                continue
            if not self.is_copy_of(b, rv["a"], local):
                continue
            # the bound is a literal, or evaluates to one (a named constant, `N - 1`)
            ct = self.o(b).of_operand(rv["b"])
            if len(ct) != 1 or next(iter(ct))[0] != "const" or not isinstance(next(iter(ct))[1], int):
                continue
            c = next(iter(ct))[1]
            tt = ft = t["otherwise"]
            for v, tgt in t["targets"]:
                if v == 0:
                    ft = tgt
                elif v == 1:
                    tt = tgt
            if rv["op"] == "Ge":
                edge, ub = (blk, ft), c
            elif rv["op"] == "Lt":
                edge, ub = (blk, tt), c
            elif rv["op"] == "Gt":
                edge, ub = (blk, ft), c + 1
            else:
                edge, ub = (blk, tt), c + 1
            if edge_dominates(b, edge, site):
                best = ub if best is None else min(best, ub)
        return best

    def p_bounded_counter(self, b, blk, ln, ix, t):
        ls = [x[1] for x in ln if x[0] == "const" and isinstance(x[1], int)]
        if len(ln) != 1 or not ls:
            return None
        op = t["msg_ops"][1]
        if op.get("k") not in ("copy", "move") or op["p"]:
            return None
        # follow the copy chain to the counter variable
        loc = op["l"]
        for _ in range(4):
            ws = b.assigns_to(loc)
            if len(ws) == 1 and ws[0][1] != "term" and ws[0][2]["k"] == "use" and ws[0][2]["op"].get("k") in ("copy", "move") and not ws[0][2]["op"]["p"]:
                loc = ws[0][2]["op"]["l"]
            else:
                break
        c = self.counter_bound(b, loc)
        if c is not None and c < ls[0]:
            return f"P-bounded-counter: the index is a counter only incremented under `counter < {c}`, so it stays <= {c} < {ls[0]}"
        return None

    def p_bounded_counter_step(self, b, blk, what, a, c, t):
        if what != "Overflow(Add)":
            return None
        op = t["msg_ops"][0]
        if op.get("k") not in ("copy", "move") or op["p"] or t["msg_ops"][1].get("int") != 1:
            return None
        loc = op["l"]
        for _ in range(4):
            ws = b.assigns_to(loc)
            if len(ws) == 1 and ws[0][1] != "term" and ws[0][2]["k"] == "use" and ws[0][2]["op"].get("k") in ("copy", "move") and not ws[0][2]["op"]["p"]:
                loc = ws[0][2]["op"]["l"]
            else:
                break
        g = self.guard_upper(b, loc, blk)
        if g is not None:
            return f"P-bounded-counter: incremented only under `counter < {g}`"
        return None

    def p_counter_step(self, b, blk, what, a, c, t):
        """x + 1 where x counts loop iterations over an in-memory iterator."""
        if what != "Overflow(Add)" or t["msg_ops"][1].get("int") != 1:
            return None
        op = t["msg_ops"][0]
        if op.get("k") not in ("copy", "move") or op["p"]:
            return None
        loc = op["l"]
        for _ in range(4):
            ws = b.assigns_to(loc)
            if len(ws) == 1 and ws[0][1] != "term" and ws[0][2]["k"] == "use" and ws[0][2]["op"].get("k") in ("copy", "move") and not ws[0][2]["op"]["p"]:
                loc = ws[0][2]["op"]["l"]
            else:
                break
        if b.local_ty(loc) != "usize":
            return None
        # writes: const 0 or the result of such an increment
        for wb, wi, rv in b.assigns_to(loc):
            if wi == "term":
                return None
            if rv["k"] == "use" and rv["op"].get("k") == "const" and rv["op"].get("int") == 0:
                continue
            if rv["k"] == "use" and rv["op"].get("k") in ("copy", "move") and rv["op"]["p"] and isinstance(rv["op"]["p"][0], dict) and rv["op"]["p"][0].get("f") == 0:
                tw = [x for x in b.assigns_to(rv["op"]["l"]) if x[1] != "term"]
                if len(tw) == 1 and tw[0][2]["k"] == "binop" and tw[0][2]["op"] == "AddWithOverflow" and \
                        self.is_copy_of(b, tw[0][2]["a"], loc) and tw[0][2]["b"].get("int") == 1:
                    continue
            return None
        for cyc in cfg_cycles(b):
            cs = set(cyc)
            if blk not in cs:
                continue
            nexts = [x for x in cyc if b.blocks[x]["term"]["k"] == "call" and b.blocks[x]["term"]["callee"] == "std::iter::Iterator::next"]
            if not nexts:
                return None
            # every cycle through the increment passes through a next()
            sub = {x: [y for y in b.succs()[x] if y in cs and y not in nexts] for x in cs if x not in nexts}
            comps = sccs(sorted(sub), lambda v: sub.get(v, []))
            on_cycle = any(blk in comp and (len(comp) > 1 or blk in sub.get(blk, [])) for comp in comps)
            if not on_cycle:
                return "P-iteration-counter: a usize counter incremented at most once per item of an in-memory iterator cannot overflow"
        return None

    def p_const_fold(self, b, what, a, c):
        """Checked arithmetic on two literals (a named constant minus one): evaluate it."""
        if len(a) != 1 or len(c) != 1:
            return None
        x, y = next(iter(a)), next(iter(c))
        if x[0] != "const" or y[0] != "const" or not isinstance(x[1], int) or not isinstance(y[1], int) or isinstance(x[1], bool):
            return None
        op = what[len("Overflow("):-1]
        v = {"Add": x[1] + y[1], "Sub": x[1] - y[1], "Mul": x[1] * y[1]}.get(op)
        if v is None:
            return None
        # the narrowest integer type in use is i8/u8; usize/i32 operands of this crate: accept a result representable in both
        if 0 <= v < 2 ** 31:
            return f"P-const-fold: {x[1]} {op} {y[1]} = {v} is evaluated from the two literals and is in range"
        return None

    def is_iteration_counter(self, b, loc):
        """loc is a usize written only by `0` and by `loc + 1` steps that occur at most once per item of an in-memory iterator."""
        from ..analysis import copy_root
        loc = copy_root(b, loc)
        if b.local_ty(loc) != "usize":
            return False
        incs = []
        for wb, wi, rv in b.assigns_to(loc):
            if wi == "term":
                return False
            if rv["k"] == "use" and rv["op"].get("k") == "const" and rv["op"].get("int") == 0:
                continue
            if rv["k"] == "use" and rv["op"].get("k") in ("copy", "move") and rv["op"]["p"] and isinstance(rv["op"]["p"][0], dict) and rv["op"]["p"][0].get("f") == 0:
                tw = [x for x in b.assigns_to(rv["op"]["l"]) if x[1] != "term"]
                if len(tw) == 1 and tw[0][2]["k"] == "binop" and tw[0][2]["op"] == "AddWithOverflow" and \
                        self.is_copy_of(b, tw[0][2]["a"], loc) and tw[0][2]["b"].get("int") == 1:
                    incs.append(tw[0][0])
                    continue
            return False
        cycles = cfg_cycles(b)
        for blk in incs:
            inside = False
            for cyc in cycles:
                cs = set(cyc)
                if blk not in cs:
                    continue
                inside = True
                nexts = [x for x in cyc if b.blocks[x]["term"]["k"] == "call" and b.blocks[x]["term"]["callee"] == "std::iter::Iterator::next"]
                if not nexts:
                    return False
                sub = {x: [y for y in b.succs()[x] if y in cs and y not in nexts] for x in cs if x not in nexts}
                comps = sccs(sorted(sub), lambda v: sub.get(v, []))
                if any(blk in comp and (len(comp) > 1 or blk in sub.get(blk, [])) for comp in comps):
                    return False
            if not inside:
                continue  # a straight-line increment adds at most 1
        return True

    def fold_counter_closure(self, cdef):
        """cdef is used only as the step function of one `Iterator::fold` whose initial accumulator is a tuple of zeros, and
        every component of every accumulator it returns is an old component, an old component + 1, or 0: each component grows
        by at most one per item.  Returns the fold call's (parent body, terminator) or None."""
        cb = self.lib.fn(cdef)
        parent = self.lib.fn(re.sub(r"::\{closure#\d+\}$", "", cdef))
        if cb is None or parent is None:
            return None
        po = self.o(parent)
        site = None
        for bb, t in parent.calls():
            for k, arg in enumerate(t["args"]):
                if any(x[0] == "closure" and x[1] == cdef for x in po.of_operand(arg)):
                    if site is not None or t["callee"] != "std::iter::Iterator::fold" or k != 2:
                        return None
                    site = t
        if site is None:
            return None
        init = po.of_operand(site["args"][1])
        if not init or not all(x[0] == "agg" and x[1] == "tuple" and x[2] and all(set(cmp_) == {("const", 0)} for cmp_ in x[2]) for x in init):
            return None
        width = {len(x[2]) for x in init}
        co = self.o(cb)
        acc = ("param", 2)
        ret = co.of_local(0)
        if not ret:
            return None
        for r in ret:
            if not (r[0] == "agg" and r[1] == "tuple" and {len(r[2])} == width):
                return None
            for cmp_ in r[2]:
                for x in cmp_:
                    old = x[0] == "field" and x[1] == acc
                    step = (x[0] == "field" and x[2] == "0" and x[1][0] == "bin" and x[1][1] == "AddWithOverflow" and
                            x[1][2][0] == "field" and x[1][2][1] == acc and x[1][3] == ("const", 1)) or \
                           (x[0] == "bin" and x[1] == "Add" and x[2][0] == "field" and x[2][1] == acc and x[3] == ("const", 1))
                    if not (old or step or x == ("const", 0)):
                        return None
        return parent, site

    def p_fold_counter(self, b, blk, what, a, c, t):
        """acc.k + 1 inside the step function of a fold that starts from zeros."""
        if what != "Overflow(Add)" or t["msg_ops"][1].get("int") != 1 or "{closure#" not in b.name:
            return None
        if not a or not all(x[0] == "field" and x[1] == ("param", 2) for x in a):
            return None
        if self.fold_counter_closure(b.name) is None:
            return None
        return ("P-fold-counter: a component of a fold accumulator that starts at 0 and grows by at most one per item of an in-memory "
                "iterator cannot overflow")

    def is_fold_component(self, b, loc):
        """loc holds a component of the result of such a fold."""
        ts = self.o(b).of_local(loc)
        if not ts:
            return False
        for x in ts:
            if not (x[0] == "field" and x[1][0] == "call" and x[1][1] == "std::iter::Iterator::fold"):
                return False
            fs_ = [y for arg in x[1][2][2:3] for y in arg if y[0] == "closure"]
            if len(fs_) != 1 or self.fold_counter_closure(fs_[0][1]) is None:
                return False
        return True

    def p_counted_field(self, b, blk, what, a, c, t):
        """s.f + 1 where the field f of a crate-local struct is, at every construction site, an iteration counter."""
        if what != "Overflow(Add)" or t["msg_ops"][1].get("int") != 1:
            return None
        if not a or not all(x[0] == "field" and x[1][0] == "param" for x in a):
            return None
        fld = {x[2] for x in a}
        prm = {x[1][1] for x in a}
        if len(fld) != 1 or len(prm) != 1:
            return None
        fld = next(iter(fld))
        adt = re.sub(r"^&+(mut )?", "", b.local_ty(next(iter(prm))) or "")
        adt = re.sub(r"<.*$", "", adt)
        if adt not in self.lib.adts:
            return None
        sites = 0
        for ob in self.lib.fn_bodies():
            if ob.j.get("auto_derived"):
                continue
            for bb, i, st in ob.stmts():
                if st["k"] == "assign" and st["rv"]["k"] == "agg" and st["rv"].get("adt") == adt:
                    fn = st["rv"].get("fnames", [])
                    if fld not in fn:
                        return None
                    op = st["rv"]["ops"][fn.index(fld)]
                    if op.get("k") not in ("copy", "move") or op["p"] or not (self.is_iteration_counter(ob, op["l"]) or self.is_fold_component(ob, op["l"])):
                        return None
                    sites += 1
        if sites == 0:
            return None
        return (f"P-counted-field: {adt}.{fld} is built at {sites} site(s), each time from a counter stepped at most once per item of an "
                "in-memory iterator, so it is far below usize::MAX (values constructed by hand through the public fields are outside the CLI's reach)")

    def same_len_base(self, x, base_terms):
        return x[0] == "call" and x[1].endswith("::len") and set(x[2][0]) == set(base_terms)

    def p_sub_guard(self, b, blk, what, a, c, t):
        if what != "Overflow(Sub)":
            return None
        br = self.br(b)
        for sb, sw in br.switches():
            be = br.bool_edges(sb)
            if not be:
                continue
            for cond in br.cond(sb):
                if cond[0] == "bin" and cond[1] == "Ge" and self.eq_mod_site(cond[2], a) and self.eq_mod_site(cond[3], c):
                    if edge_dominates(b, (sb, be[0]), blk):
                        return "P-sub-guard: a - b under the dominating test a >= b"
        return None

    def strip_blk(self, terms):
        return terms

    def eq_mod_site(self, t, terms):
        """t equals one of terms modulo the call-site block index of len() calls."""
        def norm(x):
            if isinstance(x, tuple) and x and x[0] == "call":
                return ("call", x[1], tuple(fs(norm(y) for y in a) for a in x[2]))
            if isinstance(x, tuple):
                return tuple(norm(y) if isinstance(y, tuple) else y for y in x)
            return x
        return norm(t) in {norm(x) for x in terms} and len(terms) == 1

    def p_nonempty(self, b, blk, ln, ix, t):
        """slice[0] (the bounds check of a slice, where Vec indexing would be an Index::index call) under !is_empty()."""
        if ix != {("const", 0)} or not ln or not all(x[0] == "len" and len(x) == 2 for x in ln):
            return None
        if self.nonempty_guard(b, {x[1] for x in ln}, blk):
            return "P-nonempty: element 0 under the dominating test !is_empty()"
        return None

    def nonempty_guard(self, b, base_terms, site):
        """site is dominated by `!base.is_empty()` / `base.len() != 0`."""
        br = self.br(b)
        for sb, sw in br.switches():
            be = br.bool_edges(sb)
            if not be:
                continue
            tt, ft = be
            for cond in br.cond(sb):
                neg = False
                while cond[0] == "un" and cond[1] == "Not":
                    cond = cond[2]
                    neg = not neg
                if cond[0] == "call" and cond[1].endswith("::is_empty") and set(cond[2][0]) == set(base_terms):
                    e = (sb, tt) if neg else (sb, ft)
                    if edge_dominates(b, e, site):
                        return True
                # len(base) compared with a constant
                if cond[0] == "bin" and cond[1] in ("Lt", "Le", "Gt", "Ge", "Eq", "Ne"):
                    lhs, rhs, op = cond[2], cond[3], cond[1]
                    if rhs[0] == "call" and rhs[1].endswith("::len"):
                        lhs, rhs = rhs, lhs
                        op = {"Lt": "Gt", "Le": "Ge", "Gt": "Lt", "Ge": "Le", "Eq": "Eq", "Ne": "Ne"}[op]
                    if lhs[0] == "call" and lhs[1].endswith("::len") and set(lhs[2][0]) == set(base_terms) and rhs[0] == "const" and isinstance(rhs[1], int):
                        k = rhs[1]
                        # edge on which len >= 1 is implied
                        nonempty_true = (op == "Gt" and k >= 0) or (op == "Ge" and k >= 1) or (op == "Ne" and k == 0) or (op == "Eq" and k >= 1)
                        nonempty_false = (op == "Lt" and k >= 1) or (op == "Le" and k >= 0) or (op == "Eq" and k == 0)
                        t_edge, f_edge = ((sb, ft), (sb, tt)) if neg else ((sb, tt), (sb, ft))
                        if nonempty_true and edge_dominates(b, t_edge, site):
                            return True
                        if nonempty_false and edge_dominates(b, f_edge, site):
                            return True
        return False

    def p_index_call(self, b, blk, t):
        o = self.o(b)
        base = o.of_operand(t["args"][0])
        ix = o.of_operand(t["args"][1])
        ks = [x[1] for x in ix if x[0] == "const" and isinstance(x[1], int)]
        # v[0] under !v.is_empty()
        if len(ix) == 1 and ks == [0] and self.nonempty_guard(b, base, blk):
            return "P-nonempty: element 0 under the dominating test !is_empty()"
        # array[len - adj] under len >= adj with adj >= 1
        if len(ix) == 1:
            x = next(iter(ix))
            bin_ = x[1] if (x[0] == "field" and x[2] == "0") else x
            if bin_[0] == "bin" and bin_[1] in ("Sub", "SubWithOverflow"):
                lhs, adj = bin_[2], bin_[3]
                if self.same_len_base(lhs, base):
                    ge1 = adj[0] == "call" and adj[1] in ("std::cmp::max", "std::cmp::Ord::max") and any(a == fs({("const", 1)}) for a in adj[2])
                    br = self.br(b)
                    for sb, sw in br.switches():
                        be = br.bool_edges(sb)
                        if not be:
                            continue
                        for cond in br.cond(sb):
                            if cond[0] == "bin" and cond[1] == "Ge" and self.same_len_base(cond[2], base) and cond[3] == adj and ge1 and edge_dominates(b, (sb, be[0]), blk):
                                return "P-guarded-index: a[len - k] under len >= k with k = max(_, 1) >= 1"
        # a[i] under the dominating test i < a.len()
        if len(ix) == 1:
            x = next(iter(ix))
            br = self.br(b)
            for sb, sw in br.switches():
                be = br.bool_edges(sb)
                if not be:
                    continue
                for cond in br.cond(sb):
                    if cond[0] != "bin":
                        continue
                    lt = cond[1] == "Lt" and cond[2] == x and self.same_len_base(cond[3], base)
                    gt = cond[1] == "Gt" and cond[3] == x and self.same_len_base(cond[2], base)
                    ge = cond[1] == "Ge" and cond[2] == x and self.same_len_base(cond[3], base)     # false edge
                    le = cond[1] == "Le" and cond[3] == x and self.same_len_base(cond[2], base)     # false edge
                    if (lt or gt) and edge_dominates(b, (sb, be[0]), blk):
                        return "P-guarded-index: a[i] under the dominating test i < a.len()"
                    if (ge or le) and edge_dominates(b, (sb, be[1]), blk):
                        return "P-guarded-index: a[i] on the false edge of i >= a.len()"
        # a[i] with Some(i) = a.len().checked_sub(k), k >= 1: i = len - k < len
        if len(ix) == 1:
            x = next(iter(ix))
            if x[0] == "call" and x[1].endswith("::checked_sub") and len(x[2]) == 2 and x[2][0] and all(self.same_len_base(y, base) for y in x[2][0]):
                ks2 = x[2][1]
                ge1 = bool(ks2) and all((k[0] == "call" and k[1] in ("std::cmp::max", "std::cmp::Ord::max") and any(a == fs({("const", 1)}) for a in k[2])) or
                                         (k[0] == "const" and isinstance(k[1], int) and k[1] >= 1) for k in ks2)
                if ge1:
                    return "P-checked-sub-index: a[i] where Some(i) = a.len().checked_sub(k) and k >= 1, so i = len - k < len"
        # self.inputs[k] in Signature::validate (arity-equal)
        if b.deff == "functions::Signature::validate" and base == {("field", ("param", 1), "inputs")} and \
                ix == {("index", ("param", 2))}:
            ok, why = self.arity_equal_context(b, blk)
            if ok:
                return "P-arity-index: inputs[k] for k over args.iter().enumerate() on the non-variadic branch after validate_arity(args.len())? (Ok only if actual == expected)"
        return None

    def arity_equal_context(self, b, blk):
        o = self.o(b)
        br = self.br(b)
        cont = None
        for bb, t in b.calls():
            if t["callee"] == "std::ops::Try::branch" and all(x[0] == "call" and x[1] == "functions::Signature::validate_arity" and
                                                               all(y[0] in ("call", "len") for y in x[2][1]) and x[2][0] == fs({("param", 1)})
                                                               for x in o.of_operand(t["args"][0])):
                ve = br.variant_edges(t["t"])
                if ve and "Continue" in ve["edges"]:
                    cont = (t["t"], ve["edges"]["Continue"])
        if cont is None or not edge_dominates(b, cont, blk):
            return False, "no dominating arity check"
        # non-variadic branch: discriminant switch on self.variadic, None/otherwise edge dominates
        nonvar = False
        for sb, sw in br.switches():
            ve = br.variant_edges(sb)
            if ve and ve["adt"] == "std::option::Option" and ve["scrutinee"] == {("field", ("param", 1), "variadic")}:
                none_t = ve["edges"].get("None", ve["otherwise"])
                if none_t not in [v for k, v in ve["edges"].items() if k == "Some"] and edge_dominates(b, (sb, none_t), blk):
                    nonvar = True
        if not nonvar:
            return False, "not on the non-variadic branch"
        # arity table: non-variadic Ok only if equal — decided by C06's walk; re-check the essential row here
        from .c06 import classify_arity_result
        from ..decision import Undecided, Walker
        va = self.lib.fn("functions::Signature::validate_arity")
        if va is None:
            return False, "validate_arity missing"
        vo = Origins(va, self.lib)
        from .c06 import arity_outcomes
        for delta in (-1, 1):
            try:
                if any("Ok" in x for x in arity_outcomes(self.lib, va, vo, 0, delta)):
                    return False, "validate_arity accepts actual != expected for a fixed signature"
            except Undecided:
                return False, "validate_arity undecidable"
        return True, ""

    def p_dead_rematch(self, b, blk, t):
        """`unreachable!()` in the arm of a second `match` on the same immutable value whose variants an earlier `match`
        has already answered (returned / diverged): the arm's variants cannot arrive here."""
        o = self.o(b)
        br = self.br(b)
        sws = []
        for sb, sw in br.switches():
            ve = br.variant_edges(sb)
            if ve and ve["scrutinee"] and ve["adt"] in self.lib.adts:
                sws.append((sb, ve))

        def immutable(terms):
            for x in terms:
                while x[0] == "field":
                    x = x[1]
                if x[0] != "param" or not (b.local_ty(x[1]) or "").startswith("&") or (b.local_ty(x[1]) or "").startswith("&mut"):
                    return False
            return True
        for s2, ve2 in sws:
            here = {v for v, tgt in ve2["edges"].items() if tgt != ve2["otherwise"] and edge_dominates(b, (s2, tgt), blk)}
            if not here or not immutable(ve2["scrutinee"]):
                continue
            for s1, ve1 in sws:
                if s1 == s2 or ve1["scrutinee"] != ve2["scrutinee"] or ve1["adt"] != ve2["adt"] or not b.dominates(s1, s2):
                    continue
                # variants whose edge of the first match can still reach the second one
                names = set(ve1["all"]) if ve1.get("all") else set(ve1["edges"])
                through = set()
                for v in names:
                    tgt = ve1["edges"].get(v, ve1["otherwise"])
                    if s2 in reach_avoiding(b, tgt):
                        through.add(v)
                if not (here & through):
                    return (f"P-dead-rematch: this arm handles {sorted(here)} of a value already matched at bb{s1}, where those variants "
                            f"leave the function; only {sorted(through)} reach the second match")
        return None

    def p_dead_arm(self, b, blk, t):
        if b.impl_trait != "functions::Function" or b.item_name != "evaluate":
            return None
        sig = self.sigs.get(b.impl_self)
        e = self.validate_edge(b)
        if sig is None or e is None or not edge_dominates(b, e, blk):
            return None
        br = self.br(b)
        cx = RT.TagCx(self.lib, b, sig[0], sig[1])
        for sb, sw in br.switches():
            ve = br.variant_edges(sb)
            if not ve or ve["adt"] != "variable::Variable":
                continue
            ks = set()
            for s in ve["scrutinee"]:
                isarg, k = cx.is_arg(s)
                if isarg and k is not None:
                    ks.add(k)
            if len(ks) != 1:
                continue
            k = next(iter(ks))
            # variants whose edge can reach the panic block
            reaching = set()
            listed = set(ve["edges"])
            for v, tgt in ve["edges"].items():
                if blk in reach_avoiding(b, tgt):
                    reaching.add(v)
            if blk in reach_avoiding(b, ve["otherwise"]):
                reaching |= set(ve["all"]) - listed
            if not edge_dominates(b, (sb, ve["otherwise"]), blk) and not any(edge_dominates(b, (sb, tgt), blk) for tgt in ve["edges"].values()):
                continue
            admitted = RT.tags_of_type(cx.arg_type(k))
            if not (admitted & reaching):
                return f"P-dead-arm: reached only for kinds {sorted(reaching)} of args[{k}], but validation admits only {sorted(admitted)}"
        return None

    def p_protocol(self, b, blk, t):
        if b.deff == "<variable::MapState as serde::ser::SerializeMap>::serialize_value" and t["callee"].endswith("::expect"):
            self.ctx.assume("serde protocol: serialize_value is only called after serialize_key (P-protocol, keyed to MapState::serialize_value)")
            return "P-protocol: `expect` on the pending key — only reachable if a Serialize impl violates serde's key-then-value protocol (assumption)"
        return None

    def p_deny_const(self, b, blk, t):
        c = t["callee"]
        if c.endswith("::drain") and len(t["args"]) > 1:
            r = self.o(b).of_operand(t["args"][1])
            if r and all(x[0] == "agg" and x[1] == "std::ops::RangeFull::RangeFull" for x in r):
                return "P-full-range: drain(..) over the full range cannot be out of bounds"
        if c.endswith("::is_digit") or c.endswith("::to_digit"):
            r = t["args"][1].get("int") if len(t["args"]) > 1 else None
            if r is not None and 2 <= r <= 36:
                return f"P-const-radix: radix {r} is a constant within 2..=36"
        return None

    # ---- token number range (type invariant row) ------------------------------------------
    def token_number_range(self):
        """Token::Number / Ast::Index / Ast::Slice payloads lie in [-(2^31-1), 2^31-1]."""
        lib = self.lib
        why = []
        # (1) who-may-construct Token::Number
        makers = set()
        for b in lib.fn_bodies():
            if b.j.get("auto_derived"):
                continue
            for bb, i, s in b.stmts():
                if s["k"] == "assign" and s["rv"]["k"] == "agg" and s["rv"].get("adt") == TOKEN and s["rv"]["variant"] == "Number":
                    makers.add(b.deff)
        if makers != {"lexer::Lexer::<'a>::consume_number"}:
            return False, f"Token::Number is constructed in {sorted(makers)}"
        cn = lib.fn("lexer::Lexer::<'a>::consume_number")
        o = Origins(cn, lib)
        for bb, i, s in cn.stmts():
            if s["k"] == "assign" and s["rv"]["k"] == "agg" and s["rv"].get("adt") == TOKEN and s["rv"]["variant"] == "Number":
                for x in o.of_operand(s["rv"]["ops"][0]):
                    inner = x[2] if (x[0] == "un" and x[1] == "Neg") else x
                    if not (inner[0] == "call" and inner[1] == "core::str::<impl str>::parse"):
                        return False, f"Token::Number payload is {fmt_terms([x])}, not (the negation of) a str::parse::<i32> result"
        pc = [(bb, t) for bb, t in cn.calls() if t["callee"] == "core::str::<impl str>::parse"]
        if len(pc) != 1 or pc[0][1]["callee_args"] != ["i32"]:
            return False, "consume_number does not parse exactly one i32"
        lex = o.of_operand(pc[0][1]["args"][0])
        okl = all(x[0] == "call" and x[1] == "lexer::Lexer::<'a>::consume_while" and x[2][1] == fs({("param", 3)}) for x in lex) and bool(lex)
        if not okl:
            return False, f"the parsed lexeme is not consume_while(first_char.to_string(), ..): {fmt_terms(lex)}"
        # the continuation predicate admits ASCII digits only (so no sign can appear later either)
        clo = [x for l in lex for x in l[2][2] if x[0] == "closure"]
        for c in clo:
            cb = lib.fn(c[1])
            names = [t["callee"] for _, t in cb.calls()] if cb else ["?"]
            if not all(n.endswith("::is_digit") or n.endswith("::is_ascii_digit") for n in names) or not names:
                return False, f"the digit predicate calls {names}"
        # (2) every caller passes a first_char that cannot be a sign
        ncall = 0
        for b in lib.fn_bodies():
            for bb, t in b.calls():
                if t["callee"] != "lexer::Lexer::<'a>::consume_number":
                    continue
                ncall += 1
                op = t["args"][2]
                if op.get("k") not in ("copy", "move") or op["p"]:
                    return False, "first_char argument is not a plain local"
                # trace to the char local
                loc = op["l"]
                for _ in range(4):
                    ws = b.assigns_to(loc)
                    if len(ws) == 1 and ws[0][1] != "term" and ws[0][2]["k"] == "use" and ws[0][2]["op"].get("k") in ("copy", "move") and not ws[0][2]["op"]["p"]:
                        loc = ws[0][2]["op"]["l"]
                    else:
                        break
                ws = b.assigns_to(loc)
                if len(ws) != 1:
                    return False, "first_char has several definitions"
                cf = CharFlow(b, loc, ws[0][0], Origins(b, lib))
                cs = cf.at(bb)
                digits = ISet([(0x30, 0x39)])
                if cs.subset(digits):
                    continue
                # or a dominating Unicode-numeric test (char::is_numeric is false for '+' and '-')
                bo = Origins(b, lib)
                brb = Branches(b, bo)
                guarded = False
                for sb, sw in brb.switches():
                    be = brb.bool_edges(sb)
                    if not be:
                        continue
                    for cond in brb.cond(sb):
                        # `c.is_numeric() && c != '0'` lowers to nested switches; accept the is_numeric true edge
                        if cond[0] == "call" and cond[1].split("::")[-1] in ("is_numeric", "is_ascii_digit", "is_digit") and edge_dominates(b, (sb, be[0]), bb):
                            guarded = True
                if not guarded:
                    return False, f"caller {b.deff} may pass first_char in {cs!r}"
        if ncall < 2:
            return False, "fewer than two callers of consume_number found"
        # (3) Ast::Index / Ast::Slice integers come only from Token::Number payloads (or the constant default)
        for b in lib.fn_bodies():
            if b.j.get("auto_derived"):
                continue
            for bb, i, s in b.stmts():
                if s["k"] == "assign" and s["rv"]["k"] == "agg" and s["rv"].get("adt") == AST and s["rv"]["variant"] in ("Index", "Slice"):
                    if b.deff != P + "parse_index":
                        return False, f"Ast::{s['rv']['variant']} is constructed in {b.deff}"
        return True, ""

    def p_number_range(self, b, blk, a):
        if not self.number_range_ok:
            return None
        if b.deff == "lexer::Lexer::<'a>::consume_number":
            if all(x[0] == "call" and x[1] == "core::str::<impl str>::parse" for x in a):
                return "P-token-range: the operand is str::parse::<i32>() of a lexeme made of a non-sign first character and ASCII digits, hence >= 0"
        if b.deff == "interpreter::interpret":
            if a == {("field", ("param", 2), "Index.idx")}:
                return "P-token-range: Ast::Index.idx is a Token::Number payload, which lies in [-(2^31-1), 2^31-1] (who-may-construct rows checked)"
        return None

    # =====================================================================================
    # (2) loops
    # =====================================================================================
    def loops(self, floor=14):
        ctx = self.ctx
        lib = self.lib
        consumes = self.consume_summary()
        ctx.analysed["token_consuming_routines"] = sorted(x.split("::")[-1] for x in consumes)
        n = 0
        for d in sorted(self.reach):
            b = self.cg.nodes[d]
            if b.kind not in ("fn", "method", "closure"):
                continue
            for ci, cyc in enumerate(cfg_cycles(b)):
                n += 1
                key = f"{d}#loop{ci}"
                try:
                    ok, why = self.loop_progress(b, cyc, consumes)
                except Exception as e:  # noqa: BLE001
                    ok, why = False, f"progress could not be established ({type(e).__name__}: {e})"
                ctx.check(ok, "loop-progress", key, f"loop in {d} ({len(cyc)} blocks): {why}", b.span)
        ctx.floor("loop-progress", n, floor, "CFG cycles in reachable code")
        self.eof_terminates(consumes)

    def consume_summary(self):
        """Parser routines every path of which (to any return) consumes a token."""
        lib = self.lib
        base = {P + "advance_with_pos"}
        parser_fns = [b for b in lib.fn_bodies() if b.deff.startswith(P) and b.kind == "method"]
        summ = set(base)
        changed = True
        while changed:
            changed = False
            for b in parser_fns:
                if b.deff in summ:
                    continue
                blocks = [bb for bb, t in b.calls() if t["callee"] in summ]
                if not blocks:
                    continue
                r = reach_avoiding(b, 0, avoid_blocks=blocks)
                if not any(b.blocks[x]["term"]["k"] == "return" for x in r):
                    summ.add(b.deff)
                    changed = True
        return summ

    def loop_progress(self, b, cyc, consumes):
        cs = set(cyc)
        o = self.o(b)

        def breaks_all_cycles(blocks):
            blocks = set(blocks)
            sub = {x: [y for y in b.succs()[x] if y in cs and y not in blocks] for x in cs if x not in blocks}
            comps = sccs(sorted(sub), lambda v: sub.get(v, []))
            return not any(len(c) > 1 or c[0] in sub.get(c[0], []) for c in comps)

        # L-iter: next()/next_element()/next_entry() on an in-memory iterator on every cycle
        nexts = []
        for x in cyc:
            t = b.blocks[x]["term"]
            if t["k"] == "call" and t["callee"] in ("std::iter::Iterator::next", "std::iter::DoubleEndedIterator::next_back",
                                                     "serde::de::SeqAccess::next_element", "serde::de::MapAccess::next_entry"):
                its = o.of_operand(t["args"][0])
                if any(term_mentions(i, lambda y: y[0] == "call" and INFINITE_ITERS.search(y[1])) for i in its):
                    continue
                nexts.append(x)
        if nexts and breaks_all_cycles(nexts):
            return True, "L-iter: every iteration takes the next item of a finite in-memory iterator / serde access"
        # L-iter (conditional form): `while let Some(x) = it.next_if(pred)` — an item is consumed exactly when the answer is Some,
        # and the loop is left on None
        br = self.br(b)
        cond_nexts = []
        for x in cyc:
            t = b.blocks[x]["term"]
            if t["k"] == "call" and re.search(r"Peekable::<I>::next_if(_eq)?$", t["callee"]) and t.get("t") is not None:
                ve = br.variant_edges(t["t"])
                if ve and ve["adt"] == "std::option::Option":
                    none_t = ve["edges"].get("None", ve["otherwise"])
                    # the None answer must not lead back into the cycle
                    if not (reach_avoiding(b, none_t) & cs) or none_t not in cs:
                        inside_after_none = {y for y in reach_avoiding(b, none_t, avoid_blocks=[x]) if y in cs}
                        if x not in reach_avoiding(b, none_t):
                            cond_nexts.append(x)
        if cond_nexts and breaks_all_cycles(cond_nexts):
            return True, "L-iter: every iteration consumes the next item of a peekable in-memory iterator (next_if answered Some); None leaves the loop"
        # L-parser: consumes a token on every cycle
        cons = [x for x in cyc if b.blocks[x]["term"]["k"] == "call" and b.blocks[x]["term"]["callee"] in consumes]
        if cons and breaks_all_cycles(cons):
            return True, f"L-parser: every iteration calls a token-consuming routine ({sorted({b.blocks[x]['term']['callee'].split('::')[-1] for x in cons})}); the queue is finite and Eof ends the loop"
        # L-monotone: slice stepping loops
        if b.deff == "variable::slice":
            if self.slice_ok and self.step_nonzero():
                return True, "L-monotone: i <- i + step with guard i<b under step>0 resp. i>b under step<0; step != 0 is guaranteed by the caller's InvalidSlice guard"
            return False, "the stepping loop no longer matches the proved structure or the step == 0 guard is missing"
        return False, "no progress construct found on every cycle"

    def step_nonzero(self):
        """Every reachable caller of Variable::slice is dominated by a step != 0 test."""
        lib = self.lib
        ok = True
        found = 0
        for d in sorted(self.reach):
            b = self.cg.nodes[d]
            if b.deff.startswith("variable::Variable::slice"):
                continue
            for bb, t in b.calls():
                if t["callee"] in ("variable::Variable::slice", "variable::slice"):
                    if b.deff.startswith("variable::"):
                        continue
                    found += 1
                    o = self.o(b)
                    br = self.br(b)
                    st = o.of_operand(t["args"][3])
                    guarded = False
                    for sb, sw in br.switches():
                        be = br.bool_edges(sb)
                        if not be:
                            continue
                        for c in br.cond(sb):
                            if c[0] == "bin" and c[1] in ("Eq", "Ne") and ({c[2]} == st or {c[3]} == st) and ("const", 0) in (c[2], c[3]):
                                e = (sb, be[1]) if c[1] == "Eq" else (sb, be[0])
                                if edge_dominates(b, e, bb):
                                    guarded = True
                    # the same test as a literal pattern: a switch on the step itself whose 0 target is left behind
                    for sb in sorted(b.reachable()):
                        t_ = b.blocks[sb]["term"]
                        if t_["k"] == "switch" and t_["discr"].get("k") in ("copy", "move") and o.of_operand(t_["discr"]) == st:
                            tg = dict((v, x) for v, x in t_["targets"])
                            if set(tg) == {0} and tg[0] != t_["otherwise"] and edge_dominates(b, (sb, t_["otherwise"]), bb):
                                guarded = True
                    ok = ok and guarded
        return ok and found >= 1

    def eof_terminates(self, consumes):
        """The side conditions of L-parser: the token queue ends with Eof, Eof has the minimum
        binding power, and every element parser fails on Eof."""
        ctx, lib = self.ctx, self.lib
        rule = "eof-terminates"
        table, why = lbp_table(lib)
        ctx.check(table is not None and table.get("Eof") == 0, rule, "lbp-eof", "lbp(Eof) = 0, so the Pratt loop `rbp < lbp(peek)` stops at Eof")
        # peek / advance_with_pos yield Eof past the end
        aw = lib.fn(P + "advance_with_pos")
        if aw is None:
            ctx.missing(rule, "advance_with_pos", P + "advance_with_pos")
        else:
            o = Origins(aw, lib)
            calls = [t["callee"] for _, t in aw.calls()]
            toks = [s["rv"]["variant"] for _, _, s in region_aggs(aw, aw.reachable(), TOKEN)]
            ctx.check(any(c.endswith("::pop_front") for c in calls) and toks == ["Eof"], rule, "advance-past-end",
                      "advance_with_pos pops the queue front and yields Eof when it is empty", aw.span)
        # tokenize pushes Eof last
        tk = lib.fn("lexer::Lexer::<'a>::tokenize")
        if tk is None:
            ctx.missing(rule, "tokenize", "Lexer::tokenize")
        else:
            o = Origins(tk, lib)
            # the Ok values tokenize itself returns (an inlined helper may build its own intermediate Ok(..))
            oks = [(bb, None) for bb, _ in RT.ok_values(tk)[0]]
            eofpush = [bb for bb, t in tk.calls() if t["callee"].endswith("::push_back") and
                       any(term_mentions(x, lambda y: y[0] == "agg" and y[1] == TOKEN + "::Eof") for x in o.of_operand(t["args"][1]))]
            ok = len(oks) == 1 and len(eofpush) == 1 and tk.dominates(eofpush[0], oks[0][0])
            ctx.check(ok, rule, "queue-ends-with-eof", "tokenize returns Ok only after pushing the Eof token", tk.span)
        # nud(Eof), parse_kvp(non-identifier), parse_index(other) are errors
        for fn, what in ((P + "nud", "Eof"),):
            b = lib.fn(fn)
            if b is None:
                ctx.missing(rule, fn, fn)
                continue
            o = Origins(b, lib)
            br = Branches(b, o)
            blk, ve = first_discr_switch(b, br, TOKEN)
            ok = False
            if ve is not None and what not in ve["edges"]:
                reg = reach_avoiding(b, ve["otherwise"])
                only = {x for x in reg if edge_dominates(b, (blk, ve["otherwise"]), x)}
                has_err = any(s["rv"]["variant"] == "Err" for _, _, s in region_aggs(b, only, "std::result::Result"))
                no_ok = not any(s["rv"]["variant"] == "Ok" for _, _, s in region_aggs(b, only, "std::result::Result"))
                no_parse = all(t["callee"] in (P + "err",) for _, t in region_calls(b, only) if t["callee"].startswith(P))
                ok = has_err and no_ok and no_parse
            ctx.check(ok, rule, f"{fn.split('::')[-1]}-on-{what}", f"{fn.split('::')[-1]} fails on {what} (no operand can start there)", b.span)

    # =====================================================================================
    # (3) recursion
    # =====================================================================================
    def recursion(self):
        ctx = self.ctx
        comps = self.cg.sccs(within=self.reach)
        n = 0
        for comp in comps:
            rec = len(comp) > 1 or comp[0] in self.cg.edges.get(comp[0], ())
            if not rec:
                continue
            n += 1
            members = sorted(comp)
            cls, key, why = self.classify_scc(members)
            shortest = members[:6]
            if cls == "bounded":
                ctx.ok("recursion", key, f"recursive SCC of {len(members)} bodies ({shortest} …): {why}")
            else:
                ctx.bad("recursion", key, f"unbounded recursion: SCC of {len(members)} bodies ({shortest} …): {why}")
        ctx.floor("recursion", n, 5, "recursive call-graph SCCs in reachable code")
        # drop glue of the recursive syntax tree (not in the call graph): report once, with the structural SCC
        ctx.analysed["recursive_sccs"] = n

    def classify_scc(self, members):
        ms = set(members)
        if any(m.startswith(P) for m in ms):
            return "unbounded", "scc:parser", "the Pratt parser recurses once per nesting level of the expression (no depth limit)"
        if "interpreter::interpret" in ms:
            return "unbounded", "scc:interpreter", "the evaluator recurses once per nesting level of the syntax tree (no depth limit)"
        if any(re.match(r"^<ast::(Ast|KeyValuePair) as ", m) for m in ms):
            trait = sorted({re.sub(r"^<.* as (.*)>::.*$", r"\1", m) for m in ms})
            return "unbounded", f"scc:ast-structural:{'+'.join(t.split('::')[-1] for t in trait)}", \
                "derived structural traversal of the syntax tree (and its drop glue) recurses once per nesting level"
        if all(re.search(r"functions::ArgumentType", m) for m in ms):
            return "bounded", f"scc:argument-type:{members[0].split('::')[-1][:20]}", \
                "recursion over the nesting of a signature's ArgumentType term, a constant of the program (not input)"
        serde = all(re.search(r"serde::|variable::to_variable|variable::Variable as std::(clone|cmp|fmt)|as ToJmespath>::to_jmespath|"
                              r"variable::Variable as std::convert::TryFrom<|variable::convert_map", m) for m in ms)
        if serde:
            return "bounded", f"scc:data-depth:{members[0][:60]}", \
                "structural recursion over the nesting of a value; JSON documents are bounded by serde_json's recursion limit (assumption)"
        return "unbounded", f"scc:{members[0]}", "recursive SCC without a depth guard"
