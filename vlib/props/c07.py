"""C07 — slices select exactly the elements of the specified start:stop:step rule."""
import re
from .. import slicecheck
from ..analysis import strip_through
from ..analysis import Branches, Origins, edge_dominates, fmt_terms, reach_avoiding, strip_through
from ..parsing import AST, P, region_aggs

fs = frozenset

EXPLANATION = (
    "The property names its own oracle (CPython's list[start:stop:step], i.e. PySlice_AdjustIndices + the stepping "
    "loop), a finite decision tree over comparisons of (len, start, stop, step) with affine leaves. The checker enumerates "
    "every path of variable::adjust_slice_endpoint and of the loop-free prefix of variable::slice from MIR (path "
    "conditions = comparisons of affine forms, leaves = affine forms) and compares the extracted trees with the reference "
    "tree on a grid that hits every cell of the arrangement of the comparison hyperplanes (every ordering of start/stop vs "
    "0, +-len, present/omitted, both step signs) — complete for piecewise-affine trees of this shape. The two stepping "
    "loops are checked structurally (guard i<b under step>0 / i>b otherwise, one element access array[i], one push, "
    "i <- i+step as the only update with checked arithmetic, invariants), every checked arithmetic operation on every "
    "path is shown in range by interval reasoning from the path conditions, and the guards around the routine are "
    "dominance facts: step==0 -> InvalidSlice before the routine is called, non-array -> null, parse_index slot/default "
    "handling, index / negative-index lookup clamps."
)
ASSUMPTIONS = [
    "CPython's PySlice_AdjustIndices transcribed in vlib/slicecheck.py is Python's slice semantics",
    "arrays hold fewer than 2^31 elements (array.len() as i32 does not truncate)",
]


def run(ctx):
    lib = ctx.lib()
    check_slice_routine(ctx, lib)
    ctx.attempt("check_guards", check_guards, ctx, lib)
    ctx.attempt("check_parse_index", check_parse_index, ctx, lib)
    ctx.attempt("check_index", check_index, ctx, lib)
    # start/stop/step/index are the integers the user wrote: the lexer's number conversion (shared with C03)
    from .c03 import check_number_lexing
    ctx.attempt("check_number_lexing", check_number_lexing, ctx, lib, "number-literal")


def check_slice_routine(ctx, lib):
    res = slicecheck.verify(lib)
    seen = {}
    for key, ok, text, loc in res.items:
        n = seen.get(key, 0)
        seen[key] = n + 1
        k = key if n == 0 else f"{key}#{n}"
        rule = "slice-routine" if key.startswith("slice:") else "endpoint-adjust"
        ctx.check(ok, rule, k.split(":", 1)[1], text, loc)
    ctx.analysed.update(res.facts)
    ctx.floor("endpoint-adjust", res.facts.get("adjust_grid_points", 0), 300, "grid points compared for adjust_slice_endpoint")
    ctx.floor("slice-routine", res.facts.get("slice_grid_points", 0), 5000, "grid points compared for the slice prefix")


def check_guards(ctx, lib):
    rule = "slice-guards"
    b = ctx.fn("interpreter::interpret", rule=rule)
    if b is None:
        return
    o = Origins(b, lib)
    br = Branches(b, o)
    # the Slice arm
    sw0 = None
    for blk, t in br.switches():
        ve = br.variant_edges(blk)
        if ve and ve["adt"] == AST and ("param", 2) in ve["scrutinee"]:
            sw0 = (blk, ve)
            break
    if sw0 is None or "Slice" not in sw0[1]["edges"]:
        ctx.missing(rule, "slice-arm", "interpret has no arm for Ast::Slice")
        return
    blk0, ve0 = sw0
    arm_edge = (blk0, ve0["edges"]["Slice"])
    arm = {x for x in reach_avoiding(b, arm_edge[1]) if edge_dominates(b, arm_edge, x)}
    step_t = ("field", ("param", 2), "Slice.step")
    zero_sw = None
    for blk in sorted(arm):
        if b.blocks[blk]["term"]["k"] == "switch" and br.bool_edges(blk):
            for c in br.cond(blk):
                if c[0] == "bin" and c[1] in ("Eq", "Ne") and {c[2], c[3]} == {step_t, ("const", 0)}:
                    tt, ft = br.bool_edges(blk)
                    zero_sw = (blk, tt, ft) if c[1] == "Eq" else (blk, ft, tt)
    if zero_sw is None:
        # the same test as a literal pattern (`Ast::Slice { step: 0, .. } => ..`): a switch on the step itself
        for blk in sorted(arm | {blk0}):
            t_ = b.blocks[blk]["term"]
            if t_["k"] == "switch" and t_["discr"].get("k") in ("copy", "move") and o.of_operand(t_["discr"]) == {step_t}:
                tg = dict((v, x) for v, x in t_["targets"])
                if set(tg) == {0} and tg[0] != t_["otherwise"]:
                    zero_sw = (blk, tg[0], t_["otherwise"])
    if zero_sw is None:
        ctx.bad(rule, "step-zero-test", "the Slice arm does not test step == 0", b.span)
        return
    zblk, zero_t, nonzero_t = zero_sw
    calls = [(bb, t) for bb, t in b.calls() if bb in arm and t["callee"] == "variable::Variable::slice"]
    ok = len(calls) == 1 and edge_dominates(b, (zblk, nonzero_t), calls[0][0])
    ctx.check(ok, rule, "step-zero-dominates", "the slice routine is called only on the step != 0 branch", b.span)
    if calls:
        t = calls[0][1]
        a = [o.of_operand(x) for x in t["args"]]
        ok = a[0] == {("param", 1)} and a[1] == {("field", ("param", 2), "Slice.start")} and \
            a[2] == {("field", ("param", 2), "Slice.stop")} and a[3] == {step_t}
        ctx.check(ok, rule, "routine-arguments", f"data.slice(node.start, node.stop, node.step) ({[fmt_terms(x) for x in a]})", t["span"]["s"])
    zreg = {x for x in reach_avoiding(b, zero_t) if edge_dominates(b, (zblk, zero_t), x)}
    errs = [s for x in zreg for s in b.blocks[x]["stmts"] if s["k"] == "assign" and s["rv"]["k"] == "agg" and s["rv"].get("adt") == "errors::RuntimeError"]
    ok = len(errs) == 1 and errs[0]["rv"]["variant"] == "InvalidSlice"
    fc = [(bb, t) for bb, t in b.calls() if bb in zreg and t["callee"] == "errors::JmespathError::from_ctx"]
    ok = ok and len(fc) == 1
    # (the context reached through the parameter itself or a re-borrow of it handed to an inlined helper)
    stores = [(bb, s) for bb in zreg for s in b.blocks[bb]["stmts"] if s["k"] == "assign" and s["place"]["p"] and
              any(isinstance(e, dict) and e.get("name") == "offset" for e in s["place"]["p"]) and
              (s["place"]["l"] == 3 or o.of_local(s["place"]["l"]) == {("param", 3)})]
    ok_store = len(stores) == 1 and o.of_operand(stores[0][1]["rv"]["op"]) == {("field", ("param", 2), "Slice.offset")} and \
        bool(fc) and b.dominates(stores[0][0], fc[0][0])
    ctx.check(ok, rule, "step-zero-error", "step == 0 yields InvalidSlice built from the context, nothing is sliced", b.span)
    ctx.check(ok_store, rule, "step-zero-offset", "ctx.offset is set to the slice node's offset before the error is raised", b.span)
    # result mapping: Some(array) -> Array, None -> Null
    nreg = {x for x in reach_avoiding(b, nonzero_t) if edge_dominates(b, (zblk, nonzero_t), x)}
    osw = None
    for blk in sorted(nreg):
        ve = br.variant_edges(blk)
        if ve and ve["adt"] == "std::option::Option" and all(x[0] == "call" and x[1] == "variable::Variable::slice" for x in ve["scrutinee"]):
            osw = (blk, ve)
    if osw is None:
        ctx.bad(rule, "result-mapping", "the result of data.slice(..) is not matched on Some/None", b.span)
    else:
        blk, ve = osw
        some_t = ve["edges"].get("Some", ve["otherwise"])
        none_t = ve["edges"].get("None", ve["otherwise"])
        sreg = {x for x in reach_avoiding(b, some_t) if edge_dominates(b, (blk, some_t), x)}
        nreg2 = {x for x in reach_avoiding(b, none_t) if edge_dominates(b, (blk, none_t), x)}
        sv = [s["rv"]["variant"] for x in sreg for s in b.blocks[x]["stmts"] if s["k"] == "assign" and s["rv"]["k"] == "agg" and s["rv"].get("adt") == "variable::Variable"]
        nv = [s["rv"]["variant"] for x in nreg2 for s in b.blocks[x]["stmts"] if s["k"] == "assign" and s["rv"]["k"] == "agg" and s["rv"].get("adt") == "variable::Variable"]
        ok_map = sv == ["Array"] and nv == ["Null"]
        if not ok_map and sv == ["Array"] and not nv:
            # `slice(..).map_or(Null, Array)`: the null is built before the case analysis and handed over on the None side;
            # judge by what the non-zero side can return: Array(the Some payload) or Null, nothing else, Array only on the Some side
            vals = set()
            for x in nreg:
                for st in b.blocks[x]["stmts"]:
                    if st["k"] == "assign" and st["rv"]["k"] == "agg" and st["rv"].get("adt") == "std::result::Result" and st["rv"]["variant"] == "Ok":
                        vals |= o.of_operand(st["rv"]["ops"][0])
            arrs = [t for t in vals if t[0] == "agg" and t[1] == "variable::Variable::Array"]
            nuls = [t for t in vals if t[0] == "agg" and t[1] == "variable::Variable::Null"]
            ok_map = bool(arrs) and bool(nuls) and len(arrs) + len(nuls) == len(vals) and \
                all(t[2][0] and all(y[0] == "call" and y[1] == "variable::Variable::slice" for y in t[2][0]) for t in arrs)
        ctx.check(ok_map, rule, "result-mapping", f"Some(elements) -> Array(elements), None (not an array) -> null (found {sv}, {nv})", b.span)
    # Variable::slice = as_array().map(|a| slice(a, start, stop, step))
    vs = ctx.fn("variable::Variable::slice", rule=rule)
    if vs is not None:
        # spelling-independent: the slice routine runs once, on the array view of self with the three parts passed through;
        # the result is Some(that) for an array and None (the absent array view itself) otherwise
        vo = Origins(vs, lib)
        cc = [t for _, t in vs.calls() if t["callee"] == "variable::slice"]
        ok = len(cc) == 1
        if ok:
            a = [vo.of_operand(x) for x in cc[0]["args"]]
            arr = ("view", "array", ("param", 1))
            ok = a[0] == {arr} and a[1] == {("param", 2)} and a[2] == {("param", 3)} and a[3] == {("param", 4)}
            for t in vo.of_local(0):
                if strip_through(t) == arr or (t[0] == "agg" and t[1] == "std::option::Option::None"):
                    continue
                if t[0] == "agg" and t[1] == "std::option::Option::Some" and t[2][0] and all(x[0] == "call" and x[1] == "variable::slice" for x in t[2][0]):
                    continue
                ok = False
        ctx.check(ok, rule, "variable-slice", "Variable::slice = self.as_array().map(|a| slice(a, start, stop, step))", vs.span)


def check_parse_index(ctx, lib):
    rule = "parse-index"
    b = ctx.fn(P + "parse_index", rule=rule)
    if b is None:
        return
    o = Origins(b, lib)
    aggs = [s for _, _, s in region_aggs(b, b.reachable(), AST)]
    sl = [s for s in aggs if s["rv"]["variant"] == "Slice"]
    ix = [s for s in aggs if s["rv"]["variant"] == "Index"]
    ctx.check(len(sl) == 1 and len(ix) == 1, rule, "nodes", f"parse_index builds one Slice and one Index node (found {len(sl)}, {len(ix)})", b.span)
    from .c04 import check_top_level
    check_top_level(ctx, lib, rule)
    if not sl or not ix:
        return
    vals = dict(zip(sl[0]["rv"]["fnames"], (o.of_operand(x) for x in sl[0]["rv"]["ops"])))

    def is_part(ts, k):
        # parts[k] where parts is the local array of three Options
        return bool(ts) and all(t[0] == "elem" and len(t) > 2 and t[2] == k for t in ts)

    ok = is_part(vals["start"], 0) and is_part(vals["stop"], 1)
    ctx.check(ok, rule, "start-stop", f"Slice.start = parts[0], Slice.stop = parts[1] ({fmt_terms(vals['start'])}; {fmt_terms(vals['stop'])})", b.span)
    st = vals["step"]
    ok = all(t[0] == "call" and t[1] == "std::option::Option::<T>::unwrap_or" and is_part(set(t[2][0]), 2) and t[2][1] == fs({("const", 1)}) for t in st) and bool(st)
    ctx.check(ok, rule, "step-default", f"Slice.step = parts[2].unwrap_or(1) ({fmt_terms(st)})", b.span)
    iv = dict(zip(ix[0]["rv"]["fnames"], (o.of_operand(x) for x in ix[0]["rv"]["ops"])))
    ctx.check(is_part(iv["idx"], 0), rule, "index-value", f"Index.idx = parts[0] ({fmt_terms(iv['idx'])})", b.span)
    # parts[pos] = Some(number payload); pos incremented on Colon
    writes = []
    for bb, i, s in b.stmts():
        if s["k"] == "assign" and s["place"]["p"] and any(isinstance(e, dict) and "idx" in e for e in s["place"]["p"]):
            writes.append((bb, s))
    ok = len(writes) == 1
    if ok:
        w = o._rv(writes[0][1]["rv"], writes[0][0], 0)
        ok = bool(w) and all(t[0] == "agg" and t[1] == "std::option::Option::Some" and
                             all(p[0] == "field" and p[2] == "Number.0" for p in t[2][0]) and bool(t[2][0]) for t in w)
        ix_ = [e for e in writes[0][1]["place"]["p"] if isinstance(e, dict) and "idx" in e]
    ctx.check(ok, rule, "slot-write", "a number is stored as Some(n) in the current slot parts[pos]", b.span)
    # omitted parts stay None: the array is initialised with three None
    # (only arrays of optional numbers: message formatting inlined from an error helper builds argument arrays too)
    init = [s for _, _, s in b.stmts() if s["k"] == "assign" and s["rv"]["k"] == "agg" and s["rv"]["ak"] == "array" and
            "Option<i32>" in ((s["place"].get("ty") or "") or (b.local_ty(s["place"]["l"]) or ""))]
    ok = len(init) == 1 and len(init[0]["rv"]["ops"]) == 3 and all(
        o.of_operand(x) == {("agg", "std::option::Option::None", (), ())} or
        all(t[0] == "agg" and t[1] == "std::option::Option::None" for t in o.of_operand(x)) for x in init[0]["rv"]["ops"])
    if not ok and not init:
        # `[None; 3]` (or `[None; N]` with a named constant N = 3)
        rep = [s for _, _, s in b.stmts() if s["k"] == "assign" and s["rv"]["k"] == "repeat"]
        ok = len(rep) == 1 and re.search(r";\s*3\]$", rep[0]["place"].get("ty", "") or b.local_ty(rep[0]["place"]["l"])) is not None and \
            all(t[0] == "agg" and t[1] == "std::option::Option::None" for t in o.of_operand(rep[0]["rv"]["op"])) and bool(o.of_operand(rep[0]["rv"]["op"]))
    ctx.check(ok, rule, "slots-init", "the three slots start as None (omitted parts stay None)", b.span)


def check_index(ctx, lib):
    rule = "index-lookup"
    b = ctx.fn("interpreter::interpret", rule=rule)
    if b is None:
        return
    o = Origins(b, lib)
    br = Branches(b, o)
    idx_t = ("field", ("param", 2), "Index.idx")
    found = False
    for blk, t in br.switches():
        be = br.bool_edges(blk)
        if not be:
            continue
        for c in br.cond(blk):
            if c[0] == "bin" and c[2] == idx_t and c[3] == ("const", 0) and c[1] in ("Ge", "Lt"):
                found = True
                tt, ft = be
                nonneg, neg = (tt, ft) if c[1] == "Ge" else (ft, tt)
                gi = [(bb, x) for bb, x in b.calls() if x["callee"] == "variable::Variable::get_index"]
                gn = [(bb, x) for bb, x in b.calls() if x["callee"] == "variable::Variable::get_negative_index"]
                ok = len(gi) == 1 and len(gn) == 1 and edge_dominates(b, (blk, nonneg), gi[0][0]) and edge_dominates(b, (blk, neg), gn[0][0])
                if ok:
                    a = o.of_operand(gi[0][1]["args"][1])
                    ok = all(x[0] == "cast" and x[1] == idx_t and x[2] == "usize" for x in a) and o.of_operand(gi[0][1]["args"][0]) == {("param", 1)}
                    n = o.of_operand(gn[0][1]["args"][1])
                    ok = ok and all(x[0] == "cast" and x[2] == "usize" and (x[1] == ("un", "Neg", idx_t)) for x in n) and o.of_operand(gn[0][1]["args"][0]) == {("param", 1)}
                ctx.check(ok, rule, "dispatch", "idx >= 0 -> data.get_index(idx), idx < 0 -> data.get_negative_index(-idx)", b.span)
    if not found:
        ctx.missing(rule, "dispatch", "interpret does not branch on the sign of Index.idx")
    gi = ctx.fn("variable::Variable::get_index", rule=rule)
    if gi is not None:
        go = Origins(gi, lib)
        # spelling-independent (if let / Option chain): one bounds-checked `get(index)` on self's array; the result is that element or null
        ARR = ({("field", ("param", 1), "Array.0")}, {("view", "array", ("param", 1))})
        ret = {strip_through(t) for t in go.of_local(0)}
        gets = [t for _, t in gi.calls() if t["callee"].endswith("::get")]
        idxs = [t for _, t in gi.calls() if t["callee"] in ("std::ops::Index::index", "std::ops::IndexMut::index_mut")]
        ok = len(gets) == 1 and not idxs and go.of_operand(gets[0]["args"][1]) == {("param", 2)} and go.of_operand(gets[0]["args"][0]) in ARR
        nul = [t for t in ret if t[0] == "agg" and t[1] == "variable::Variable::Null"]
        elem = [t for t in ret if t[0] == "call" and t[1].endswith("::get")]
        ok = ok and bool(nul) and bool(elem) and len(nul) + len(elem) == len(ret)
        ctx.check(ok, rule, "get_index", "get_index returns array.get(index) or null (bounds-checked lookup, no panic)", gi.span)
    gn = ctx.fn("variable::Variable::get_negative_index", rule=rule)
    if gn is not None:
        go = Origins(gn, lib)
        gb = Branches(gn, go)
        ic = [(bb, t) for bb, t in gn.calls() if t["callee"] == "std::ops::Index::index"]
        ARR = ({("field", ("param", 1), "Array.0")}, {("view", "array", ("param", 1))})
        gets = [t for _, t in gn.calls() if t["callee"].endswith("::get")]
        ok = len(ic) == 1
        detail = ""
        if not ic and len(gets) == 1:
            # array.get(len.checked_sub(max(n, 1))?): both steps are checked, nothing can go out of range
            ix = go.of_operand(gets[0]["args"][1])
            def is_adj(t):
                return t[0] == "call" and t[1] in ("std::cmp::max", "std::cmp::Ord::max") and fs({("const", 1)}) in t[2] and fs({("param", 2)}) in t[2]
            ok = go.of_operand(gets[0]["args"][0]) in ARR and bool(ix) and all(
                x[0] == "call" and x[1].endswith("::checked_sub") and all(y[0] == "call" and y[1].endswith("::len") and set(y[2][0]) in ARR for y in x[2][0])
                and all(is_adj(y) for y in x[2][1]) and bool(x[2][0]) and bool(x[2][1]) for x in ix)
            ret = {strip_through(t) for t in go.of_local(0)}
            # (the residual of `checked_sub(..)?` is carried as a term of the enclosing Option; it has no payload)
            ok = ok and all((t[0] == "agg" and t[1] == "variable::Variable::Null") or (t[0] == "call" and t[1].endswith(("::get", "::checked_sub"))) for t in ret)
            detail = "checked_sub + get"
        elif ok and all(x[0] == "call" and x[1].endswith("::checked_sub") for x in go.of_operand(ic[0][1]["args"][1])) and go.of_operand(ic[0][1]["args"][1]):
            # array[i] with Some(i) = array.len().checked_sub(max(n, 1)): i = len - adj < len because adj >= 1
            def is_adj2(t):
                return t[0] == "call" and t[1] in ("std::cmp::max", "std::cmp::Ord::max") and fs({("const", 1)}) in t[2] and fs({("param", 2)}) in t[2]
            ok = go.of_operand(ic[0][1]["args"][0]) in ARR and all(
                all(y[0] == "call" and y[1].endswith("::len") and set(y[2][0]) in ARR for y in x[2][0]) and all(is_adj2(y) for y in x[2][1]) and bool(x[2][0]) and bool(x[2][1])
                for x in go.of_operand(ic[0][1]["args"][1]))
            detail = "checked_sub + index"
        elif ok:
            bb, t = ic[0]
            idx = go.of_operand(t["args"][1])
            arr = ("field", ("param", 1), "Array.0")
            # idx = len(array) - adj  (checked subtraction)
            shape = all(x[0] == "field" and x[2] == "0" and x[1][0] == "bin" and x[1][1] == "SubWithOverflow" for x in idx) or \
                all(x[0] == "bin" and x[1] in ("Sub", "SubWithOverflow") for x in idx)
            ok = shape and bool(idx)
            if ok:
                x = next(iter(idx))
                bin_ = x[1] if x[0] == "field" else x
                lhs, adj = bin_[2], bin_[3]
                ok = lhs[0] == "call" and lhs[1].endswith("::len") and lhs[2][0] == fs({arr})
                adj_ok = adj[0] == "call" and adj[1] == "std::cmp::max" and fs({("const", 1)}) in adj[2] and fs({("param", 2)}) in adj[2]
                # guard len(array) >= adj dominates
                guard = False
                for blk, sw in gb.switches():
                    be = gb.bool_edges(blk)
                    if be:
                        for c in gb.cond(blk):
                            if c[0] == "bin" and c[1] == "Ge" and c[2][0] == "call" and c[2][1].endswith("::len") and c[2][2][0] == fs({arr}) and c[3] == adj:
                                guard = edge_dominates(gn, (blk, be[0]), bb)
                ok = ok and adj_ok and guard
                detail = f"adj>=1: {adj_ok}, guard len>=adj dominates: {guard}"
        ctx.check(ok, rule, "get_negative_index", f"get_negative_index returns array[len - max(n,1)] only under len >= max(n,1), else null ({detail})", gn.span)
