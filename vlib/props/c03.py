"""C03 — compile accepts exactly the JMESPath language (structural clauses)."""
import re

from ..analysis import strip_through
from ..analysis import (Branches, Origins, blocks_separate, cfg_cycles, edge_dominates, edges_dominate, fmt_terms,
                        reach_avoiding, term_mentions)
from ..charclass import CharFlow, ISet, chars, rng
from ..parsing import (peek_is_switch, ALL_TOKENS, AST, P, TOKEN, TokenPaths, first_discr_switch, is_consumer, peek_eq_switch,
                       promoted_token, region, region_aggs, region_calls, token_of_terms)

fs = frozenset
L = "lexer::Lexer::<'a>::"

EXPLANATION = (
    "Whole-language equality between a hand-written parser and the ABNF is not decided. Decided from MIR: (1) separator "
    "discipline — on every feasible CFG path between two element parses of a list loop a comma is consumed (token-level path "
    "enumeration with facts about the unconsumed lookahead); after a comma a closer is an error; (2) multi-select lists and "
    "hashes are non-empty on every path to their node; (3) every Ok result of a bracketed form is dominated by the match of "
    "its closing token, key-value pairs by ':' and the whole parse by Eof; (4) dispatch tables: the token kinds for which "
    "nud / led / parse_dot / the bracket specifier / parse_index do not answer with an error equal the grammar's FIRST/FOLLOW "
    "sets, a quoted identifier cannot be called, a call needs a Field on the left; (5) lexical tables by character-class "
    "dataflow over the lexer: the character -> action map equals the grammar's terminals, identifier start/continue classes "
    "are ASCII, whitespace is the 4-character set, every other character is an error, numbers go through a fallible i32 "
    "parse, '-' needs a non-zero digit, unterminated delimiters and invalid JSON literals are errors."
)
ASSUMPTIONS = [
    "the grammar-derived accept sets transcribed in vlib/props/c03.py (JMESPath ABNF at token level)",
    "local correctness of each routine composes to acceptance of exactly the grammar (standard recursive-descent argument; not decided)",
]

NUD_ACCEPT = {"At", "Identifier", "QuotedIdentifier", "Star", "Literal", "Lbracket", "Flatten", "Filter", "Lbrace",
              "Not", "Lparen", "Ampersand"}
LED_ACCEPT = {"Dot", "Lbracket", "Or", "And", "Pipe", "Lparen", "Flatten", "Filter", "Eq", "Ne", "Lt", "Lte", "Gt", "Gte"}
DOT_ACCEPT = {"Identifier", "QuotedIdentifier", "Star", "Lbrace", "Lbracket", "Ampersand"}


def run(ctx):
    lib = ctx.lib()
    ctx.attempt("check_separators", check_separators, ctx, lib)
    ctx.attempt("check_nonempty", check_nonempty, ctx, lib)
    ctx.attempt("check_closers", check_closers, ctx, lib)
    ctx.attempt("check_complete_input", check_complete_input, ctx, lib)
    ctx.attempt("check_dispatch", check_dispatch, ctx, lib)
    ctx.attempt("check_parse_index", check_parse_index, ctx, lib)
    ctx.attempt("check_lexer", check_lexer, ctx, lib)
    # every token test above is read as a test of the token's kind: `==` on Token must be the derived one (shared with C04)
    from .c04 import check_token_equality
    ctx.attempt("check_token_equality", check_token_equality, ctx, lib)


# =============================================================================================
def err_only(b, blocks):
    """Every path through this arm ends in an error built in the arm: starting from the
    arm's blocks and avoiding the arm's `_0 = Err(..)` blocks one can reach neither a return
    nor a token-consuming call."""
    blocks = set(blocks)
    if not blocks:
        return False
    errb = set()
    # error exits anywhere in the function: an arm may share its exit (the caller's `?` after an inlined helper's
    # `return Err(..)`) with other arms; what matters is that it is reached before any return or token consumption
    for x in sorted(b.reachable()):
        for s in b.blocks[x]["stmts"]:
            if s["k"] == "assign" and s["place"]["l"] == 0 and not s["place"]["p"] and s["rv"]["k"] == "agg" and \
                    s["rv"].get("adt") == "std::result::Result" and s["rv"]["variant"] == "Err":
                errb.add(x)
            # the failure of an inlined helper handed on: `_0 = <that Err>` as a pass-through, or the early return of `?`
            if s["k"] == "assign" and s["place"]["l"] == 0 and not s["place"]["p"] and s["rv"]["k"] == "through" and s["rv"].get("variant") == "Err":
                errb.add(x)
        tx = b.blocks[x]["term"]
        if tx["k"] == "call" and tx["callee"] == "std::ops::FromResidual::from_residual" and tx["dest"]["l"] == 0 and not tx["dest"]["p"]:
            errb.add(x)
    if not errb:
        return False
    # entry blocks of the arm: those with a predecessor outside the arm
    entries = [x for x in blocks if any(p not in blocks for p in b.preds()[x])] or [min(blocks)]
    for e in entries:
        r = reach_avoiding(b, e, avoid_blocks=errb)
        for x in r:
            t = b.blocks[x]["term"]
            if t["k"] == "return":
                return False
            if t["k"] == "call" and is_consumer(t["callee"]):
                return False
    return True


def only_via(b, edge):
    return {x for x in reach_avoiding(b, edge[1]) if edge_dominates(b, edge, x)}


# =============================================================================================
def check_separators(ctx, lib):
    rule = "separator"
    n = 0
    # every loop in the parser that parses list elements
    for fn in (P + "parse_list", P + "nud"):
        b = ctx.fn(fn, rule=rule)
        if b is None:
            continue
        tp = TokenPaths(lib, b)
        for cyc in cfg_cycles(b):
            cs = set(cyc)
            elems = [x for x in cyc if b.blocks[x]["term"]["k"] == "call" and b.blocks[x]["term"]["callee"] in (P + "expr", P + "parse_kvp")]
            if not elems:
                continue
            for e in elems:
                n += 1
                try:
                    paths = tp.paths(e, [e], within=cs)
                except RuntimeError as ex:
                    ctx.bad(rule, f"{fn.split('::')[-1]}:paths", f"{fn}: {ex}", b.span)
                    continue
                bad = []
                for blocks, events in paths:
                    if not comma_consumed(events[1:]):
                        bad.append(describe(events[1:]))
                key = f"{fn.split('::')[-1]}:{b.blocks[e]['term']['callee'].split('::')[-1]}"
                ctx.check(bool(paths) and not bad, rule, key,
                          f"{fn.split('::')[-1]}: on each of the {len(paths)} feasible paths from one element parse to the next a ',' is consumed"
                          + (f" — path without comma: {bad[0]}" if bad else ""), b.span)
                # after a consumed comma a closing token is an error
                n2 = 0
                for blocks, events in tp.paths(e, [e, None], within=None):
                    pass
    ctx.floor(rule, n, 2, "list loops (call arguments / multi-select list, multi-select hash)")
    # trailing separator: after `,` the closing token is rejected
    b = lib.fn(P + "parse_list")
    if b is not None:
        tp = TokenPaths(lib, b)
        cyc = cfg_cycles(b)
        ok = False
        detail = "no loop"
        if cyc:
            cs = set(cyc[0])
            e = [x for x in cyc[0] if b.blocks[x]["term"]["k"] == "call" and b.blocks[x]["term"]["callee"] == P + "expr"]
            if e:
                # paths from the element parse to a return that consume a comma and then see the closing token
                ok = True
                seen_case = False
                for blocks, events in tp.paths(e[0], [None]):
                    ev = events[1:]
                    for i in comma_positions(ev):
                        rest = [y for y in ev[i + 1:] if y[0] != "call"]
                        if rest and rest[0][0] == "fact" and rest[0][1] == ("param", 2) and rest[0][2] is True:
                            seen_case = True
                            if any(y[0] == "consume" for y in rest[1:]) or not path_returns_err(b, blocks):
                                ok = False
                        break
                detail = f"case seen: {seen_case}"
                ok = ok and seen_case
        ctx.check(ok, rule, "parse_list:trailing-comma", f"parse_list: a closing token right after ',' is a parse error ({detail})", b.span)
    # multi-hash loop: after `,` another key-value pair is required (parse_kvp fails on Rbrace)
    k = lib.fn(P + "parse_kvp")
    if k is not None:
        o = Origins(k, lib)
        br = Branches(k, o)
        blk, ve = first_discr_switch(k, br, TOKEN)
        ok = ve is not None and set(ve["edges"]) == {"Identifier", "QuotedIdentifier"} and err_only(k, only_via(k, (blk, ve["otherwise"])))
        ctx.check(ok, rule, "parse_kvp:key-required", "parse_kvp accepts only an (un)quoted identifier as key; anything else (incl. '}' after ',') is an error", k.span)


def comma_positions(events):
    """Indices i such that events[:i+1] ends with the consumption of a token known to be Comma."""
    out = []
    for i, x in enumerate(events):
        if x[0] == "consume" and x[1] in ("advance", "advance_with_pos"):
            j = i - 1
            while j >= 0 and events[j][0] == "call":
                j -= 1
            if j >= 0 and events[j][0] == "fact" and events[j][1] == "Comma" and events[j][2] is True:
                out.append(i)
                continue
            if j >= 0 and events[j][0] == "peekcase" and events[j][1] == "Comma":
                out.append(i)
                continue
            # followed by tests on the consumed token ending in "it is Comma"
            k = i + 1
            while k < len(events) and events[k][0] in ("call", "advfact", "advcase"):
                if (events[k][0] == "advcase" and events[k][1] == "Comma") or (events[k][0] == "advfact" and events[k][1] == "Comma" and events[k][2] is True):
                    out.append(k)
                    break
                if events[k][0] == "advfact" and events[k][2] is True:
                    break
                k += 1
    return out


def comma_consumed(events):
    return bool(comma_positions(events))


def closing_consumed_last(events, closing=("param", 2)):
    """The last consumption on the path takes a token known to be the closing one."""
    idx = [i for i, x in enumerate(events) if x[0] == "consume"]
    if not idx:
        return False
    i = idx[-1]
    if events[i][1] not in ("advance", "advance_with_pos"):
        return False
    j = i - 1
    while j >= 0 and events[j][0] == "call":
        j -= 1
    if j >= 0 and events[j][0] == "fact" and events[j][1] == closing and events[j][2] is True:
        return True
    for x in events[i + 1:]:
        if x[0] == "advfact" and x[1] == closing and x[2] is True:
            return True
    return False


def describe(events):
    out = []
    for e in events:
        if e[0] == "fact":
            out.append(f"peek{'==' if e[2] else '!='}{e[1]}")
        elif e[0] == "consume":
            out.append(f"{e[1]}()")
        elif e[0] in ("advcase", "peekcase"):
            out.append(f"{e[0]}:{e[1]}")
    return " -> ".join(out)


def path_returns_err(b, blocks):
    for blk in reversed(blocks):
        for s in reversed(b.blocks[blk]["stmts"]):
            if s["k"] == "assign" and s["place"]["l"] == 0 and not s["place"]["p"]:
                return s["rv"]["k"] == "agg" and s["rv"].get("variant") == "Err"
        t = b.blocks[blk]["term"]
        if t["k"] == "call" and t["dest"]["l"] == 0:
            return t["callee"] == "std::ops::FromResidual::from_residual"
    return False


# =============================================================================================
def check_nonempty(ctx, lib):
    rule = "non-empty-multiselect"
    # (a) parse_list returns an empty vector only if the first lookahead is the closing token
    b = ctx.fn(P + "parse_list", rule=rule)
    if b is not None:
        tp = TokenPaths(lib, b)
        ok = True
        n_empty = 0
        for blocks, events in tp.paths(0, [None]):
            pushed = any(e[0] == "call" and e[1].endswith("::push") for e in events)
            if pushed or path_returns_err(b, blocks):
                continue
            n_empty += 1
            # first token event must be the fact peek == closing, before any consumption
            first = next((e for e in events if e[0] in ("fact", "consume", "peekcase", "advcase")), None)
            if not (first and first[0] == "fact" and first[1] == ("param", 2) and first[2] is True):
                ok = False
        ctx.check(ok and n_empty >= 1, rule, "parse_list:empty-only-if-closing-first",
                  f"parse_list yields no element only when the very first lookahead is the closing token ({n_empty} such path(s))", b.span)
    # (b) the multi-select list caller excludes that case
    m = ctx.fn(P + "parse_multi_list", rule=rule)
    if m is not None:
        o = Origins(m, lib)
        tp = TokenPaths(lib, m)
        aggs = [(bb, s) for bb, _, s in region_aggs(m, m.reachable(), AST) if s["rv"]["variant"] == "MultiList"]
        ok = len(aggs) == 1
        detail = ""
        if ok:
            calls = [(bb, t) for bb, t in m.calls() if t["callee"] == P + "parse_list"]
            ok = len(calls) == 1 and token_of_terms(lib, m, o.of_operand(calls[0][1]["args"][1])) == "Rbracket"
            if ok:
                # every path from entry to the parse_list call establishes peek(0) != Rbracket without consuming
                good = True
                for blocks, events in tp.paths(0, [calls[0][0]], allow_trivial=True):
                    facts = [e for e in events if e[0] == "fact"]
                    cons = [e for e in events if e[0] == "consume"]
                    if cons or not any(f[1] == "Rbracket" and f[2] is False for f in facts):
                        good = False
                        detail = describe(events)
                ok = good
        ctx.check(ok, rule, "MultiList", "a multi-select list is parsed with parse_list(Rbracket) only after establishing that the next token is not ']'"
                  + (f" — offending path: {detail}" if detail else ""), m.span)
    # (c) multi-select hash: a push precedes every path to the node
    n = ctx.fn(P + "nud", rule=rule)
    if n is not None:
        aggs = [(bb, s) for bb, _, s in region_aggs(n, n.reachable(), AST) if s["rv"]["variant"] == "MultiHash"]
        ok = len(aggs) == 1
        if ok:
            o = Origins(n, lib)
            fn_ = aggs[0][1]["rv"]["fnames"]
            el = o.of_operand(aggs[0][1]["rv"]["ops"][fn_.index("elements")])
            pushes = [bb for bb, t in n.calls() if t["callee"].endswith("::push") and
                      all(x[0] == "call" and x[1] == P + "parse_kvp" for x in o.of_operand(t["args"][1]))]
            ok = bool(pushes) and blocks_separate(n, set(pushes), aggs[0][0]) and all(x[0] == "call" and "Vec" in x[1] and x[1].endswith("::new") or x[0] == "call" and "into_vec" in x[1] or x[0] == "call" for x in el)
        ctx.check(ok, rule, "MultiHash", "every path to the MultiHash node passes a push of a parsed key-value pair", n.span)
    # all MultiList constructions are the one above
    makers = set()
    for b2 in lib.fn_bodies():
        if b2.j.get("auto_derived"):
            continue
        for bb, i, s in b2.stmts():
            if s["k"] == "assign" and s["rv"]["k"] == "agg" and s["rv"].get("adt") == AST and s["rv"]["variant"] in ("MultiList", "MultiHash"):
                makers.add((s["rv"]["variant"], b2.deff))
    ctx.check(makers == {("MultiList", P + "parse_multi_list"), ("MultiHash", P + "nud")}, rule, "constructors",
              f"MultiList / MultiHash are constructed only at the checked sites (found {sorted(makers)})")


# =============================================================================================
def adv_switches(lib, b):
    """Tests of the token just consumed, as (block, {"edges": {kind: target}, "otherwise": target, ..}): a `match` on it, or a
    comparison `consumed == Token::X` / `!=` (one kind against all others)."""
    tp = TokenPaths(lib, b)
    out = [(blk, t[1]) for blk, t in tp.tests.items() if t[0] == "adv-discr"]
    for blk, t in tp.tests.items():
        if t[0] == "adv-eq" and isinstance(t[1], str):
            out.append((blk, {"edges": {t[1]: t[2]}, "otherwise": t[3], "all": list(ALL_TOKENS), "adt": TOKEN, "scrutinee": set()}))
    return out, tp


def check_closers(ctx, lib):
    rule = "closer"
    n = 0
    # (function, node or "Ok", closer)
    rows = [
        (P + "parse_filter", "Projection", "Rbracket"),
        (P + "parse_wildcard_index", "Projection", "Rbracket"),
    ]
    for fn, node, closer in rows:
        b = ctx.fn(fn, rule=rule)
        if b is None:
            continue
        sws, tp = adv_switches(lib, b)
        aggs = [(bb, s) for bb, _, s in region_aggs(b, b.reachable(), AST) if s["rv"]["variant"] == node]
        ok = bool(aggs) and bool(sws)
        for bb, s in aggs:
            ok = ok and any(closer in ve["edges"] and edge_dominates(b, (blk, ve["edges"][closer]), bb) for blk, ve in sws)
        for blk, ve in sws:
            ok = ok and set(ve["edges"]) == {closer} and err_only(b, only_via(b, (blk, ve["otherwise"])))
        n += 1
        ctx.check(ok, rule, fn.split("::")[-1], f"{fn.split('::')[-1]}: the {node} node is built only after consuming '{closer}'; any other token there is an error", b.span)
    # nud: '(' expr ')' and '{' kvp (',' kvp)* '}'
    b = ctx.fn(P + "nud", rule=rule)
    if b is not None:
        o = Origins(b, lib)
        br = Branches(b, o)
        blk0, ve0 = first_discr_switch(b, br, TOKEN)
        sws, tp = adv_switches(lib, b)
        if ve0 is None:
            ctx.missing(rule, "nud:switch", "nud dispatch")
        else:
            # Lparen arm
            arm = only_via(b, (blk0, ve0["edges"].get("Lparen", -1))) if "Lparen" in ve0["edges"] else set()
            inner = [(blk, ve) for blk, ve in sws if blk in arm]
            # the arm's own results (an inlined helper's `Ok(())` is not one)
            oks = [(bb, s) for bb, _, s in region_aggs(b, arm, "std::result::Result") if s["rv"]["variant"] == "Ok" and "ast::Ast" in str(s["place"].get("ty", "ast::Ast"))]
            ok = len(inner) == 1 and len(oks) == 1
            if ok:
                blk, ve = inner[0]
                ok = set(ve["edges"]) == {"Rparen"} and edge_dominates(b, (blk, ve["edges"]["Rparen"]), oks[0][0]) and \
                    err_only(b, only_via(b, (blk, ve["otherwise"])))
            n += 1
            ctx.check(ok, rule, "nud:Lparen", "a parenthesised expression is Ok only after consuming ')'; any other token there is an error", b.span)
            # Lbrace arm
            arm = only_via(b, (blk0, ve0["edges"].get("Lbrace", -1))) if "Lbrace" in ve0["edges"] else set()
            inner = [(blk, ve) for blk, ve in sws if blk in arm]
            aggs = [(bb, s) for bb, _, s in region_aggs(b, arm, AST) if s["rv"]["variant"] == "MultiHash"]
            ok = len(inner) == 1 and len(aggs) == 1
            if ok:
                blk, ve = inner[0]
                ok = set(ve["edges"]) == {"Rbrace", "Comma"} and edge_dominates(b, (blk, ve["edges"]["Rbrace"]), aggs[0][0]) and \
                    err_only(b, only_via(b, (blk, ve["otherwise"])))
            n += 1
            ctx.check(ok, rule, "nud:Lbrace", "a multi-select hash ends only at '}', continues only at ','; any other token after a pair is an error", b.span)
    # parse_kvp: ':' between key and value
    k = ctx.fn(P + "parse_kvp", rule=rule)
    if k is not None:
        tp = TokenPaths(lib, k)
        aggs = [(bb, s) for bb, _, s in region_aggs(k, k.reachable(), "ast::KeyValuePair")]
        ok = len(aggs) == 1
        if ok:
            good = True
            for blocks, events in tp.paths(0, [aggs[0][0]]):
                seq = [e for e in events if e[0] in ("fact", "consume", "advcase")]
                # advance (key) ; key case ; peek == Colon ; advance ; expr
                facts = [i for i, e in enumerate(seq) if e[0] == "fact" and e[1] == "Colon" and e[2] is True]
                if not facts or not (len(seq) > facts[0] + 1 and seq[facts[0] + 1][:2] == ("consume", "advance")):
                    good = False
            ok = good
            colon_sw = [(blk, t) for blk, t in tp.tests.items() if t[0] == "peek-eq" and t[1] == "Colon"]
            ok = ok and len(colon_sw) == 1 and err_only(k, only_via(k, (colon_sw[0][0], colon_sw[0][1][3])))
        n += 1
        ctx.check(ok, rule, "parse_kvp", "a key-value pair is built only after ':' was seen and consumed; a missing ':' is an error", k.span)
    # parse_list: leaves the loop only when the closing token is next, and consumes it
    pl = ctx.fn(P + "parse_list", rule=rule)
    if pl is not None:
        tp = TokenPaths(lib, pl)
        ok = True
        cnt = 0
        for blocks, events in tp.paths(0, [None]):
            if path_returns_err(pl, blocks):
                continue
            cnt += 1
            if not closing_consumed_last(events):
                ok = False
        n += 1
        ctx.check(ok and cnt >= 1, rule, "parse_list", f"parse_list returns Ok only after seeing the closing token and consuming it ({cnt} Ok path(s))", pl.span)
    # parse_index: the loop is left only through ']'
    pi = ctx.fn(P + "parse_index", rule=rule)
    if pi is not None:
        sws, tp = adv_switches(lib, pi)
        cyc = cfg_cycles(pi)
        ok = len(sws) == 1 and len(cyc) == 1
        if ok:
            blk, ve = sws[0]
            cs = set(cyc[0])
            aggs = [(bb, s) for bb, _, s in region_aggs(pi, pi.reachable(), AST)]
            ok = "Rbracket" in ve["edges"] and all(edge_dominates(pi, (blk, ve["edges"]["Rbracket"]), bb) or bb in cs for bb, s in aggs) and \
                all(bb not in cs for bb, s in aggs)
        n += 1
        ctx.check(ok, rule, "parse_index", "index / slice nodes are built only after ']' ended the bracket contents", pi.span)
    ctx.floor(rule, n, 7, "closing-delimiter rows")


# =============================================================================================
def check_complete_input(ctx, lib):
    rule = "complete-input"
    b = ctx.fn(P + "parse", rule=rule)
    if b is None:
        return
    # spelling-independent (and_then closure, `?`, match): one expr(0); a result is Ok only under "the next token is Eof",
    # and then it is exactly what expr(0) produced; every other continuation of that test ends in an error
    o = Origins(b, lib)
    ex = [t for _, t in b.calls() if t["callee"] == P + "expr"]
    ok = len(ex) == 1 and o.of_operand(ex[0]["args"][1]) == {("const", 0)}
    if ok:
        tp = TokenPaths(lib, b)
        oks = [(bb, s) for bb, _, s in region_aggs(b, b.reachable(), "std::result::Result") if s["rv"]["variant"] == "Ok"]
        sw = [(blk, t[1]) for blk, t in tp.tests.items() if t[0] == "peek-discr"]
        # the same test as a comparison: `self.peek(0) == &Token::Eof` / `!=`
        sw += [(blk, {"edges": {t[1]: t[2]}, "otherwise": t[3]}) for blk, t in tp.tests.items() if t[0] == "peek-eq" and isinstance(t[1], str)]
        ok = len(oks) >= 1 and len(sw) == 1
        if ok:
            blk, ve = sw[0]
            ok = set(ve["edges"]) == {"Eof"} and err_only(b, only_via(b, (blk, ve["otherwise"])))
            for bb, st in oks:
                val = o.of_operand(st["rv"]["ops"][0])
                ok = ok and edge_dominates(b, (blk, ve["edges"]["Eof"]), bb) and bool(val) and all(t[0] == "call" and t[1] == P + "expr" for t in val)
    ctx.check(ok, rule, "parse", "Parser::parse = expr(0) and then Ok(result) only if the next token is Eof; anything left over is an error", b.span)
    pf = ctx.fn("parser::parse", rule=rule)
    if pf is not None:
        names = [t["callee"] for _, t in pf.calls() if not t["callee"].startswith("std::ops::")]
        ctx.check(names == ["lexer::tokenize", P + "new", P + "parse"], rule, "entry", f"parse(expr) = Parser::new(tokenize(expr)?, expr).parse() (calls {names})", pf.span)


# =============================================================================================
def accept_set(b, blk, ve):
    acc = set()
    for v, tgt in ve["edges"].items():
        if not err_only(b, only_via(b, (blk, tgt))):
            acc.add(v)
    rest = [v for v in ve["all"] if v not in ve["edges"]]
    if rest and not err_only(b, only_via(b, (blk, ve["otherwise"]))):
        acc |= set(rest)
    return acc


def check_dispatch(ctx, lib):
    rule = "dispatch"
    for fn, want in ((P + "nud", NUD_ACCEPT), (P + "led", LED_ACCEPT)):
        b = ctx.fn(fn, rule=rule)
        if b is None:
            continue
        from ..parsing import KindDispatch
        kd = KindDispatch(lib, b)
        if kd.first_consume is None:
            ctx.missing(rule, fn, f"{fn} dispatch switch")
            continue
        # kind by kind: is the consumed token answered without an error on some path?
        acc = {K for K in ALL_TOKENS if kd.accepts(K)}
        ctx.check(acc == want, rule, fn.split("::")[-1],
                  f"{fn.split('::')[-1]} answers without an error exactly for the grammar's token kinds (missing {sorted(want-acc)}, extra {sorted(acc-want)})", b.span)
    # parse_dot
    b = ctx.fn(P + "parse_dot", rule=rule)
    if b is not None:
        tp = TokenPaths(lib, b)
        sw = [(blk, t[1]) for blk, t in tp.tests.items() if t[0] == "peek-discr"]
        ok = len(sw) == 1
        if ok:
            blk, ve = sw[0]
            acc = accept_set(b, blk, ve)
            ok = acc == DOT_ACCEPT
            # '[' after '.' is a multi-select list, never an index
            if ok:
                arm = only_via(b, (blk, ve["edges"]["Lbracket"]))
                names = [t["callee"] for _, t in region_calls(b, arm) if is_consumer(t["callee"])]
                ok = names == [P + "advance", P + "parse_multi_list"]
                rest = set()
                for v in DOT_ACCEPT - {"Lbracket"}:
                    a2 = only_via(b, (blk, ve["edges"][v])) if v in ve["edges"] else set()
                    rest |= {t["callee"] for _, t in region_calls(b, a2) if is_consumer(t["callee"])}
                ok = ok and rest == {P + "expr"}
        ctx.check(ok, rule, "parse_dot", "after '.': identifier, quoted identifier, '*', '{', '&' start an operand; '[' starts a multi-select list only; everything else is an error", b.span)
    # led '[': Number/Colon -> index, Star -> wildcard, else error
    b = ctx.fn(P + "led", rule=rule)
    if b is not None:
        o = Origins(b, lib)
        br = Branches(b, o)
        blk0, ve0 = first_discr_switch(b, br, TOKEN)
        tp = TokenPaths(lib, b)
        if ve0 and "Lbracket" in ve0["edges"]:
            arm = only_via(b, (blk0, ve0["edges"]["Lbracket"]))
            sw = [(blk, t[1]) for blk, t in tp.tests.items() if t[0] == "peek-discr" and blk in arm]
            ok = len(sw) == 1
            if ok:
                blk, ve = sw[0]
                acc = accept_set(b, blk, ve)
                ok = acc == {"Number", "Colon", "Star"}
                if ok:
                    for v, fnn in (("Number", "parse_index"), ("Colon", "parse_index"), ("Star", "parse_wildcard_index")):
                        a2 = only_via(b, (blk, ve["edges"][v])) if len({ve["edges"][x] for x in ve["edges"]}) == len(ve["edges"]) else reach_avoiding(b, ve["edges"][v])
                        names = {t["callee"] for _, t in region_calls(b, reach_avoiding(b, ve["edges"][v])) if is_consumer(t["callee"])}
                        ok = ok and (P + fnn) in names
            ctx.check(ok, rule, "led:bracket-specifier", "after a left operand '[' must be followed by a number, ':' or '*' (index, slice, list wildcard); anything else is an error", b.span)
        # call needs a Field on the left
        if ve0 and "Lparen" in ve0["edges"]:
            arm = only_via(b, (blk0, ve0["edges"]["Lparen"]))
            ok = False
            # the first case analysis of the left operand in the arm (drop elaboration re-tests the same value later)
            cands = []
            for blk in sorted(arm):
                ve = br.variant_edges(blk)
                if ve and ve["adt"] == AST and all(term_mentions(s, lambda y: y == ("param", 2)) for s in ve["scrutinee"]):
                    cands.append((len(b.dominators().get(blk, ())), blk, ve))
            if cands:
                _, blk, ve = min(cands, key=lambda c: (c[0], c[1]))
                ok = set(ve["edges"]) == {"Field"} and err_only(b, only_via(b, (blk, ve["otherwise"]))) and \
                    not err_only(b, only_via(b, (blk, ve["edges"]["Field"])))
            ctx.check(ok, rule, "led:call-needs-field", "'(' after a left operand is a call only if that operand is a Field; otherwise an error", b.span)
    # nud: quoted identifier followed by '(' is an error; '[' dispatch
    b = ctx.fn(P + "nud", rule=rule)
    if b is not None:
        o = Origins(b, lib)
        br = Branches(b, o)
        blk0, ve0 = first_discr_switch(b, br, TOKEN)
        tp = TokenPaths(lib, b)
        if ve0 and "QuotedIdentifier" in ve0["edges"]:
            arm = only_via(b, (blk0, ve0["edges"]["QuotedIdentifier"]))
            sw = [(blk, t[1]) for blk, t in tp.tests.items() if t[0] == "peek-discr" and blk in arm]
            ok = len(sw) == 1 and set(sw[0][1]["edges"]) == {"Lparen"} and err_only(b, only_via(b, (sw[0][0], sw[0][1]["edges"]["Lparen"])))
            ctx.check(ok, rule, "nud:quoted-not-callable", "a quoted identifier followed by '(' is an error", b.span)
        if ve0 and "Lbracket" in ve0["edges"]:
            arm = only_via(b, (blk0, ve0["edges"]["Lbracket"]))
            # the dispatch on the token after '[' (single-kind tests such as matches!(peek(1), Rbracket) are guards, not the dispatch)
            sw = [(blk, t[1]) for blk, t in tp.tests.items() if t[0] == "peek-discr" and blk in arm and len(t[1]["edges"]) > 1]
            ok = len(sw) == 1
            if ok:
                blk, ve = sw[0]
                ok = {"Number", "Colon", "Star"} <= set(ve["edges"])
                if ok:
                    n1 = {t["callee"] for _, t in region_calls(b, reach_avoiding(b, ve["edges"]["Number"])) if is_consumer(t["callee"])}
                    n2 = {t["callee"] for _, t in region_calls(b, reach_avoiding(b, ve["otherwise"])) if is_consumer(t["callee"])}
                    n3 = {t["callee"] for _, t in region_calls(b, reach_avoiding(b, ve["edges"]["Star"])) if is_consumer(t["callee"])}
                    ok = n1 == {P + "parse_index"} and n2 == {P + "parse_multi_list"} and \
                        n3 == {P + "advance", P + "parse_wildcard_index", P + "parse_multi_list"}
                    # `*` is a list wildcard only when followed by ']' (lookahead 1)
                    star_guard = False
                    for sb, sw in br.switches():
                        pe = peek_eq_switch(lib, b, br, sb) or peek_is_switch(b, br, sb)
                        if pe and pe[0] == "Rbracket" and pe[1] == 1 and sb in reach_avoiding(b, ve["edges"]["Star"]):
                            wi = [bb for bb, t in b.calls() if t["callee"] == P + "parse_wildcard_index"]
                            ml = [bb for bb, t in b.calls() if t["callee"] == P + "parse_multi_list"]
                            star_guard = len(wi) == 1 and edge_dominates(b, (sb, pe[2]), wi[0]) and ml and ml[0] in reach_avoiding(b, pe[3])
                    ok = ok and star_guard
            ctx.check(ok, rule, "nud:bracket", "prefix '[': number or ':' -> index/slice, '*]' -> list wildcard, otherwise a multi-select list", b.span)


# =============================================================================================
def check_parse_index(ctx, lib):
    rule = "bracket-contents"
    b = ctx.fn(P + "parse_index", rule=rule)
    if b is None:
        return
    tp = TokenPaths(lib, b)
    sw = [(blk, t[1]) for blk, t in tp.tests.items() if t[0] == "adv-discr"]
    if len(sw) != 1:
        ctx.bad(rule, "switch", f"parse_index matches the consumed token at {len(sw)} places (expected one)", b.span)
        return
    blk, ve = sw[0]
    acc = accept_set(b, blk, ve)
    ctx.check(acc == {"Number", "Colon", "Rbracket"}, rule, "tokens", f"inside brackets only numbers, ':' and ']' are accepted (found {sorted(acc)})", b.span)
    psw = [(pb, t[1]) for pb, t in tp.tests.items() if t[0] == "peek-discr"]
    num_arm = only_via(b, (blk, ve["edges"]["Number"])) if "Number" in ve["edges"] else set()
    col_arm = reach_avoiding(b, ve["edges"]["Colon"]) if "Colon" in ve["edges"] else set()
    ok_num = ok_col = False
    for pb, pve in psw:
        if pb in num_arm:
            ok_num = accept_set(b, pb, pve) == {"Colon", "Rbracket"}
        elif pb in col_arm:
            ok_col = accept_set(b, pb, pve) == {"Number", "Colon", "Rbracket"}
    ctx.check(ok_num, rule, "after-number", "a number must be followed by ':' or ']'", b.span)
    ctx.check(ok_col, rule, "after-colon", "a ':' must be followed by a number, ':' or ']'", b.span)
    # at most two colons: the Colon arm first tests pos >= 2 -> Err
    o = Origins(b, lib)
    br = Branches(b, o)
    ok = False
    for sb in sorted(col_arm):
        be = br.bool_edges(sb)
        if be and edge_dominates(b, (blk, ve["edges"]["Colon"]), sb):
            for c in br.cond(sb):
                if c[0] == "bin" and c[1] == "Ge" and c[3] == ("const", 2):
                    ok = err_only(b, only_via(b, (sb, be[0])))
    ctx.check(ok, rule, "two-colons-max", "a third ':' is an error", b.span)


# =============================================================================================
SINGLE = {".": "Dot", "*": "Star", "@": "At", "]": "Rbracket", "{": "Lbrace", "}": "Rbrace", "(": "Lparen",
          ")": "Rparen", ",": "Comma", ":": "Colon"}
ALT = {"|": ("|", "Or", "Pipe"), "&": ("&", "And", "Ampersand"), ">": ("=", "Gte", "Gt"), "<": ("=", "Lte", "Lt"),
       "!": ("=", "Ne", "Not")}
SCAN = {"[": "consume_lbracket", '"': "consume_quoted_identifier", "'": "consume_raw_string", "`": "consume_literal",
        "-": "consume_negative_number"}


def check_lexer(ctx, lib):
    rule = "lexical"
    b = ctx.fn(L + "tokenize", rule=rule)
    if b is None:
        return
    o = Origins(b, lib)
    # the char local: payload .1 of iter.next()
    cl = None
    start = None
    for bb, i, s in b.stmts():
        if s["k"] == "assign" and not s["place"]["p"] and s["rv"]["k"] == "use" and b.local_ty(s["place"]["l"]) == "char":
            op = s["rv"]["op"]
            if op.get("k") in ("copy", "move") and op["p"]:
                ts = o.of_operand(op)
                if all(t[0] == "field" and t[2] == "1" for t in ts) and cl is None:
                    cl, start = s["place"]["l"], bb
    if cl is None:
        ctx.missing(rule, "char", "tokenize: current character local")
        return
    cf = CharFlow(b, cl, start, o)
    table = {}  # action -> ISet
    n = 0

    def add(action, cs):
        table[action] = table.get(action, ISet.empty()).union(cs)

    loop = set()
    for c in cfg_cycles(b):
        loop |= set(c)
    for bb, t in b.calls():
        cs = cf.at(bb)
        if cs.is_empty():
            continue
        c = t["callee"]
        if c.startswith(L):
            name = c[len(L):]
            if name == "alt":
                a = [o.of_operand(x) for x in t["args"]]
                # parameter roles are read off the helper's own body, not assumed by position
                roles = alt_roles(lib) or (2, 3, 4)
                exp = [x[1] for x in a[roles[0] - 1] if x[0] == "const"]
                m1 = token_of_terms(lib, b, a[roles[1] - 1])
                m2 = token_of_terms(lib, b, a[roles[2] - 1])
                add(("alt", chr(exp[0]) if exp else "?", m1, m2), cs)
            else:
                extra = ""
                if name == "consume_number":
                    sa = sign_argument(lib)
                    sgn = o.of_operand(t["args"][sa[0] - 1]) if sa else set()
                    extra = ":neg" if (sa and sa[1](sgn)) else (":pos" if (sa and sa[2](sgn)) else ":?")
                add(("scan", name + extra), cs)
    # a token written out for a character class (`'.' => Dot`): the Token value is built in the arm of that class — pushed
    # there or handed to one shared push — and is not one of alt()'s two candidates; every token so built reaches a push
    pushed = set()
    for bb, t in b.calls():
        if t["callee"].endswith("::push_back"):
            for x in o.of_operand(t["args"][1]):
                if x[0] == "agg" and x[1] == "tuple" and len(x[2]) == 2:
                    for y in x[2][1]:
                        if y[0] == "agg" and y[1].startswith(TOKEN + "::"):
                            pushed.add(y[1].split("::")[-1])
    alt_cands = set()
    for action, cs in table.items():
        if action[0] == "alt":
            alt_cands |= {(repr(cs), action[2]), (repr(cs), action[3])}
    for bb, i, st in b.stmts():
        if st["k"] == "assign" and st["rv"]["k"] == "agg" and st["rv"].get("adt") == TOKEN and not st["rv"]["ops"]:
            cs = cf.at(bb)
            tk = st["rv"]["variant"]
            if cs.is_empty() or cs == ISet.full() or tk == "Eof" or (repr(cs), tk) in alt_cands:
                continue
            if tk not in pushed:
                ctx.bad(rule, f"char-map:unpushed:{tk}", f"token {tk} is built for {cs!r} but never pushed", b.span)
            add(("token", tk), cs)
    # error / whitespace classes: blocks that build the "Invalid character" error or continue
    errs = ISet.empty()
    for bb, i, s in b.stmts():
        if s["k"] == "assign" and s["rv"]["k"] == "agg" and s["rv"].get("adt") == "errors::ErrorReason":
            cs = cf.at(bb)
            if not cs.is_empty() and cs != ISet.full():
                add(("error",), cs)
    # whitespace: chars that reach the loop back edge without any call in between other than next()
    covered = ISet.empty()
    for k, v in table.items():
        covered = covered.union(v)
    ws = covered.compl()
    ident = rng("a", "z").union(rng("A", "Z")).union(chars("_"))
    digits = rng("0", "9")
    want = {("scan", "consume_identifier"): ident, ("scan", "consume_number:pos"): digits}
    for ch, tk in SINGLE.items():
        want[("token", tk)] = chars(ch)
    for ch, (e, m1, m2) in ALT.items():
        want[("alt", e, m1, m2)] = chars(ch)
    for ch, fn in SCAN.items():
        want[("scan", fn)] = chars(ch)
    want[("token", "Eq")] = chars("=")
    special = chars("".join(list(SINGLE) + list(ALT) + list(SCAN) + ["="]))
    want_ws = chars(" \n\t\r")
    want_err = ident.union(digits).union(special).union(want_ws).compl().union(chars("="))
    for action, cs in sorted(want.items(), key=str):
        got = table.get(action, ISet.empty())
        n += 1
        ctx.check(got == cs, rule, "char-map:" + ":".join(str(x) for x in action), f"characters leading to {action}: {got!r} (grammar: {cs!r})", b.span)
    extra = [a for a in table if a not in want and a != ("error",)]
    ctx.check(not extra, rule, "char-map:no-extra-actions", f"no other character-triggered action exists (found {extra})", b.span)
    got_err = table.get(("error",), ISet.empty())
    ctx.check(got_err == want_err, rule, "char-map:error", f"every other character is a lexical error; a lone '=' is checked separately (found error class {got_err!r})", b.span)
    ctx.check(ws == want_ws, rule, "char-map:whitespace", f"skipped characters are exactly space, newline, tab, carriage return (found {ws!r})", b.span)
    ctx.floor(rule, n, 23, "character -> action rows")
    # '=' must be followed by '=': the Eq token is pushed only when a second character was read and equals '='
    eq_push = [bb for bb, i, st in b.stmts() if st["k"] == "assign" and st["rv"]["k"] == "agg" and st["rv"].get("adt") == TOKEN and
               st["rv"]["variant"] == "Eq" and cf.at(bb) == chars("=")]
    ok = len(eq_push) == 1
    detail = ""
    if ok:
        pb = eq_push[0]
        n2 = [(bb, t) for bb, t in b.calls() if t["callee"] == "std::iter::Iterator::next" and cf.at(bb) == chars("=")]
        ok = len(n2) == 1
        if ok:
            nb, nt = n2[0]
            # second char local: payload .1 of that next()
            c2 = None
            derived = {nt["dest"]["l"]}
            grew = True
            while grew:
                grew = False
                for bb, i, st in b.stmts():
                    if st["k"] == "assign" and not st["place"]["p"] and st["place"]["l"] not in derived:
                        rv = st["rv"]
                        src = rv["place"] if rv["k"] == "ref" else (rv["op"] if rv["k"] == "use" and rv["op"].get("k") in ("copy", "move") else None)
                        if src is not None and src["l"] in derived and len(b.assigns_to(st["place"]["l"])) == 1:
                            derived.add(st["place"]["l"])
                            grew = True
            for bb, i, st in b.stmts():
                if st["k"] == "assign" and not st["place"]["p"] and b.local_ty(st["place"]["l"]) == "char" and st["place"]["l"] in derived:
                    if c2 is None or b.dominates(bb, c2[1]):
                        c2 = (st["place"]["l"], bb)
            if c2 is None:
                # the second character matched in place by a literal pattern (`Some((_, '='))`): a switch on the char inside next()'s result
                ok = False
                detail = "second character not found"
                for sb in sorted(b.reachable()):
                    stt = b.blocks[sb]["term"]
                    if stt["k"] == "switch" and stt["discr"].get("k") in ("copy", "move") and stt["discr"].get("p") and \
                            stt["discr"]["l"] in derived and stt["discr"].get("ty") == "char":
                        tg = dict((v, x) for v, x in stt["targets"])
                        if set(tg) == {ord("=")} and edge_dominates(b, (sb, tg[ord("=")]), pb) and b.dominates(nb, sb):
                            detail = "Eq pushed under the in-place pattern '=' on the second character"
                            errb = {bb for bb, i, st in b.stmts() if st["k"] == "assign" and st["place"]["l"] == 0 and not st["place"]["p"]
                                    and st["rv"]["k"] == "agg" and st["rv"].get("variant") == "Err"}
                            errb |= {bb for bb, tt in b.calls() if tt["callee"] == "std::ops::FromResidual::from_residual" and tt["dest"]["l"] == 0 and not tt["dest"]["p"]}
                            r = reach_avoiding(b, nt["t"], avoid_blocks=errb | {pb})
                            leaks = [x for x in r if b.blocks[x]["term"]["k"] == "return" or (b.blocks[x]["term"]["k"] == "call" and b.blocks[x]["term"]["callee"].endswith("::push_back"))]
                            ok = not leaks
            else:
                cf2 = CharFlow(b, c2[0], c2[1], o)
                ok = cf2.at(pb) == chars("=") and b.dominates(c2[1], pb)
                detail = f"Eq pushed for second char in {cf2.at(pb)!r}"
                # every other way out of the '=' arm is an error
                errb = {bb for bb, i, st in b.stmts() if st["k"] == "assign" and st["place"]["l"] == 0 and not st["place"]["p"]
                        and st["rv"]["k"] == "agg" and st["rv"].get("variant") == "Err"}
                r = reach_avoiding(b, nt["t"], avoid_blocks=errb | {pb})
                leaks = [x for x in r if b.blocks[x]["term"]["k"] == "return" or (b.blocks[x]["term"]["k"] == "call" and b.blocks[x]["term"]["callee"].endswith("::push_back"))]
                ok = ok and not leaks
    ctx.check(ok, rule, "equals-needs-equals", f"'=' yields Eq only when the next character is '='; a lone '=' is a parse error ({detail})", b.span)
    ctx.attempt("check_scanners", check_scanners, ctx, lib)


def closure_true_set(lib, cb, char_local=2, start=0):
    """Set of chars for which a `|c| -> bool` closure returns true (CharFlow over its body)."""
    # param 2 is the char (or char_local holds it from block `start` on: `|&(_, c)|`)
    cf = CharFlow(cb, char_local, start, Origins(cb, lib))
    true_set = ISet.empty()
    false_set = ISet.empty()
    for bb, i, s in cb.stmts():
        if s["k"] == "assign" and s["place"]["l"] == 0 and not s["place"]["p"] and s["rv"]["k"] == "use" and s["rv"]["op"].get("k") == "const":
            if s["rv"]["op"].get("int") == 1:
                true_set = true_set.union(cf.at(bb))
            elif s["rv"]["op"].get("int") == 0:
                false_set = false_set.union(cf.at(bb))
        elif s["k"] == "assign" and s["place"]["l"] == 0 and not s["place"]["p"] and s["rv"]["k"] == "binop":
            # the last disjunct of `c == 'a' || c == 'b'` is the answer itself
            cs = cf._cmp_set(s["rv"])
            if cs is None:
                return None
            here = cf.at(bb)
            true_set = true_set.union(here.inter(cs))
            false_set = false_set.union(here.inter(cs.compl()))
    # a std character-class test as (part of) the answer: `c.is_digit(10)`, `c == '_' || c.is_ascii_alphanumeric()`
    DIG = ISet([(0x30, 0x39)])
    ALPHA = ISet([(0x41, 0x5a), (0x61, 0x7a)])
    CLASSES = {"is_ascii_digit": DIG, "is_ascii_alphabetic": ALPHA, "is_ascii_alphanumeric": DIG.union(ALPHA),
               "is_ascii_uppercase": ISet([(0x41, 0x5a)]), "is_ascii_lowercase": ISet([(0x61, 0x7a)])}
    for bb, t in cb.calls():
        if t["dest"]["l"] == 0 and not t["dest"]["p"]:
            name = t["callee"].split("::")[-1]
            cls = CLASSES.get(name)
            if name == "is_digit" and len(t["args"]) > 1 and t["args"][1].get("int") == 10:
                cls = DIG
            if cls is None or (char_local == 2 and Origins(cb, lib).of_operand(t["args"][0]) != {("param", 2)}):
                return None
            here = cf.at(bb)
            true_set = true_set.union(here.inter(cls))
            false_set = false_set.union(here.inter(cls.compl()))
    if true_set.union(false_set) != ISet.full():
        return None
    return true_set


def check_scanners(ctx, lib):
    rule = "lexical"
    # identifier continuation class
    ci = ctx.fn(L + "consume_identifier", rule=rule)
    if ci is not None:
        clos = lib.closures_of(L + "consume_identifier")
        ok = len(clos) == 1
        got = closure_true_set(lib, clos[0]) if ok else None
        want = rng("a", "z").union(rng("A", "Z")).union(rng("0", "9")).union(chars("_"))
        ctx.check(got == want, rule, "identifier-continue", f"identifier continuation characters: {got!r} (grammar: {want!r})", ci.span)
        o = Origins(ci, lib)
        toks = [s for _, _, s in region_aggs(ci, ci.reachable(), TOKEN)]
        ok = len(toks) == 1 and toks[0]["rv"]["variant"] == "Identifier" and \
            all(x[0] == "call" and x[1] == L + "consume_while" and x[2][1] == fs({("param", 2)}) for x in o.of_operand(toks[0]["rv"]["ops"][0]))
        ctx.check(ok, rule, "identifier-token", "consume_identifier yields Identifier(first char + continuation characters)", ci.span)
    # consume_while: stops at the first char failing the predicate, consumes exactly the accepted ones
    cw = ctx.fn(L + "consume_while", rule=rule)
    if cw is not None:
        o = Origins(cw, lib)
        names = [t["callee"] for _, t in cw.calls()]
        pushes = [t for _, t in cw.calls() if t["callee"].endswith("String::push")]
        ok = len(pushes) == 1 and ((any(n.endswith("Peekable::<I>::peek") for n in names) and any(n == "std::iter::Iterator::next" for n in names)) or
                                   any(n.endswith("Peekable::<I>::next_if") for n in names))
        if ok and any(n.endswith("Peekable::<I>::next_if") for n in names):
            # next_if(|&(_, c)| predicate(c)): the test is the caller's predicate applied to the character
            ok = False
            for c in lib.closures_of(L + "consume_while"):
                co = Origins(c, lib)
                r = co.of_local(0)
                if r and all(x[0] == "call" and x[1] in ("std::ops::Fn::call", "std::ops::FnMut::call_mut", "std::ops::FnOnce::call_once") for x in r):
                    ok = True
        ctx.check(ok, rule, "consume_while", "consume_while peeks, and pushes + consumes a character only while the predicate holds", cw.span)
    # consume_lbracket
    cl = ctx.fn(L + "consume_lbracket", rule=rule)
    if cl is not None:
        ok, detail = peeked_char_table(lib, cl, {"]": "Flatten", "?": "Filter"}, "Lbracket")
        if not ok:
            nt = next_if_table(lib, cl)
            if nt is not None:
                tok = lambda v: {("agg", TOKEN + "::" + v, (), ())}
                ok = nt == {"]": tok("Flatten"), "?": tok("Filter"), "<other>": tok("Lbracket")}
                detail = "next_if form: " + str({k: fmt_terms(v) for k, v in nt.items()})
        ctx.check(ok, rule, "lbracket", f"'[' followed by ']' is Flatten, by '?' is Filter (both consumed), otherwise Lbracket ({detail})", cl.span)
    # alt
    al = ctx.fn(L + "alt", rule=rule)
    if al is not None:
        o = Origins(al, lib)
        br = Branches(al, o)
        ret = o.of_local(0)
        ok = ret == {("param", 3), ("param", 4)}
        nexts = [bb for bb, t in al.calls() if t["callee"] == "std::iter::Iterator::next"]
        ok = ok and len(nexts) == 1
        if ok:
            # the next() is dominated by the comparison c == expected being true
            good = False
            for sb, sw in br.switches():
                be = br.bool_edges(sb)
                if be:
                    for c in br.cond(sb):
                        if c[0] == "bin" and c[1] == "Eq" and ("param", 2) in (c[2], c[3]) and edge_dominates(al, (sb, be[0]), nexts[0]):
                            good = True
            ok = good
        roles = alt_roles(lib)
        ok = roles is not None and sorted(roles) == [2, 3, 4]
        ctx.check(ok, rule, "alt", "alt(expected, a, b): consumes the next character and yields a only if it equals `expected`, else yields b", al.span)
    # '=' must be followed by '='
    tk = lib.fn(L + "tokenize")
    check_number_lexing(ctx, lib, rule)
    # delimited forms
    ins = ctx.fn(L + "consume_inside", rule=rule)
    if ins is not None:
        o = Origins(ins, lib)
        br = Branches(ins, o)
        cyc = cfg_cycles(ins)
        ok = len(cyc) == 1
        if ok:
            cs = set(cyc[0])
            nexts = [x for x in cyc[0] if ins.blocks[x]["term"]["k"] == "call" and ins.blocks[x]["term"]["callee"] == "std::iter::Iterator::next"]
            # exhausted iterator (None edge of the loop-head next) leads to Err only
            head = None
            for x in nexts:
                t = ins.blocks[x]["term"]
                ve = br.variant_edges(t["t"])
                if ve and ve["adt"] == "std::option::Option":
                    none_t = ve["edges"].get("None", ve["otherwise"])
                    if none_t not in cs:
                        head = (t["t"], none_t)
            ok = head is not None and err_only(ins, only_via(ins, head))
        ctx.check(ok, rule, "unterminated-delimiter", "running out of input inside a quoted / raw / literal form is a parse error", ins.span)
        # closing delimiter: returns invoke(buffer) mapped to a parse error on failure
        inv = [t for _, t in ins.calls() if t["callee"] == "std::ops::Fn::call"]
        me = [t for _, t in ins.calls() if t["callee"] == "std::result::Result::<T, E>::map_err"]
        ctx.check(len(inv) == 1 and len(me) == 1, rule, "delimited-decode-error", "the decoded contents are produced by the form's decoder and its failure becomes a parse error", ins.span)
    for fn, what in ((L + "consume_literal", "JSON literal"), (L + "consume_quoted_identifier", "quoted identifier")):
        bq = ctx.fn(fn, rule=rule)
        if bq is None:
            continue
        clos = lib.closures_of(fn)
        ok = False
        from ..analysis import is_failure_term, results_avoiding_edge, success_edge
        for c in clos:
            co = Origins(c, lib)
            cbr = Branches(c, co)
            fj = [(bb, t) for bb, t in c.calls() if t["callee"] == "variable::Variable::from_json"]
            if len(fj) != 1:
                continue
            # however the decoder's answer is taken apart (match, `?`, map/map_err): when it failed, the closure fails
            se = success_edge(c, co, cbr, lambda ts: all(strip_through(x)[0] == "call" and strip_through(x)[1] == "variable::Variable::from_json" for x in ts))
            if se is not None:
                res = results_avoiding_edge(c, lib, (se[0], se[1]))
                ok = bool(res) and all(is_failure_term(x) for x in res)
        ctx.check(ok, rule, f"invalid-{what.replace(' ', '-')}", f"a {what} whose contents are not valid JSON is a parse error", bq.span)
    # ... and "valid JSON" means the whole contents: the parse routine itself rejects trailing characters (shared with C08)
    from .c08 import check_from_json
    check_from_json(ctx, lib, rule)


def check_number_lexing(ctx, lib, rule):
    """The integer written is the integer used: digits are ASCII, the lexeme goes through a fallible i32 parse, '-' needs a non-zero digit."""
    # numbers
    cn = ctx.fn(L + "consume_number", rule=rule)
    if cn is not None:
        o = Origins(cn, lib)
        pc = [t for _, t in cn.calls() if t["callee"] == "core::str::<impl str>::parse"]
        ok = len(pc) == 1 and pc[0]["callee_args"] == ["i32"]
        me = [t for _, t in cn.calls() if t["callee"] == "std::result::Result::<T, E>::map_err"]
        if ok and len(me) != 1:
            # `match lexeme.parse::<i32>() { Ok(v) => v, Err(_) => return Err(..) }`: the failing edge ends in an error return only
            from ..analysis import region_always_errs, success_edge
            cbr = Branches(cn, o)
            se = success_edge(cn, o, cbr, lambda ts: all(x[0] == "call" and x[1] == "core::str::<impl str>::parse" for x in ts))
            ok = se is not None and region_always_errs(cn, {x for x in reach_avoiding(cn, se[2]) if edge_dominates(cn, (se[0], se[2]), x)})
        else:
            ok = ok and len(me) == 1
        unwraps = [t["callee"] for _, t in cn.calls() if re.search(r"::(unwrap|expect|unwrap_or|unwrap_or_default|unwrap_or_else)$", t["callee"])]
        ctx.check(ok and not unwraps, rule, "number-32bit", "a number lexeme goes through a fallible str::parse::<i32>() whose failure becomes a parse error (32-bit rule)", cn.span)
        clos = [c for c in lib.closures_of(L + "consume_number")]
        dig = [closure_true_set(lib, c) for c in clos]
        ctx.check(ISet([(0x30, 0x39)]) in dig, rule, "number-digits", "a number continues over ASCII digits only", cn.span)
    nn = ctx.fn(L + "consume_negative_number", rule=rule)
    if nn is not None:
        o = Origins(nn, lib)
        br = Branches(nn, o)
        calls = [(bb, t) for bb, t in nn.calls() if t["callee"] == L + "consume_number"]
        sa = sign_argument(lib)
        ok = len(calls) == 1 and sa is not None and sa[1](o.of_operand(calls[0][1]["args"][sa[0] - 1]))
        if ok:
            site = calls[0][0]
            num = nz = False
            for sb, sw in br.switches():
                be = br.bool_edges(sb)
                if not be:
                    continue
                for c in br.cond(sb):
                    if c[0] == "call" and c[1].split("::")[-1] in ("is_numeric", "is_ascii_digit", "is_digit") and edge_dominates(nn, (sb, be[0]), site):
                        num = True
                    if c[0] == "bin" and c[1] == "Ne" and ("const", ord("0")) in (c[2], c[3]) and edge_dominates(nn, (sb, be[0]), site):
                        nz = True
                    if c[0] == "bin" and c[1] == "Eq" and ("const", ord("0")) in (c[2], c[3]) and edge_dominates(nn, (sb, be[1]), site):
                        nz = True
            ok = num and nz
            errs = [s for _, _, s in region_aggs(nn, nn.reachable(), "std::result::Result") if s["rv"]["variant"] == "Err"]
            ok = ok and len(errs) >= 1
        ctx.check(ok, rule, "minus-needs-nonzero-digit", "'-' must be followed by a digit other than '0', otherwise a parse error", nn.span)


def sign_argument(lib):
    """How consume_number is told the sign: (parameter number, is_negating(term set), is_non_negating(term set)) read off its
    body — the negation of the parsed value is dominated by that parameter being `true` (a flag) or a particular variant of a
    private enum — or None."""
    cn = lib.fn(L + "consume_number")
    if cn is None:
        return None
    o = Origins(cn, lib)
    br = Branches(cn, o)
    negs = [bb for bb, i, st in cn.stmts() if st["k"] == "assign" and st["rv"]["k"] == "unop" and st["rv"]["op"] == "Neg"]
    if len(negs) != 1:
        return None
    nb = negs[0]
    for sb, sw in br.switches():
        be = br.bool_edges(sb)
        if be:
            for c in br.cond(sb):
                if c[0] == "param" and be[0] != be[1] and edge_dominates(cn, (sb, be[0]), nb):
                    return c[1], (lambda ts: ts == {("const", 1)}), (lambda ts: ts == {("const", 0)})
        ve = br.variant_edges(sb)
        if ve and len(ve["scrutinee"]) == 1 and next(iter(ve["scrutinee"]))[0] == "param" and ve["adt"] in lib.adts:
            prm = next(iter(ve["scrutinee"]))[1]
            hit = [v for v, tgt in ve["edges"].items() if edge_dominates(cn, (sb, tgt), nb) and tgt != ve["otherwise"]]
            if len(hit) == 1:
                adt = ve["adt"]
                neg_t = ("agg", f"{adt}::{hit[0]}", (), ())
                return prm, (lambda ts, neg_t=neg_t: ts == {neg_t}), (lambda ts, adt=adt, neg_t=neg_t: bool(ts) and neg_t not in ts and all(x[0] == "agg" and x[1].startswith(adt + "::") for x in ts))
    return None


def alt_roles(lib):
    """Which parameter of the two-character-operator helper is the expected second character, which token is returned when it
    follows (and is consumed) and which otherwise: (expected, matched, otherwise) as parameter numbers, or None."""
    from ..decision import Undecided, Walker
    al = lib.fn(L + "alt")
    if al is None:
        return None
    nt = next_if_table(lib, al)
    if nt is not None:
        keys = [k for k in nt if k != "<other>"]
        if len(keys) == 1 and isinstance(keys[0], tuple) and keys[0][0] == "param" and len(nt[keys[0]]) == 1 and len(nt.get("<other>", ())) == 1:
            m_, o_ = next(iter(nt[keys[0]])), next(iter(nt["<other>"]))
            if m_[0] == "param" and o_[0] == "param" and m_ != o_:
                return keys[0][1], m_[1], o_[1]
        return None
    o = Origins(al, lib)
    br = Branches(al, o)
    nexts = [bb for bb, t in al.calls() if t["callee"] == "std::iter::Iterator::next"]
    if len(nexts) != 1:
        return None
    exp = None
    for sb, sw in br.switches():
        be = br.bool_edges(sb)
        if be:
            for c in br.cond(sb):
                if c[0] == "bin" and c[1] == "Eq" and edge_dominates(al, (sb, be[0]), nexts[0]):
                    ps = [x for x in (c[2], c[3]) if x[0] == "param"]
                    if len(ps) == 1:
                        exp = ps[0][1]
    if exp is None:
        return None
    w = Walker(al, o)
    try:
        with_next, without = set(), set()
        for path, leaf in w.walk():
            (with_next if nexts[0] in path else without).update(w.result_on_path(path))
    except Undecided:
        return None
    if len(with_next) == 1 and len(without) == 1:
        m_, o_ = next(iter(with_next)), next(iter(without))
        if m_[0] == "param" and o_[0] == "param" and m_ != o_:
            return exp, m_[1], o_[1]
    return None


def _small(iset, limit=4):
    return sum(hi - lo + 1 for lo, hi in getattr(iset, "iv", [])) <= limit


def next_if_table(lib, b):
    """For a scanner written with `self.iter.next_if(|&(_, c)| c == K)`: {scenario: result terms} where a scenario is one of
    the keys K (a character, or a parameter of b) meaning "the next character equals K", or "<other>" (a different character
    or the end of input).  next_if consumes the character exactly when it answers Some, so nothing else may touch the
    iterator.  None if the function is not of that form."""
    from ..decision import Undecided, Walker
    o = Origins(b, lib)
    sites = {}
    for bb, t in b.calls():
        c = t["callee"]
        if c.endswith("Peekable::<I>::next_if"):
            if o.of_operand(t["args"][0]) != {("field", ("param", 1), "iter")}:
                return None
            clo = [x for x in o.of_operand(t["args"][1]) if x[0] == "closure"]
            if len(clo) != 1:
                return None
            cb = lib.fn(clo[0][1])
            if cb is None:
                return None
            r = Origins(cb, lib).of_local(0)
            e = next(iter(r)) if len(r) == 1 else None
            if e is None or not (e[0] == "bin" and e[1] == "Eq" and ("field", ("param", 2), "1") in (e[2], e[3])):
                # a predicate accepting a few characters (`matches!(c, ']' | '?')`, `c == ']' || c == '?'`): the set it accepts
                cl = [(bb2, st["place"]["l"]) for bb2, i2, st in cb.stmts() if st["k"] == "assign" and not st["place"]["p"] and
                      cb.local_ty(st["place"]["l"]) == "char" and st["rv"]["k"] == "use" and st["rv"]["op"].get("l") == 2 and
                      [x for x in st["rv"]["op"].get("p", []) if x != "deref"] and
                      all((x == "deref") or (isinstance(x, dict) and x.get("f") == 1) for x in st["rv"]["op"].get("p", []))]
                ts = closure_true_set(lib, cb, cl[0][1], cl[0][0]) if len(cl) == 1 else None
                chars_ = [chr(v) for lo, hi in (ts.iv if ts is not None else []) for v in range(lo, hi + 1)] if ts is not None and _small(ts) else None
                if not chars_:
                    return None
                sites[bb] = frozenset(chars_)
                continue
            k = e[3] if e[2] == ("field", ("param", 2), "1") else e[2]
            if k[0] == "const" and isinstance(k[1], int):
                key = chr(k[1])
            elif k[0] == "field" and k[1] == ("closure_env",) and k[2].isdigit() and int(k[2]) < len(clo[0][2]) and len(clo[0][2][int(k[2])]) == 1:
                key = next(iter(clo[0][2][int(k[2])]))
                if key[0] == "const" and isinstance(key[1], int):
                    key = chr(key[1])      # an inlined helper called with a literal character
            else:
                return None
            sites[bb] = key
        elif c in ("std::iter::Iterator::next",) or c.endswith("Peekable::<I>::peek") or c.endswith("Peekable::<I>::next_if_eq"):
            return None
    if not sites:
        return None
    out = {}
    keys = []
    for k in sites.values():
        for kk in (sorted(k) if isinstance(k, frozenset) else [k]):
            if kk not in keys:
                keys.append(kk)
    for scen in keys + ["<other>"]:
        def answer(t, scen=scen):
            # t: the next_if call term; Some exactly when the scenario's character is (among) the one(s) it accepts
            if not (t[0] == "call" and t[1].endswith("Peekable::<I>::next_if")):
                return False
            k = sites.get(t[3])
            return scen in k if isinstance(k, frozenset) else k == scen

        def atom(t, scen=scen):
            if t[0] == "discr" and t[1][0] == "call" and t[1][1].endswith("Peekable::<I>::next_if"):
                return "Some" if answer(t[1]) else "None"
            # the character handed back by next_if is the scenario's
            if t[0] == "field" and t[2] == "1" and isinstance(scen, str) and len(scen) == 1 and \
                    term_mentions(t[1], lambda y: y[0] == "call" and y[1].endswith("Peekable::<I>::next_if") and answer(y)):
                return ord(scen)
            return None

        def call(t, argvals, scen=scen):
            if t[1] in ("std::option::Option::<T>::is_some", "std::option::Option::<T>::is_none") and len(t[2]) == 1 and len(t[2][0]) == 1:
                x = next(iter(t[2][0]))
                if x[0] == "call" and x[1].endswith("Peekable::<I>::next_if"):
                    v = int(answer(x))
                    return v if t[1].endswith("is_some") else 1 - v
            return None
        w = Walker(b, o, atom=atom, call=call)
        res = set()
        try:
            for path, leaf in w.walk():
                # an earlier next_if that answered Some has consumed the character: a later one on the same path sees the
                # one after it — only the first Some on a path is meaningful, and the scanners return right after it
                res |= set(w.result_on_path(path))
        except Undecided:
            return None
        out[scen] = res
    return out


def peeked_char_table(lib, b, table, default):
    """Function peeks the next char; for chars in table: consumes it and returns Token table[c];
    otherwise returns `default` without consuming."""
    o = Origins(b, lib)
    br = Branches(b, o)
    # char local = payload .1 of peek()
    cl = None
    start = None
    for bb, i, s in b.stmts():
        if s["k"] == "assign" and not s["place"]["p"] and b.local_ty(s["place"]["l"]) == "char":
            pass
    # simpler: path-insensitive summary through token aggregates and the switch on the char
    found = {}
    for sb, sw in br.switches():
        t = b.blocks[sb]["term"]
        d = t["discr"]
        if d.get("ty") == "char":
            for v, tgt in t["targets"]:
                reg = {x for x in reach_avoiding(b, tgt) if edge_dominates(b, (sb, tgt), x)}
                toks = [s["rv"]["variant"] for _, _, s in region_aggs(b, reg, TOKEN)]
                nx = [1 for _, c in region_calls(b, reg) if c["callee"] == "std::iter::Iterator::next"]
                found[chr(v)] = (toks, len(nx))
            reg = {x for x in reach_avoiding(b, t["otherwise"]) if edge_dominates(b, (sb, t["otherwise"]), x)}
            toks = [s["rv"]["variant"] for _, _, s in region_aggs(b, reg, TOKEN)]
            nx = [1 for _, c in region_calls(b, reg) if c["callee"] == "std::iter::Iterator::next"]
            found["<other>"] = (toks, len(nx))
    ok = set(found) == set(table) | {"<other>"}
    for ch, tk in table.items():
        ok = ok and found.get(ch) == ([tk], 1)
    # default may be built on several paths (None / other char)
    alltoks = [s["rv"]["variant"] for _, _, s in region_aggs(b, b.reachable(), TOKEN)]
    ok = ok and set(alltoks) == set(table.values()) | {default} and found.get("<other>", ([], 1))[1] == 0
    return ok, str(found)
