"""C11 — evaluation is compositional: compound expressions mean what their parts mean."""
from ..analysis import Origins, fmt_terms
from ..effects import check_effects
from ..interp import AST_VARIANTS, CTX, DATA, INTERP, NODE, Interp
from ..parsing import AST, P, region_aggs

fs = frozenset

EXPLANATION = (
    "Context-flow table of the evaluator, decided by provenance analysis of interpreter::interpret: for each of the 18 node "
    "kinds, the set of recursive evaluations (which node field is evaluated against which current node) must equal the "
    "table transcribed from the specification (Subexpr: rhs against the result of lhs; Projection: rhs against each element "
    "of the array result of lhs; everything else against the unchanged current node; leaves evaluate nothing). The same "
    "Context is threaded through unchanged. 'Nothing else is read' is the C13 effect analysis (no shared state, offset "
    "write-only). Parser side: pipe and dot both build Subexpr(left, right); a parenthesised expression yields the inner node "
    "and is not continued by projection_rhs (node-vocabulary rows shared with C04)."
)
ASSUMPTIONS = ["the step from 'each arm composes its parts this way' to the algebraic laws is the usual structural induction (not decided)"]

# variant -> list of (node field, data class)
TABLE = {
    "Subexpr": [("Subexpr.lhs", "data"), ("Subexpr.rhs", "res:Subexpr.lhs")],
    "Or": [("Or.lhs", "data"), ("Or.rhs", "data")],
    "And": [("And.lhs", "data"), ("And.rhs", "data")],
    "Comparison": [("Comparison.lhs", "data"), ("Comparison.rhs", "data")],
    "Not": [("Not.node", "data")],
    "ObjectValues": [("ObjectValues.node", "data")],
    "Flatten": [("Flatten.node", "data")],
    "Condition": [("Condition.predicate", "data"), ("Condition.then", "data")],
    "Projection": [("Projection.lhs", "data"), ("Projection.rhs", "each:Projection.lhs")],
    "MultiList": [("each-node:MultiList.elements", "data")],
    "MultiHash": [("each-node:MultiHash.elements:value", "data")],
    "Function": [("each-node:Function.args", "data")],
    "Field": [], "Identity": [], "Literal": [], "Index": [], "Expref": [], "Slice": [],
}


def classify(ip, data_terms, node_terms):
    nodes = set()
    for t in node_terms:
        if t[0] == "field" and t[1] == NODE:
            nodes.add(t[2])
        elif t[0] == "elem" and t[1][0] == "field" and t[1][1] == NODE:
            nodes.add(f"each-node:{t[1][2]}")
        elif t[0] == "field" and t[1][0] == "elem" and t[1][1][0] == "field" and t[1][1][1] == NODE:
            nodes.add(f"each-node:{t[1][1][2]}:{t[2]}")
        else:
            nodes.add("?" + fmt_terms([t]))
    datas = set()
    for t in data_terms:
        if t == DATA:
            datas.add("data")
        elif t[0] == "call" and t[1] == INTERP and set(t[2][0]) == {DATA} and len(t[2][1]) == 1:
            f = next(iter(t[2][1]))
            datas.add("res:" + (f[2] if f[0] == "field" and f[1] == NODE else "?"))
        elif t[0] == "elem" and t[1][0] == "view" and t[1][1] == "array":
            inner = t[1][2]
            if inner[0] == "call" and inner[1] == INTERP and set(inner[2][0]) == {DATA} and len(inner[2][1]) == 1:
                f = next(iter(inner[2][1]))
                datas.add("each:" + (f[2] if f[0] == "field" and f[1] == NODE else "?"))
            else:
                datas.add("?" + fmt_terms([t]))
        else:
            datas.add("?" + fmt_terms([t]))
    return nodes, datas


def run(ctx):
    lib = ctx.lib()
    ip = Interp(lib)
    if not ip.ok:
        ctx.missing("context-flow", "interpret", "; ".join(ip.problems))
        return
    for p in ip.problems:
        ctx.bad("context-flow", f"shape:{p[:40]}", p, ip.b.span)
    n = 0
    for v in AST_VARIANTS:
        arm = ip.arms.get(v)
        if arm is None:
            ctx.bad("context-flow", v, f"interpret has no arm for {v}", ip.b.span)
            continue
        got = []
        for blk, d, nd, c in arm.recursive:
            nodes, datas = classify(ip, d, nd)
            got.append((tuple(sorted(nodes)), tuple(sorted(datas))))
            n += 1
            ctx.check(c == {CTX}, "context-threading", f"{v}@{'|'.join(sorted(nodes))}", f"{v}: the same evaluation context is passed on ({fmt_terms(c)})", ip.b.blocks[blk]["term"]["span"]["s"])
        want = sorted(((f,), (d,)) for f, d in TABLE[v])
        ctx.check(sorted(got) == want, "context-flow", v,
                  f"{v}: sub-evaluations (node field -> current node) are {sorted(got)}; the specification requires {want}", ip.b.span)
    ctx.floor("context-flow", n, 18, "recursive evaluation sites classified")
    # the per-arm composition rows of the statement (shared with C01): pipe/sub-expression, projections,
    # multi-selects and the truth-table forms depend only on their parts' results, exactly as specified
    from . import c01
    for v in ("Subexpr", "Projection", "Flatten", "MultiList", "MultiHash", "Or", "And", "Not", "Condition"):
        arm = ip.arms.get(v)
        fn = getattr(c01, "arm_" + v, None)
        if arm is not None and fn is not None:
            ctx.attempt(f"arm_{v}", fn, ctx, ip, arm)
    # no other body evaluates sub-expressions of the node except builtins on expression references
    callers = set()
    # a private helper of the evaluator that evaluates sub-expressions itself (`call_function` evaluating the arguments) is
    # mutually recursive with interpret and therefore not inlined: it counts as the evaluator when interpret is its only caller
    from ..inline import load_known
    known = load_known() or set()

    def only_called_by_interpret(d):
        cs = {x.j.get("closure_root") if x.kind == "closure" and x.j.get("closure_root") else x.deff
              for x in lib.fn_bodies() for _, t in x.calls() if (t.get("resolved") or t["callee"]) == d or t["callee"] == d}
        return bool(cs) and cs <= {INTERP, d}
    for b in lib.fn_bodies():
        for bb, t in b.calls():
            if t["callee"] == INTERP and b.deff != INTERP and b.j.get("closure_root") != INTERP:
                # a closure of a function is that function evaluating (e.g. `.map(|x| interpret(x, ..))` inside map's evaluate)
                who = b.j.get("closure_root") if b.kind == "closure" and b.j.get("closure_root") else b.deff
                if who not in known and who.startswith("interpreter::") and only_called_by_interpret(who):
                    continue
                # a closure of a helper that was inlined belongs to the functions the helper was inlined into
                own = lib.owners(b) - {INTERP}
                callers |= own if (who not in known) else {who}
    allowed = {"Expression::<'a>::search"} | {f"<functions::{x} as functions::Function>::evaluate" for x in ("MapFn", "SortByFn", "MaxByFn", "MinByFn")}
    ctx.check(callers == allowed, "context-flow", "who-may-evaluate", f"interpret is called only from search and the four expression-reference builtins (found extra {sorted(callers - allowed)}, missing {sorted(allowed - callers)})")
    # the Slice arm's value is the slice helper's: which elements it selects is part of what the arm denotes (shared with C07)
    from .c07 import check_slice_routine
    ctx.attempt("check_slice_routine", check_slice_routine, ctx, lib)
    # the truth-table forms (||, &&, !, filter conditions) denote through the truthiness of their operands' results: the
    # truthiness table per kind of value (shared with C01)
    ctx.attempt("check_truthy", c01.check_truthy, ctx, lib)
    # parser side
    ctx.attempt("check_parser_side", check_parser_side, ctx, lib)
    # nothing else is read: effect analysis verdict
    sub = check_effects_quiet(ctx, lib)


def check_effects_quiet(ctx, lib):
    """Re-use the C13 effect rules that carry the 'depends on nothing else' clause."""
    from ..runner import Ctx
    tmp = Ctx("C13", ctx.tier, ctx.facts, ctx.thash)
    check_effects(tmp, lib, "default")
    keep = ("statics", "interior-mutability", "offset-write-only", "nondeterminism", "fresh-context")
    for inst in tmp.instances:
        if inst.rule in keep and inst.status != "ok":
            ctx.bad("nothing-else-is-read", inst.key, inst.what, inst.loc)
    nok = sum(1 for i in tmp.instances if i.rule in keep and i.status == "ok")
    ctx.check(True, "nothing-else-is-read", "summary", f"{nok} effect-rule instances (no shared mutable state, context offset write-only, no ambient inputs) hold")


def check_parser_side(ctx, lib):
    from ..analysis import Branches, edge_dominates
    from ..parsing import first_discr_switch, region, TOKEN
    from .c04 import check_arm_results, check_top_level
    rule = "parser-composition"
    check_top_level(ctx, lib, rule)
    ctx.attempt("check_arm_results", check_arm_results, ctx, lib, rule)
    # which tokens belong to a projection's right-hand side (and to each operand) is part of "the parts": the operand-power
    # rows of C04 (every operand / right-hand side is parsed with the documented power of its own operator)
    from ..parsing import lbp_table
    from .c04 import check_operands
    table, why = lbp_table(lib)
    if table is None:
        ctx.missing(rule, "Token::lbp", why)
    else:
        ctx.attempt("check_operands", check_operands, ctx, lib, table)
    b = ctx.fn(P + "led", rule=rule)
    if b is None:
        return
    from ..parsing import KindDispatch
    kd = KindDispatch(lib, b)
    if kd.first_consume is None:
        ctx.missing(rule, "led", "led dispatch")
        return
    for tok, callee in (("Pipe", P + "expr"), ("Dot", P + "parse_dot")):
        if not kd.accepts(tok):
            ctx.bad(rule, tok, f"led has no arm for {tok}", b.span)
            continue
        blocks = kd.region(tok)
        o = kd.origins(tok)
        aggs = [s for _, _, s in region_aggs(b, blocks, AST)]
        ok = len(aggs) == 1 and aggs[0]["rv"]["variant"] == "Subexpr"
        if ok:
            vals = dict(zip(aggs[0]["rv"]["fnames"], (o.of_operand(x) for x in aggs[0]["rv"]["ops"])))
            ok = vals["lhs"] == {("param", 2)} and all(t[0] == "call" and t[1] == callee for t in vals["rhs"]) and bool(vals["rhs"])
        ctx.check(ok, rule, tok, f"`{'|' if tok == 'Pipe' else '.'}` builds Subexpr(lhs: left operand, rhs: freshly parsed operand)", b.span)
    n = ctx.fn(P + "nud", rule=rule)
    if n is not None:
        nkd = KindDispatch(lib, n)
        if nkd.accepts("Lparen"):
            blocks = nkd.region("Lparen")
            no = nkd.origins("Lparen")
            aggs = [s for _, _, s in region_aggs(n, blocks, AST)]
            oks = [s for _, _, s in region_aggs(n, blocks, "std::result::Result") if s["rv"]["variant"] == "Ok" and "ast::Ast" in str(s["place"].get("ty", "ast::Ast"))]
            ok = not aggs and len(oks) == 1 and all(t[0] == "call" and t[1] == P + "expr" for t in no.of_operand(oks[0]["rv"]["ops"][0]))
            pr = [1 for x in blocks if n.blocks[x]["term"]["k"] == "call" and n.blocks[x]["term"]["callee"] == P + "projection_rhs"]
            ctx.check(ok and not pr, rule, "parenthesised", "a parenthesised expression yields the inner node itself and ends any projection (no projection_rhs)", n.span)
        else:
            ctx.bad(rule, "parenthesised", "nud has no arm for '('", n.span)
