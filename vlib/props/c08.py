"""C08 — JSON data passes through unchanged (kind-preserving conversion tables)."""
import re

from .. import rettags as RT
from ..analysis import strip_through, Branches, Origins, blocks_separate, edge_dominates, fmt_terms, reach_avoiding
from ..build import read_manifests
from ..interp import DATA, Interp
from ..serde_tables import VAR, casts_in, f64_mapping_ok, int_entry_ok, number_from_calls
from ..tmatch import ANY, Agg, Call, Each, Or_, m, ms
from .c14 import arm_regions, results

fs = frozenset
P1, P2 = ("param", 1), ("param", 2)
VIS = "<<variable::Variable as serde::Deserialize<'de>>::deserialize::VariableVisitor as serde::de::Visitor<'de>>::"

EXPLANATION = (
    "Numeric and textual fidelity (which double a numeral denotes, escapes, text round trip) is serde_json's and is not "
    "decided. This crate's contribution is a set of kind-preserving conversions, decided as tables from MIR provenance: the "
    "Deserialize visitor (bool->Bool, i64/u64->Number via Number::from of the same width with no cast, f64->Number or Null "
    "when non-finite, str/string->String of the argument, none/unit->Null, some->recursive deserialize, seq->Array pushing "
    "every next_element in arrival order, map->Object inserting every entry into a BTreeMap, so the last duplicate key "
    "wins), Serialize for Variable (each kind to the like-named serializer call with its own payload; Number through "
    "serde_json's Number), TryFrom<Value>/TryFrom<&Value> (each Value kind to the like-named Variable kind, children "
    "converted recursively, order kept); no bridge body contains an integer-narrowing, sign-changing, int<->float cast; the "
    "identity query returns the data handle itself, search hands to_jmespath(data) straight to the evaluator, Display is "
    "serde_json::to_string; the manifest keeps serde_json's Number representation (no arbitrary_precision) and serde's rc."
)
ASSUMPTIONS = [
    "serde_json's parser/printer: integer exactness, float accuracy (documented default), string escapes, duplicate-key order of visit_map calls",
]


def run(ctx):
    lib = ctx.lib()
    ctx.attempt("check_visitor", check_visitor, ctx, lib)
    ctx.attempt("check_serialize", check_serialize, ctx, lib)
    ctx.attempt("check_tryfrom", check_tryfrom, ctx, lib)
    ctx.attempt("check_casts", check_casts, ctx, lib)
    ctx.attempt("check_identity", check_identity, ctx, lib)
    ctx.attempt("check_manifest", check_manifest, ctx, lib)
    # under default features search() converts its input through the crate's own Serializer (Variable::serialize ->
    # Serializer / SeqState / MapState), so the identity query is only as faithful as those rows (shared with C14)
    from . import c14
    ctx.attempt("check_serializer", c14.check_serializer, ctx, lib)
    ctx.attempt("check_states", c14.check_states, ctx, lib)


def check_visitor(ctx, lib):
    rule = "deserialize-visitor"
    found = {b.item_name: b for b in lib.fn_bodies() if b.deff.startswith(VIS) and b.kind == "method"}
    expected = {"expecting", "visit_bool", "visit_i64", "visit_u64", "visit_f64", "visit_str", "visit_string", "visit_none",
                "visit_some", "visit_unit", "visit_seq", "visit_map"}
    ctx.check(set(found) == expected, rule, "method-set", f"the visitor overrides exactly the tabulated methods (missing {sorted(expected - set(found))}, untabulated {sorted(set(found) - expected)})")
    n = 0

    def row(name, ok, text):
        nonlocal n
        n += 1
        b = found.get(name)
        ctx.check(bool(ok), rule, name, f"{name}: {text}", b.span if b else "")

    def R(name):
        b = found.get(name)
        if b is None:
            return None, None, [], []
        o, okt, tails = results(b, lib)
        return b, o, okt, tails

    b, o, okt, tails = R("visit_bool")
    row("visit_bool", b and okt and not tails and all(ms(t, Agg(VAR + "::Bool", Each(P2))) for t in okt), "Bool(value)")
    for nm, ty in (("visit_i64", "i64"), ("visit_u64", "u64")):
        b, o, okt, tails = R(nm)
        ok = bool(b) and bool(okt) and not tails and all(ms(t, Agg(VAR + "::Number", Each(P2))) for t in okt)
        if ok:
            ok, why = int_entry_ok(b, ty, P2)
        row(nm, ok, f"Number(Number::from::<{ty}>(value)) — exact, no cast, no detour through a double")
    b, o, okt, tails = R("visit_f64")
    ok = bool(b) and len(okt) >= 1 and not tails and not casts_in(b) and f64_mapping_ok(set().union(*okt), P2)
    row("visit_f64", ok, "Number(from_f64(value)), Null for a non-finite value")
    if b is not None:
        from ..serde_tables import f64_decided_by_from_f64
        row("visit_f64:decided-by-from_f64", f64_decided_by_from_f64(b, o, P2), "every result lies after Number::from_f64(value); only a finiteness test of the value may come first")
    b, o, okt, tails = R("visit_string")
    row("visit_string", b and okt and not tails and all(ms(t, Agg(VAR + "::String", Each(P2))) for t in okt), "String(the owned string)")
    b, o, okt, tails = R("visit_str")
    row("visit_str", b and not okt and len(tails) == 1 and m(tails[0], Call("serde::de::Visitor::visit_string", Each(P1), Each(P2))), "visit_string(String::from(value)) — every code point kept")
    for nm in ("visit_none", "visit_unit"):
        b, o, okt, tails = R(nm)
        row(nm, b and okt and not tails and all(ms(t, Agg(VAR + "::Null")) for t in okt), "Null")
    b, o, okt, tails = R("visit_some")
    ok = bool(b) and not okt and len(tails) == 1 and m(tails[0], Call("serde::Deserialize::deserialize", Each(P2)))
    if ok:
        dc = [t for _, t in b.calls() if t["callee"] == "serde::Deserialize::deserialize"]
        ok = len(dc) == 1 and dc[0]["callee_args"][0] == VAR
    row("visit_some", ok, "the inner value deserialised as a Variable")
    # visit_seq
    b = found.get("visit_seq")
    if b is not None:
        o, okt, tails = results(b, lib)
        pushes = [(bb, t) for bb, t in b.calls() if t["callee"].endswith("Vec::<T, A>::push")]
        nx = [(bb, t) for bb, t in b.calls() if t["callee"] == "serde::de::SeqAccess::next_element"]
        ok = len(pushes) == 1 and len(nx) == 1 and len(okt) == 1 and not tails
        if ok:
            vec = o.of_operand(pushes[0][1]["args"][0])
            val = o.of_operand(pushes[0][1]["args"][1])
            ok = ms(vec, Call("std::vec::Vec::<T>::new")) and ms(val, Call("serde::de::SeqAccess::next_element", Each(P2))) and \
                ms(okt[0], Agg(VAR + "::Array", Each(Call("std::vec::Vec::<T>::new")))) and unconditional_add(b, o, nx[0], pushes[0])
        if not ok and not pushes and len(nx) == 0:
            ok = pull_form(lib, b, okt, tails, "Array", "serde::de::SeqAccess::next_element")
        row("visit_seq", ok, "every next_element is pushed, in arrival order, nothing dropped; the result is that Array")
    b = found.get("visit_map")
    if b is not None:
        o, okt, tails = results(b, lib)
        ins = [(bb, t) for bb, t in b.calls() if t["callee"].endswith("BTreeMap::<K, V, A>::insert")]
        nx = [(bb, t) for bb, t in b.calls() if t["callee"] == "serde::de::MapAccess::next_entry"]
        ok = len(ins) == 1 and len(nx) == 1 and len(okt) == 1 and not tails
        if ok:
            a = [o.of_operand(x) for x in ins[0][1]["args"]]
            ent = Call("serde::de::MapAccess::next_entry", Each(P2))
            ok = ms(a[0], Call(r"BTreeMap::<K, V>::new$", regex=True)) and ms(a[1], ("field", ent, "0")) and ms(a[2], ("field", ent, "1")) and \
                ms(okt[0], Agg(VAR + "::Object", Each(Call(r"BTreeMap::<K, V>::new$", regex=True)))) and unconditional_add(b, o, nx[0], ins[0])
        if not ok and not ins and len(nx) == 0:
            # the same pull form collected into Result<BTreeMap<..>, _>: FromIterator for BTreeMap inserts the pairs in arrival
            # order, a later duplicate key overwriting the earlier one — what the explicit insert loop does
            ok = pull_form(lib, b, okt, tails, "Object", "serde::de::MapAccess::next_entry")
        row("visit_map", ok, "every entry is inserted under its own key into an ordered map (a later duplicate overwrites); the result is that Object")
    ctx.floor(rule, n, 12, "visitor rows")
    d = ctx.fn("<variable::Variable as serde::Deserialize<'de>>::deserialize", rule=rule)
    if d is not None:
        calls = [t for _, t in d.calls()]
        ok = len(calls) == 1 and calls[0]["callee"] == "serde::Deserializer::deserialize_any"
        ctx.check(ok, rule, "entry", "Variable::deserialize = deserializer.deserialize_any(VariableVisitor)", d.span)
    check_from_json(ctx, lib, rule)


def pull_form(lib, b, okt, tails, variant, accessor):
    """from_fn(|| access.next_x().transpose()).collect::<Result<C, _>>() wrapped in Variable::<variant>: from_fn yields until the
    closure answers None, transpose turns Ok(None) into that None and Ok(Some(x)) / Err(e) into items, and collecting into Result
    stops at the first Err — every item, in arrival order, first error returned."""
    from ..analysis import strip_through
    allr = set().union(*okt) if okt else set()
    good = bool(allr) and not tails
    for t in allr:
        if not (t[0] == "agg" and t[1] == VAR + "::" + variant and len(t[2]) == 1):
            good = False
            continue
        for c in t[2][0]:
            c = strip_through(c)
            if not (c[0] == "call" and c[1] == "std::iter::Iterator::collect" and len(c[2]) == 1):
                good = False
                continue
            for ff in c[2][0]:
                if not (ff[0] == "call" and ff[1] == "std::iter::from_fn" and len(ff[2]) == 1 and len(ff[2][0]) == 1):
                    good = False
                    continue
                clo = next(iter(ff[2][0]))
                cb = lib.fn(clo[1]) if clo[0] == "closure" else None
                if cb is None or len(clo[2]) != 1 or set(clo[2][0]) != {P2}:
                    good = False
                    continue
                r = Origins(cb, lib).of_local(0)
                good = good and bool(r) and all(
                    x[0] == "call" and x[1].endswith("::transpose") and len(x[2]) == 1 and x[2][0] and
                    all(y[0] == "call" and y[1] == accessor and
                        set(y[2][0]) == {("field", ("closure_env",), "0")} for y in x[2][0]) for x in r)
                good = good and [tt["callee"] for _, tt in cb.calls() if not tt["callee"].endswith("::transpose")] == [accessor]
    return good


def check_from_json(ctx, lib, rule):
    """from_json is serde_json's complete-text parse: the whole text must be one JSON value (trailing characters
    are an error) and the value is built by the Variable visitor."""
    fj = ctx.fn("variable::Variable::from_json", rule=rule)
    if fj is not None:
        calls = [t for _, t in fj.calls() if t["callee"].startswith("serde_json::")]
        ok = len(calls) == 1 and calls[0]["callee"] == "serde_json::from_str" and calls[0]["callee_args"][-1] == VAR and \
            Origins(fj, lib).of_operand(calls[0]["args"][0]) == {P1}
        r = Origins(fj, lib).of_local(0)
        ok = ok and bool(r) and all(t[0] == "call" and t[1] in ("serde_json::from_str", "std::result::Result::<T, E>::map_err") for t in r)
        ctx.check(ok, rule, "from_json", "from_json(s) = serde_json::from_str::<Variable>(s): the whole text is one JSON value, nothing may follow it", fj.span)


def unconditional_add(b, o, nx, add):
    """From the Some(..) arm of the access call the loop head is reached only through the add."""
    br = Branches(b, o)
    nb, nt = nx
    ab, at = add
    # the success path of `?` on the access result, then the Some arm
    r = reach_avoiding(b, nt["t"], avoid_blocks=[ab])
    # blocks that return Ok without passing the add are fine only via the None arm
    if nb in r:
        # can we get back to the access call without adding? only allowed if not through a Some payload
        # find the Option switch on the access result
        for sb, sw in br.switches():
            ve = br.variant_edges(sb)
            if ve and ve["adt"] == "std::option::Option" and "Some" in ve["edges"]:
                some_t = ve["edges"]["Some"]
                if nb in reach_avoiding(b, some_t, avoid_blocks=[ab]):
                    return False
        return True
    return True


def check_serialize(ctx, lib):
    rule = "serialize-table"
    b = ctx.fn("<variable::Variable as serde::Serialize>::serialize", rule=rule)
    if b is None:
        return
    o = Origins(b, lib)
    br = Branches(b, o)
    sb, ve, arms = arm_regions(b, br, VAR, P1)
    if ve is None:
        ctx.missing(rule, "switch", "dispatch on the value's kind")
        return
    want = {
        "Null": ("serde::Serializer::serialize_unit", None),
        "Bool": ("serde::Serializer::serialize_bool", "Bool.0"),
        "String": ("serde::Serializer::serialize_str", "String.0"),
        "Number": ("serde::Serialize::serialize", "Number.0"),
        "Array": ("serde::Serialize::serialize", "Array.0"),
        "Object": ("serde::Serialize::serialize", "Object.0"),
    }
    n = 0
    for kind, (callee, pay) in want.items():
        cs = [b.blocks[x]["term"] for x in sorted(arms.get(kind, set())) if b.blocks[x]["term"]["k"] == "call" and
              (b.blocks[x]["term"]["callee"].startswith("serde::Serializer::") or b.blocks[x]["term"]["callee"] == "serde::Serialize::serialize")]
        ok = len(cs) == 1 and cs[0]["callee"] == callee and cs[0]["dest"]["l"] == 0
        if ok:
            if callee == "serde::Serialize::serialize":
                ok = o.of_operand(cs[0]["args"][0]) == {("field", P1, pay)} and o.of_operand(cs[0]["args"][1]) == {P2}
            elif pay:
                ok = o.of_operand(cs[0]["args"][1]) == {("field", P1, pay)} and o.of_operand(cs[0]["args"][0]) == {P2}
            else:
                ok = o.of_operand(cs[0]["args"][0]) == {P2}
        n += 1
        ctx.check(ok, rule, kind, f"{kind} -> {callee.split('::')[-1]}({'its own payload' if pay else ''}) on the caller's serializer, result returned unchanged", b.span)
    cs = [b.blocks[x]["term"] for x in sorted(arms.get("Expref", set())) if b.blocks[x]["term"]["k"] == "call" and b.blocks[x]["term"]["callee"].startswith("serde::Serializer::")]
    ctx.check(len(cs) == 1 and cs[0]["callee"].endswith("serialize_str"), rule, "Expref", "an expression reference (not JSON) is written as a descriptive string", b.span)
    ctx.floor(rule, n, 6, "Serialize arms")
    d = ctx.fn("<variable::Variable as std::fmt::Display>::fmt", rule=rule)
    if d is not None:
        ctx.check(display_is_json(d, lib), rule, "display", "printing a value is serde_json::to_string(self) on every path: nothing is "
                  "written, and the function does not return, without having been through it", d.span)


def display_is_json(d, lib):
    """Display::fmt for the value type: one serde_json::to_string(self) call, and every return of the function lies after it
    (so no kind of value is printed any other way)."""
    o2 = Origins(d, lib)
    ts = [(blk, t) for blk, t in d.calls() if t["callee"] == "serde_json::to_string"]
    if len(ts) != 1 or o2.of_operand(ts[0][1]["args"][0]) != {P1}:
        return False
    rets = [i for i in sorted(d.reachable()) if d.blocks[i]["term"]["k"] == "return"]
    return bool(rets) and all(blocks_separate(d, {ts[0][0]}, r) for r in rets)


def check_tryfrom(ctx, lib):
    rule = "value-conversion"
    n = 0
    for fn, owned in (("<variable::Variable as std::convert::TryFrom<serde_json::Value>>::try_from", True),
                      ("<variable::Variable as std::convert::TryFrom<&'a serde_json::Value>>::try_from", False)):
        b = ctx.fn(fn, rule=rule)
        if b is None:
            continue
        o = Origins(b, lib)
        br = Branches(b, o)
        sb, ve = br.first_variant_switch("serde_json::Value", lambda s: ms(s, P1))
        if ve is None:
            ctx.missing(rule, fn, "dispatch on the Value's kind")
            continue
        ret = {strip_through(t) for t in o.of_local(0)}
        inner = set()
        for t in ret:
            if t[0] == "agg" and t[1] == "std::result::Result::Ok":
                inner |= {strip_through(x) for x in t[2][0]}
            elif t[0] == "call" and t[1] == "variable::convert_map":
                inner.add(t)        # returned as it is (its own Result)
        tag = "owned" if owned else "borrowed"
        for kind in ("Null", "Bool", "Number", "String"):
            n += 1
            pay = None if kind == "Null" else ("field", P1, f"{kind}.0")
            pat = Agg(VAR + "::" + kind) if pay is None else Agg(VAR + "::" + kind, Each(pay))
            ok = any(m(t, pat) for t in inner)
            ctx.check(ok, rule, f"{tag}:{kind}", f"Value::{kind} -> Variable::{kind} with its own payload", b.span)
        n += 1
        # the Array row, as an iterator chain or as a loop: every element, in order, converted by to_jmespath
        from ..collected import ELEM, describe_vector
        arr = [t for t in inner if t[0] == "agg" and t[1] == VAR + "::Array"]
        ok = len(arr) >= 1
        src_ok = Or_(("field", P1, "Array.0"), ("iter", ("field", P1, "Array.0")), Call(r"Vec::<T, A>::drain$", Each(("field", P1, "Array.0")), ANY, regex=True))
        for a_ in arr:
            d = describe_vector(lib, b, o, set(a_[2][0]))
            ok = ok and d is not None and len(d) == 1 and bool(d[0].source) and all(m(x, src_ok) for x in d[0].source) and d[0].every_item and \
                bool(d[0].value) and all(m(v, Call("ToJmespath::to_jmespath", Each(ELEM))) for v in d[0].value)
        ctx.check(ok, rule, f"{tag}:Array", "Value::Array -> Variable::Array of each element converted recursively, in order", b.span)
        n += 1
        obj = [t for t in inner if t[0] == "call" and t[1] == "variable::convert_map"]
        ok = len(obj) == 1 and ms(set(obj[0][2][0]), Or_(("iter", ("field", P1, "Object.0")), Call(r"^serde_json::Map::<.*>::iter$", Each(("field", P1, "Object.0")), regex=True)))
        ctx.check(ok, rule, f"{tag}:Object", "Value::Object -> convert_map(its entries)", b.span)
        others = [t for t in inner if not ((t[0] == "agg" and t[1].startswith(VAR + "::")) or (t[0] == "call" and t[1] == "variable::convert_map"))]
        kinds = {t[1].split("::")[-1] for t in inner if t[0] == "agg" and t[1].startswith(VAR + "::")}
        ctx.check(not others and kinds == {"Null", "Bool", "Number", "String", "Array"} and len(obj) == 1, rule, f"{tag}:nothing-else", f"exactly the six kind rows produce results (kinds {sorted(kinds)}, other terms {len(others)})", b.span)
    cm = ctx.fn("variable::convert_map", rule=rule)
    if cm is not None:
        o = Origins(cm, lib)
        ins = [(bb, t) for bb, t in cm.calls() if t["callee"].endswith("BTreeMap::<K, V, A>::insert")]
        nx = [(bb, t) for bb, t in cm.calls() if t["callee"] == "std::iter::Iterator::next"]
        ok = len(ins) == 1 and len(nx) == 1
        if ok:
            a = [o.of_operand(x) for x in ins[0][1]["args"]]
            el = ("elem", P1)
            ok = ms(a[0], Call(r"BTreeMap::<K, V>::new$", regex=True)) and ms(a[1], ("field", el, "0")) and \
                ms(a[2], Call("ToJmespath::to_jmespath", Each(("field", el, "1")))) and ms(o.of_operand(nx[0][1]["args"][0]), ("iter", P1))
            oks, _ = RT.ok_values(cm)
            ok = ok and len(oks) == 1 and ms(o.of_operand(oks[0][1]), Agg(VAR + "::Object", Each(Call(r"BTreeMap::<K, V>::new$", regex=True))))
            # no entry is skipped: from the Some arm of next() the loop head is reached only through the insert
            ok = ok and unconditional_add(cm, o, nx[0], ins[0])
        if not ins:
            # the same as an iterator chain: entries.map(|(k, v)| Ok((k.to_owned(), v.to_jmespath()?))).collect::<Result<BTreeMap..>>()
            from ..collected import ELEM, describe_vector
            oks, _ = RT.ok_values(cm)
            ok = bool(oks)
            for _, op in oks:
                for t in o.of_operand(op):
                    if not (t[0] == "agg" and t[1] == VAR + "::Object" and len(t[2]) == 1):
                        ok = False
                        continue
                    d = describe_vector(lib, cm, o, set(t[2][0]))
                    if d is None or len(d) != 1:
                        ok = False
                        continue
                    bd = d[0]
                    want = ("agg", "tuple", (fs({("field", ELEM, "0")}), fs({("call", "ToJmespath::to_jmespath", (fs({("field", ELEM, "1")}),), None)})), ())
                    got = {(v[0], v[1], v[2], ()) if v[0] == "agg" else v for v in bd.value}
                    got = {(g[0], g[1], tuple(fs((y[0], y[1], y[2], None) if y[0] == "call" else y for y in comp) for comp in g[2]), ()) if g[0] == "agg" else g for g in got}
                    ok = ok and bd.source == {P1} and bd.every_item and got == {want}
        n += 1
        ctx.check(ok, rule, "convert_map", "every (key, value) entry is inserted under its own key with the value converted recursively", cm.span)
    ctx.floor(rule, n, 13, "Value conversion rows")


def check_casts(ctx, lib):
    rule = "no-lossy-casts"
    n = 0
    bad = []
    pat = re.compile(r"^(<<variable::Variable as serde::Deserialize|<variable::Variable as (serde::|std::convert::TryFrom)|<variable::(Serializer|SeqState|MapState|TupleVariantState|StructVariantState|SeqDeserializer|MapDeserializer|VariantDeserializer|EnumDeserializer) as serde|variable::(to_variable|convert_map)|variable::Variable::(from_json|from_serializable)|<.* as ToJmespath>::to_jmespath)")
    for b in lib.fn_bodies():
        if not pat.match(b.deff):
            continue
        n += 1
        for ck, frm, to, span in casts_in(b):
            if frm == "f32" and to == "f64":
                continue
            bad.append((b.deff, ck, frm, to, span))
    for d, ck, frm, to, span in bad:
        ctx.bad(rule, f"{d}:{frm}->{to}", f"{d} casts {frm} to {to} ({ck}): an integer could be narrowed, change sign or be routed through a double", span)
    ctx.check(not bad, rule, "inventory", f"{n} bridge bodies contain no numeric cast other than the widening f32 -> f64")
    ctx.floor(rule, n, 80, "bridge bodies inspected")


def check_identity(ctx, lib):
    rule = "identity-query"
    ip = Interp(lib)
    if ip.ok and "Identity" in ip.arms:
        arm = ip.arms["Identity"]
        ok = len(arm.oks) == 1 and not arm.tail and arm.oks[0][1] == {DATA} and not arm.recursive
        ctx.check(ok, rule, "Identity", "`@` returns (a handle to) the current node itself", ip.b.span)
    else:
        ctx.missing(rule, "Identity", "interpret arm for Identity")
    sb = ctx.fn("Expression::<'a>::search", rule=rule)
    if sb is not None:
        o = Origins(sb, lib)
        it = [t for _, t in sb.calls() if t["callee"] == "interpreter::interpret"]
        ok = len(it) == 1 and ms(o.of_operand(it[0]["args"][0]), Call("ToJmespath::to_jmespath", Each(P2)))
        ctx.check(ok, rule, "search-passes-converted-input", "search hands to_jmespath(data) straight to the evaluator", sb.span)


def check_manifest(ctx, lib):
    rule = "manifest"
    libm, _ = read_manifests()
    deps = libm.get("dependencies", {})
    sj = deps.get("serde_json")
    feats = sj.get("features", []) if isinstance(sj, dict) else []
    ctx.check("arbitrary_precision" not in feats, rule, "serde_json:arbitrary_precision", f"serde_json keeps its i64/u64/f64 Number representation (features {feats})")
    sd = deps.get("serde")
    sfeats = sd.get("features", []) if isinstance(sd, dict) else []
    ctx.check("rc" in sfeats, rule, "serde:rc", f"serde's `rc` feature is on, so shared values (de)serialise as their contents (features {sfeats})")
    adt = lib.adts.get(VAR)
    ok = False
    if adt:
        for v in adt["variants"]:
            if v["name"] == "Number":
                ok = [f["ty"] for f in v["fields"]] == ["serde_json::Number"]
    ctx.check(ok, rule, "number-representation", "Variable::Number holds a serde_json::Number (integer vs float spelling preserved)")
