"""C01 — search results conform to the specification (core expression forms): per-arm skeleton + leaf tables."""
from ..analysis import Branches, Origins, blocks_separate, edge_dominates, edges_dominate, fmt_terms, reach_avoiding, term_mentions
from ..decision import Undecided
from ..interp import AST_VARIANTS, CTX, DATA, INTERP, NODE, Interp
from ..leaf import KINDS, check_accessors, kind_walker

fs = frozenset
V = "variable::Variable"

EXPLANATION = (
    "Whole conformance (all programs x all documents) is not decided. Decided from MIR, for each of the 18 arms of the "
    "evaluator, is a skeleton row transcribed from the JMESPath specification in terms of value provenance, not text: what "
    "each arm returns (field lookup of the current node; the current node; the literal; left operand under its truthiness "
    "branch else the right operand's evaluation; Bool(!truthy); then-branch under truthy predicate else null; compare() "
    "mapped None->null / Some(b)->Bool(b); values of an object else null; projection = null for a non-array, else the array of "
    "per-element results pushed only on the not-null branch; flatten = one level (arrays extended, others pushed, no "
    "recursion); multi-select = null on null, else every member evaluated and collected in order / by key), that `||`/`&&` "
    "evaluate the right operand only on the corresponding truthiness branch, plus the leaf tables walked exhaustively under "
    "the 7 value kinds (is_truthy incl. '0 is truthy' and emptiness tests, get_field null on miss / wrong type, accessors, "
    "get_type) and the ascending-key representation (Object payload and MultiHash accumulator are BTreeMap<String, _>, "
    "ObjectValues iterates BTreeMap::values with no reordering)."
)
ASSUMPTIONS = [
    "the skeleton table in vlib/props/c01.py transcribes the JMESPath specification",
    "composition of the per-arm skeletons into the specified value for every expression and document is not decided",
]


def run(ctx):
    lib = ctx.lib()
    ip = Interp(lib)
    if not ip.ok:
        ctx.missing("arm-skeleton", "interpret", "; ".join(ip.problems))
        return
    for p in ip.problems:
        ctx.bad("arm-skeleton", f"shape:{p[:40]}", p, ip.b.span)
    n = 0
    for v in AST_VARIANTS:
        arm = ip.arms.get(v)
        if arm is None:
            ctx.bad("arm-skeleton", v, f"no arm for {v}", ip.b.span)
            continue
        fn = globals().get("arm_" + v)
        if fn is None:
            continue
        n += 1
        fn(ctx, ip, arm)
    ctx.floor("arm-skeleton", n, 14, "arms with a skeleton row")
    # every arm produces its result only at the tabulated sites: (explicit Ok(..) sites, tail calls)
    SITES = {"Field": (1, 0), "Identity": (1, 0), "Literal": (1, 0), "Index": (2, 0), "Or": (1, 1), "And": (1, 1), "Not": (1, 0),
             "Condition": (1, 1), "Comparison": (2, 0), "ObjectValues": (2, 0), "Projection": (2, 0), "Flatten": (2, 0),
             "MultiList": (2, 0), "MultiHash": (2, 0), "Expref": (1, 0), "Slice": (2, 0), "Subexpr": (0, 1)}
    # (Comparison: one wrapped site or one per answer of compare(); the mapping row looks at every result term)
    for v, (noks, ntails) in SITES.items():
        arm = ip.arms.get(v)
        if arm is None:
            continue
        rets = early_returns(ip, arm)
        # an upper bound: merging two sites into one (`Ok(match ..)`) is the same function, an additional site is a new way
        # of producing a result that no row describes
        ctx.check(len(arm.oks) <= noks and len(arm.tail) <= ntails and len(arm.oks) + len(arm.tail) >= 1, "result-sites", v,
                  f"{v}: produces its result at no more than {noks} Ok(..) site(s) and {ntails} delegating call(s) (found {len(arm.oks)}, {len(arm.tail)})", ip.b.span)
    # slices and indexes are core forms too: the reference-tree equivalence of the slice routine (shared with C07)
    from .. import slicecheck
    res = slicecheck.verify(lib)
    seen = {}
    for key, ok, text, loc in res.items:
        if key.endswith(("tree-equivalence", "deterministic", "loop-kinds", "empty-array")) or ":loop@" in key:
            k = key + ("#%d" % seen[key] if key in seen else "")
            seen[key] = seen.get(key, 0) + 1
            ctx.check(ok, "slice-routine", k, text, loc)
    ctx.attempt("check_truthy", check_truthy, ctx, lib)
    ctx.attempt("check_get_field", check_get_field, ctx, lib)
    m = check_accessors(ctx, lib, "leaf-table")
    ctx.floor("leaf-table", m, 100, "leaf decision paths walked")
    ctx.attempt("check_key_order", check_key_order, ctx, lib, ip)
    # the comparison operators are core forms: their value table (operator gate, == as type-gated structural
    # equality, numbers by numeric value) is the C10 rule set, evaluated here on the same facts
    from . import c10
    for name in ("check_gate", "check_equality", "check_number_equality"):
        ctx.attempt(name, getattr(c10, name), ctx, lib)
    # the ordering comparators answer with Variable's Ord on two numbers: its case table (shared with C02 / C10)
    from .c02 import check_internal_order
    ctx.attempt("check_internal_order", check_internal_order, ctx, lib)
    # a literal evaluates to the value the JSON parse built for its text: the Deserialize visitor rows (exact integers, arrival
    # order, last duplicate wins; shared with C08)
    from .c08 import check_visitor
    ctx.attempt("check_visitor", check_visitor, ctx, lib)
    # where a projection's right-hand side (and every operand) ends is decided by the parser's binding powers: the
    # operand-power rows of C04 on the same facts
    from ..parsing import lbp_table
    from .c04 import check_operands
    table, why = lbp_table(lib)
    if table is None:
        ctx.missing("operand-power", "Token::lbp", why)
    else:
        ctx.attempt("check_operands", check_operands, ctx, lib, table)


def single_ok(arm):
    return len(arm.oks) == 1 and not arm.tail


def chk(ctx, ip, arm, key, ok, text):
    ctx.check(ok, "arm-skeleton", f"{arm.variant}:{key}", f"{arm.variant}: {text}", ip.b.span)


def early_returns(ip, arm):
    return []


def arm_Subexpr(ctx, ip, arm):
    b = ip.b
    lhs = [(x, d, nd) for x, d, nd, c in arm.recursive if nd == {("field", NODE, "Subexpr.lhs")}]
    rhs = [(x, d, nd) for x, d, nd, c in arm.recursive if nd == {("field", NODE, "Subexpr.rhs")}]
    ok = len(lhs) == 1 and len(rhs) == 1 and not arm.oks and len(arm.tail) == 1 and arm.tail[0][0] == rhs[0][0]
    chk(ctx, ip, arm, "result", ok, "the result is the right-hand side's evaluation (against the left result), whatever the left result is")
    if ok:
        # once the left side succeeded, the right side is always evaluated: no other way to the function's return
        cont = None
        for x, t in arm.calls:
            if t["callee"] == "std::ops::Try::branch" and ip.is_res(ip.o.of_operand(t["args"][0]), "Subexpr.lhs"):
                ve = ip.br.variant_edges(t["t"])
                if ve and "Continue" in ve["edges"]:
                    cont = ve["edges"]["Continue"]
        rets = [x for x in b.reachable() if b.blocks[x]["term"]["k"] == "return"]
        uncond = cont is not None and all(r not in reach_avoiding(b, cont, avoid_blocks=[rhs[0][0]]) for r in rets)
        chk(ctx, ip, arm, "always-evaluates-rhs", uncond, "after the left side succeeded every path evaluates the right side (no shortcut on null or any other left result)")


def arm_Field(ctx, ip, arm):
    ok = single_ok(arm) and arm.oks[0][1] == {("call", "variable::Variable::get_field", (fs({DATA}), fs({("field", NODE, "Field.name")})), arm.oks[0][0])} or \
        (single_ok(arm) and all(t[0] == "call" and t[1] == "variable::Variable::get_field" and t[2] == (fs({DATA}), fs({("field", NODE, "Field.name")})) for t in arm.oks[0][1]))
    chk(ctx, ip, arm, "result", ok and not arm.recursive, "result is data.get_field(node.name), nothing else is evaluated")


def arm_Identity(ctx, ip, arm):
    chk(ctx, ip, arm, "result", single_ok(arm) and arm.oks[0][1] == {DATA} and not arm.recursive, "result is the current node itself")


def arm_Literal(ctx, ip, arm):
    chk(ctx, ip, arm, "result", single_ok(arm) and arm.oks[0][1] == {("field", NODE, "Literal.value")} and not arm.recursive, "result is the literal's value")


def _logic(ctx, ip, arm, name, left_on_truthy):
    lhs = f"{name}.lhs"
    rhs = f"{name}.rhs"
    tests = [t for t in ip.bool_tests(arm, "variable::Variable::is_truthy") if ip.is_res(t[3], lhs)]
    if len(tests) != 1:
        chk(ctx, ip, arm, "truthiness-test", False, f"exactly one truthiness test of the left result (found {len(tests)})")
        return
    blk, tt, ft, _ = tests[0]
    keep_edge = (blk, tt) if left_on_truthy else (blk, ft)
    eval_edge = (blk, ft) if left_on_truthy else (blk, tt)
    # returns left on keep_edge
    ok_left = len(arm.oks) == 1 and ip.is_res(arm.oks[0][1], lhs) and edge_dominates(ip.b, keep_edge, arm.oks[0][0])
    chk(ctx, ip, arm, "returns-left", ok_left, f"returns the left result exactly when it is {'truthy' if left_on_truthy else 'not truthy'}")
    r = [(b_, d, nd) for b_, d, nd, c in arm.recursive if nd == {("field", NODE, rhs)}]
    ok_sc = len(r) == 1 and edge_dominates(ip.b, eval_edge, r[0][0])
    chk(ctx, ip, arm, "short-circuit", ok_sc, "the right operand is evaluated only on the other branch (short-circuit)")
    ok_tail = len(arm.tail) == 1 and arm.tail[0][1]["callee"] == INTERP and r and arm.tail[0][0] == r[0][0]
    chk(ctx, ip, arm, "returns-right", ok_tail, "otherwise the result is the right operand's evaluation, unchanged")


def arm_Or(ctx, ip, arm):
    _logic(ctx, ip, arm, "Or", True)


def arm_And(ctx, ip, arm):
    _logic(ctx, ip, arm, "And", False)


def arm_Not(ctx, ip, arm):
    ok = single_ok(arm)
    if ok:
        for t in arm.oks[0][1]:
            ok = ok and t[0] == "agg" and t[1] == V + "::Bool"
            if ok:
                for p in t[2][0]:
                    ok = ok and p[0] == "un" and p[1] == "Not" and p[2][0] == "call" and p[2][1] == "variable::Variable::is_truthy" and ip.is_res(set(p[2][2][0]), "Not.node")
    chk(ctx, ip, arm, "result", ok, "result is Bool(!truthy(result of the operand))")


def arm_Condition(ctx, ip, arm):
    tests = [t for t in ip.bool_tests(arm, "variable::Variable::is_truthy") if ip.is_res(t[3], "Condition.predicate")]
    if len(tests) != 1:
        chk(ctx, ip, arm, "test", False, "exactly one truthiness test of the predicate result")
        return
    blk, tt, ft, _ = tests[0]
    r = [(b_, d, nd) for b_, d, nd, c in arm.recursive if nd == {("field", NODE, "Condition.then")}]
    ok = len(r) == 1 and edge_dominates(ip.b, (blk, tt), r[0][0]) and len(arm.tail) == 1 and arm.tail[0][0] == r[0][0]
    chk(ctx, ip, arm, "then", ok, "a truthy predicate yields the evaluation of the then-branch")
    ok = len(arm.oks) == 1 and arm.oks[0][1] == {("agg", V + "::Null", (), ())} and edge_dominates(ip.b, (blk, ft), arm.oks[0][0])
    chk(ctx, ip, arm, "else-null", ok, "otherwise the result is null (the projection drops it)")


def arm_Comparison(ctx, ip, arm):
    from ..interp import comparison_mapping_ok
    ok = comparison_mapping_ok(ip, arm)
    chk(ctx, ip, arm, "result", ok, "result is compare(left, comparator, right) mapped None -> null, Some(b) -> Bool(b)")


def arm_ObjectValues(ctx, ip, arm):
    """an object -> the array of its values (in the map's own order); anything else -> null. The kind test may be a match on
    the value or a case analysis on as_object()'s answer."""
    b = ip.b
    sw = None
    for blk in sorted(arm.blocks):
        ve = ip.br.variant_edges(blk)
        if ve and ve["adt"] == V and ip.is_res(ve["scrutinee"], "ObjectValues.node") and set(ve["edges"]) == {"Object"}:
            sw = (blk, ve["edges"]["Object"], ve["otherwise"])
        if ve and ve["adt"] == "std::option::Option" and ve["scrutinee"] and all(
                t[0] == "view" and t[1] == "object" and ip.is_res({t[2]}, "ObjectValues.node") for t in ve["scrutinee"]):
            st, nt = ve["edges"].get("Some", ve["otherwise"]), ve["edges"].get("None", ve["otherwise"])
            if st != nt:
                sw = (blk, st, nt)
    if sw is None:
        chk(ctx, ip, arm, "kind-test", False, "the operand's result is matched on its kind")
        return
    blk, obj_t, other_t = sw

    def is_map(t):
        return (t[0] == "field" and t[2] == "Object.0" and ip.is_res({t[1]}, "ObjectValues.node")) or \
            (t[0] == "view" and t[1] == "object" and ip.is_res({t[2]}, "ObjectValues.node"))

    def is_values_array(t):
        return t[0] == "agg" and t[1] == V + "::Array" and bool(t[2][0]) and all(
            c[0] == "call" and c[1] == "std::iter::Iterator::collect" and bool(c[2][0]) and all(i[0] == "iter" and is_map(i[1]) for i in c[2][0]) for c in t[2][0])

    vals = set()
    for ob, terms in arm.oks:
        vals |= set(terms)
    arrs = {t for t in vals if is_values_array(t)}
    nuls = {t for t in vals if t == ("agg", V + "::Null", (), ())}
    obj_ok = bool(arrs) and len(arrs) + len(nuls) == len(vals)
    # the array is built on the object side only
    from ..parsing import region_aggs
    for bb, i, st in region_aggs(b, arm.blocks, V):
        if st["rv"]["variant"] == "Array" and not edge_dominates(b, (blk, obj_t), bb):
            obj_ok = False
    vcalls = [t for x, t in arm.calls if t["callee"].endswith("BTreeMap::<K, V, A>::values")]
    chk(ctx, ip, arm, "object", obj_ok and len(vcalls) == 1, "an object yields the array of its values (BTreeMap::values, cloned, collected)")
    chk(ctx, ip, arm, "non-object", bool(nuls), "anything else yields null")


def _array_or_null(ctx, ip, arm, field):
    """as_array(res(field)) matched: None -> Ok(Null).  Returns (switch blk, some target) or None."""
    b = ip.b
    for blk in sorted(arm.blocks):
        ve = ip.br.variant_edges(blk)
        if ve and ve["adt"] == "std::option::Option" and all(s[0] == "view" and s[1] == "array" and ip.is_res({s[2]}, field) for s in ve["scrutinee"]):
            none_t = ve["edges"].get("None", ve["otherwise"])
            some_t = ve["edges"].get("Some", ve["otherwise"])
            nul = [(ob, t) for ob, t in arm.oks if edge_dominates(b, (blk, none_t), ob)]
            ok = len(nul) == 1 and nul[0][1] == {("agg", V + "::Null", (), ())}
            chk(ctx, ip, arm, "non-array-null", ok, "a non-array subject yields null")
            return blk, some_t
    chk(ctx, ip, arm, "non-array-null", False, "the subject's result is not matched with as_array()")
    return None


def arm_Projection(ctx, ip, arm):
    b = ip.b
    r = _array_or_null(ctx, ip, arm, "Projection.lhs")
    if r is None:
        return
    blk, some_t = r
    arr = [(ob, t) for ob, t in arm.oks if edge_dominates(b, (blk, some_t), ob)]
    pushes = [(x, t) for x, t in arm.calls if t["callee"].endswith("Vec::<T, A>::push")]
    others = [t["callee"] for x, t in arm.calls if t["callee"].endswith(("::extend", "::insert", "::append", "::retain", "::truncate", "::pop", "::remove", "::sort", "::reverse", "::dedup"))]
    ok = len(arr) == 1 and len(pushes) == 1 and not others
    if ok:
        px, pt = pushes[0]
        dest = ip.o.of_operand(pt["args"][0])
        val = ip.o.of_operand(pt["args"][1])
        each = all(t[0] == "call" and t[1] == INTERP and set(t[2][1]) == {("field", NODE, "Projection.rhs")} and
                   all(d[0] == "elem" and d[1][0] == "view" and d[1][1] == "array" and ip.is_res({d[1][2]}, "Projection.lhs") for d in t[2][0]) for t in val) and bool(val)
        res_ok = all(t[0] == "agg" and t[1] == V + "::Array" and set(t[2][0]) == dest for t in arr[0][1]) and \
            all(d[0] == "call" and d[1] == "std::vec::Vec::<T>::new" for d in dest)
        chk(ctx, ip, arm, "collects-per-element", each and res_ok, "the result is the array of the right-hand side's results, one evaluation per element, in order")
        tests = [t for t in ip.bool_tests(arm, "variable::Variable::is_null") if t[3] == val]
        ok2 = len(tests) == 1 and edge_dominates(b, (tests[0][0], tests[0][2]), px)
        chk(ctx, ip, arm, "drops-nulls", ok2, "an element's result is kept exactly when it is not null (is_null test on that very result)")
        # iterates the whole array in order: the loop's iterator is iter(as_array(res(lhs))) without adapters
        nexts = [t for x, t in arm.calls if t["callee"] == "std::iter::Iterator::next"]
        it_ok = len(nexts) == 1 and all(i[0] == "iter" and i[1][0] == "view" and ip.is_res({i[1][2]}, "Projection.lhs") for i in ip.o.of_operand(nexts[0]["args"][0]))
        chk(ctx, ip, arm, "all-elements-in-order", it_ok, "the loop visits every element of the array in order (plain iterator, no adapter)")
        # ... and evaluates the right-hand side for every one of them: what is dropped is decided by the result, never by the
        # element (a null element may well project to something: `[*].type(@)`)
        if len(nexts) == 1:
            nb = [x for x, t in arm.calls if t is nexts[0]][0]
            evals = {x for x, d, nd, c in arm.recursive if set(nd) == {("field", NODE, "Projection.rhs")}}
            ve = ip.br.variant_edges(b.blocks[nb]["term"]["t"])
            some_t = ve["edges"].get("Some", ve["otherwise"]) if ve else None
            skip = some_t is None or not evals or nb in reach_avoiding(b, some_t, avoid_blocks=evals)
            chk(ctx, ip, arm, "evaluates-every-element", not skip, "from one element to the next the loop always passes the right-hand side's evaluation (no element is skipped before it)")
    elif len(arr) == 1 and not pushes and not others:
        # the same as an iterator chain: left.iter().filter_map(|e| .. interpret(e, rhs, ctx) .. ).collect()
        from ..collected import ELEM, describe_vector
        each = drops = order = True
        for t in arr[0][1]:
            if not (t[0] == "agg" and t[1] == V + "::Array"):
                each = False
                continue
            d = describe_vector(ip.lib, b, ip.o, set(t[2][0]))
            if d is None or len(d) != 1:
                each = False
                continue
            bd = d[0]
            order = order and bool(bd.source) and all(sx[0] == "view" and sx[1] == "array" and ip.is_res({sx[2]}, "Projection.lhs") for sx in bd.source)

            def is_eval(v):
                return v[0] == "call" and v[1] == INTERP and set(v[2][0]) == {ELEM} and set(v[2][1]) == {("field", NODE, "Projection.rhs")}
            each = each and bool(bd.value) and all(is_eval(v) for v in bd.value)
            if bd.every_item:
                drops = False       # nulls would be kept
            else:
                dw = bd.dropped_when
                drops = drops and dw is not None and len(dw) >= 1 and all(c == "variable::Variable::is_null" and len(a) == 1 and a[0] and all(is_eval(v) for v in a[0]) for c, a in dw)
        chk(ctx, ip, arm, "collects-per-element", each, "the result is the array of the right-hand side's results, one evaluation per element, in order")
        chk(ctx, ip, arm, "drops-nulls", each and drops, "an element's result is kept exactly when it is not null (is_null test on that very result)")
        chk(ctx, ip, arm, "all-elements-in-order", order, "every element of the array is visited in order (plain iterator, no reordering adapter)")
    else:
        chk(ctx, ip, arm, "collects-per-element", False, f"one result array, one push site, no other mutation (arrays {len(arr)}, pushes {len(pushes)}, other {others})")


def arm_Flatten(ctx, ip, arm):
    b = ip.b
    r = _array_or_null(ctx, ip, arm, "Flatten.node")
    if r is None:
        return
    blk, some_t = r
    outer = lambda t: t[0] == "elem" and t[1][0] == "view" and t[1][1] == "array" and ip.is_res({t[1][2]}, "Flatten.node")
    pushes = [(x, t) for x, t in arm.calls if t["callee"].endswith("Vec::<T, A>::push")]
    exts = [(x, t) for x, t in arm.calls if t["callee"] == "std::iter::Extend::extend" or t["callee"].endswith("Vec::<T, A>::extend_from_slice")]
    if not pushes and not exts and len(arm.recursive) == 1:
        # the same as an iterator chain: outer.iter().flat_map(|e| match e.as_array() { Some(a) => a.as_slice(),
        # None => slice::from_ref(e) }).cloned().collect() — each element contributes its own elements if it is an array
        # and itself otherwise, in order, one level
        return _flatten_chain(ctx, ip, arm, blk, some_t, outer)
    ok = len(pushes) == 1 and len(exts) == 1 and len(arm.recursive) == 1
    chk(ctx, ip, arm, "one-level", ok, f"exactly one push site, one extend site and no evaluation inside the loop (pushes {len(pushes)}, extends {len(exts)}, evaluations {len(arm.recursive)})")
    if not ok:
        return
    pv = ip.o.of_operand(pushes[0][1]["args"][1])
    ev = ip.o.of_operand(exts[0][1]["args"][1])
    ok_push = all(outer(t) for t in pv) and bool(pv)
    ok_ext = all((i[0] == "iter" and i[1][0] == "view" and i[1][1] == "array" and outer(i[1][2])) or
                 (i[0] == "view" and i[1] == "array" and outer(i[2])) for i in ev) and bool(ev)
    chk(ctx, ip, arm, "non-array-element-kept", ok_push, "a non-array element is pushed as it is")
    chk(ctx, ip, arm, "array-element-spliced", ok_ext, "an array element contributes its own elements (one level, not recursively flattened)")
    # which branch: the inner as_array() match
    inner = None
    for x in sorted(arm.blocks):
        ve = ip.br.variant_edges(x)
        if ve and ve["adt"] == "std::option::Option" and all(s[0] == "view" and s[1] == "array" and outer(s[2]) for s in ve["scrutinee"]):
            inner = (x, ve)
    ok = inner is not None
    if ok:
        x, ve = inner
        some_e = (x, ve["edges"].get("Some", ve["otherwise"]))
        none_e = (x, ve["edges"].get("None", ve["otherwise"]))
        ok = edge_dominates(b, some_e, exts[0][0]) and edge_dominates(b, none_e, pushes[0][0])
    chk(ctx, ip, arm, "branching", ok, "splicing happens exactly for array elements, pushing for all others")
    dests = ip.o.of_operand(pushes[0][1]["args"][0]) | ip.o.of_operand(exts[0][1]["args"][0])
    arr = [(ob, t) for ob, t in arm.oks if edge_dominates(b, (blk, some_t), ob)]
    ok = len(arr) == 1 and len(dests) == 1 and all(t[0] == "agg" and t[1] == V + "::Array" and set(t[2][0]) == dests for t in arr[0][1])
    chk(ctx, ip, arm, "result", ok, "the result is the array collected that way")


def _flatten_chain(ctx, ip, arm, blk, some_t, outer):
    from ..decision import Undecided, Walker
    b = ip.b
    arr = [(ob, t) for ob, t in arm.oks if edge_dominates(b, (blk, some_t), ob)]
    ok = len(arr) == 1
    shape = splice = keep = False
    if ok:
        for t in arr[0][1]:
            if not (t[0] == "agg" and t[1] == V + "::Array" and len(t[2]) == 1):
                continue
            for c in t[2][0]:
                if not (c[0] == "call" and c[1] == "std::iter::Iterator::collect" and len(c[2]) == 1 and len(c[2][0]) == 1):
                    continue
                fm = next(iter(c[2][0]))
                # cloned() keeps the base term: the flat_map call itself, or iter(flat_map)
                if fm[0] == "iter":
                    fm = fm[1]
                if not (fm[0] == "call" and fm[1] == "std::iter::Iterator::flat_map" and len(fm[2]) == 2):
                    continue
                srcs, fs_ = fm[2]
                if not (srcs and all(x[0] == "iter" and x[1][0] == "view" and x[1][1] == "array" and ip.is_res({x[1][2]}, "Flatten.node") for x in srcs)):
                    continue
                clo = [x for x in fs_ if x[0] == "closure"]
                if len(clo) != 1 or len(fs_) != 1:
                    continue
                cb = ip.lib.fn(clo[0][1])
                if cb is None:
                    continue
                shape = True
                co = Origins(cb, ip.lib)
                ELEMP = ("param", 2)
                res = {}
                for case in ("Some", "None"):
                    def atom(tt, case=case):
                        if tt[0] == "discr" and tt[1][0] == "view" and tt[1][1] == "array" and tt[1][2] == ELEMP:
                            return case
                        return None
                    w = Walker(cb, co, atom=atom)
                    try:
                        out = set()
                        for path, leaf in w.walk():
                            out |= set(w.result_on_path(path))
                        res[case] = out
                    except Undecided:
                        res[case] = None
                from ..analysis import strip_through
                splice = res.get("Some") is not None and bool(res["Some"]) and all(strip_through(x) == ("view", "array", ELEMP) for x in res["Some"])
                keep = res.get("None") is not None and bool(res["None"]) and all(
                    x[0] == "call" and x[1].endswith("slice::from_ref") and set(x[2][0]) == {ELEMP} for x in res["None"])
    chk(ctx, ip, arm, "one-level", ok and shape, "the result is collect(cloned(flat_map(elements of the evaluated node, f))) — one level, no evaluation per element")
    chk(ctx, ip, arm, "non-array-element-kept", keep, "a non-array element is pushed as it is")
    chk(ctx, ip, arm, "array-element-spliced", splice, "an array element contributes its own elements (one level, not recursively flattened)")
    chk(ctx, ip, arm, "branching", splice and keep, "splicing happens exactly for array elements, pushing for all others")
    chk(ctx, ip, arm, "result", ok and shape, "the result is the array collected that way")


def _multi(ctx, ip, arm, elems_field, value_suffix, container, adder, new_fn):
    b = ip.b
    tests = [t for t in ip.bool_tests(arm, "variable::Variable::is_null") if t[3] == {DATA}]
    if len(tests) != 1:
        chk(ctx, ip, arm, "null-test", False, "the current node is tested for null exactly once")
        return
    blk, tt, ft, _ = tests[0]
    nul = [(ob, t) for ob, t in arm.oks if edge_dominates(b, (blk, tt), ob)]
    chk(ctx, ip, arm, "null-in-null-out", len(nul) == 1 and nul[0][1] == {("agg", V + "::Null", (), ())}, "a null current node yields null")
    adds = [(x, t) for x, t in arm.calls if t["callee"].endswith(adder)]
    ok = len(adds) == 1 and len(arm.recursive) == 1
    if not ok:
        chk(ctx, ip, arm, "collects-all", False, f"one member evaluation and one insertion site (found {len(arm.recursive)}, {len(adds)})")
        return
    ax, at = adds[0]
    rx = arm.recursive[0][0]
    val = ip.o.of_operand(at["args"][-1])
    member = all(t[0] == "call" and t[1] == INTERP and set(t[2][0]) == {DATA} for t in val) and bool(val)
    # unconditional: every path from the evaluation's success to the loop head passes the insertion
    cont = None
    for x, t in arm.calls:
        if t["callee"] == "std::ops::Try::branch" and ip.o.of_operand(t["args"][0]) == val:
            ve = ip.br.variant_edges(t["t"])
            if ve and "Continue" in ve["edges"]:
                cont = ve["edges"]["Continue"]
    nexts = [x for x, t in arm.calls if t["callee"] == "std::iter::Iterator::next"]
    uncond = cont is not None and len(nexts) == 1 and nexts[0] not in reach_avoiding(b, cont, avoid_blocks=[ax])
    it_ok = len(nexts) == 1 and all(i[0] == "iter" and i[1] == ("field", NODE, elems_field) for i in ip.o.of_operand(b.blocks[nexts[0]]["term"]["args"][0]))
    chk(ctx, ip, arm, "collects-all", member and uncond and it_ok, "every member is evaluated against the current node and its result is collected unconditionally, in source order")
    dest = ip.o.of_operand(at["args"][0])
    # an accumulator handed round a loop (`acc = step(acc, item)?`): what it is, apart from itself
    dest = {y for x in dest for y in ([z for z in ip.o.of_local(x[1]) if z[0] != "cycle"] if x[0] == "cycle" else [x])}
    arr = [(ob, t) for ob, t in arm.oks if edge_dominates(b, (blk, ft), ob)]
    ok = len(arr) == 1 and all(t[0] == "agg" and t[1] == f"{V}::{container}" and set(t[2][0]) == dest for t in arr[0][1]) and \
        all(d[0] == "call" and d[1] == new_fn for d in dest)
    chk(ctx, ip, arm, "result", ok, f"the result is the {container.lower()} collected that way")
    if container == "Object":
        key = ip.o.of_operand(at["args"][1])
        ok = all(k == ("field", ("elem", ("field", NODE, elems_field)), "key") for k in key) and bool(key)
        chk(ctx, ip, arm, "keys", ok, "each result is stored under its member's own key")


def arm_MultiList(ctx, ip, arm):
    """null -> null; otherwise the array of every member's evaluation against the current node, in source order —
    collected by a loop with push or by an iterator chain (collected.describe_vector)."""
    from ..collected import ELEM, describe_vector
    b = ip.b
    tests = [t for t in ip.bool_tests(arm, "variable::Variable::is_null") if t[3] == {DATA}]
    if len(tests) != 1:
        chk(ctx, ip, arm, "null-test", False, "the current node is tested for null exactly once")
        return
    blk, tt, ft, _ = tests[0]
    nul = [(ob, t) for ob, t in arm.oks if edge_dominates(b, (blk, tt), ob)]
    chk(ctx, ip, arm, "null-in-null-out", len(nul) == 1 and nul[0][1] == {("agg", V + "::Null", (), ())}, "a null current node yields null")
    arr = [(ob, t) for ob, t in arm.oks if edge_dominates(b, (blk, ft), ob)]
    ok = len(arr) == 1 and bool(arr[0][1]) and all(t[0] == "agg" and t[1] == V + "::Array" for t in arr[0][1])
    coll = False
    if ok:
        coll = True
        for t in arr[0][1]:
            d = describe_vector(ip.lib, b, ip.o, set(t[2][0]))
            coll = coll and d is not None and len(d) == 1 and d[0].source == {("field", NODE, "MultiList.elements")} and d[0].every_item and \
                bool(d[0].value) and all(v[0] == "call" and v[1] == INTERP and set(v[2][0]) == {DATA} and set(v[2][1]) == {ELEM} for v in d[0].value)
    chk(ctx, ip, arm, "collects-all", coll and len(arm.recursive) == 1, "every member is evaluated against the current node and its result is collected unconditionally, in source order")
    chk(ctx, ip, arm, "result", ok, "the result is the array collected that way")


def arm_MultiHash(ctx, ip, arm):
    _multi(ctx, ip, arm, "MultiHash.elements", "value", "Object", "BTreeMap::<K, V, A>::insert", "std::collections::BTreeMap::<K, V>::new")


def arm_Expref(ctx, ip, arm):
    ok = single_ok(arm) and not arm.recursive
    if ok:
        ok = all(t[0] == "agg" and t[1] == V + "::Expref" and set(t[2][0]) == {("field", NODE, "Expref.ast")} for t in arm.oks[0][1])
    chk(ctx, ip, arm, "result", ok, "an expression reference is passed on unevaluated (Expref(copy of the inner node))")


# ---------------------------------------------------------------------------------------------
def check_truthy(ctx, lib):
    rule = "truthiness"
    b = ctx.fn("variable::Variable::is_truthy", rule=rule)
    if b is None:
        return
    want = {
        "Bool": lambda r: r == {("field", ("param", 1), "Bool.0")},
        "Number": lambda r: r == {("const", 1)},
        "Null": lambda r: r == {("const", 0)},
        "Expref": lambda r: r == {("const", 0)},
    }
    for k in ("String", "Array", "Object"):
        want[k] = (lambda k: lambda r: bool(r) and all(
            t[0] == "un" and t[1] == "Not" and t[2][0] == "call" and t[2][1].endswith("::is_empty") and set(t[2][2][0]) == {("field", ("param", 1), f"{k}.0")} for t in r))(k)
    for k in KINDS:
        try:
            w = kind_walker(b, lib, k)
            paths = w.walk()
        except Undecided as e:
            ctx.bad(rule, k, f"is_truthy undecidable for {k}: {e}", b.span)
            continue
        ok = len(paths) >= 1
        got = []
        for path, leaf in paths:
            r = w.result_on_path(path)
            got.append(fmt_terms(r))
            ok = ok and want[k](r)
        text = {"Bool": "its own value", "Number": "true (0 is truthy)", "Null": "false", "Expref": "false"}.get(k, "non-empty")
        ctx.check(ok, rule, k, f"is_truthy({k}) = {text} (found {got})", b.span)


def check_get_field(ctx, lib):
    rule = "field-lookup"
    b = ctx.fn("variable::Variable::get_field", rule=rule)
    if b is None:
        return
    o = Origins(b, lib)
    for k in KINDS:
        try:
            w = kind_walker(b, lib, k)
            paths = w.walk()
        except Undecided as e:
            ctx.bad(rule, k, f"get_field undecidable for {k}: {e}", b.span)
            continue
        outs = set()
        for path, leaf in paths:
            for t in w.result_on_path(path):
                if t == ("agg", V + "::Null", (), ()):
                    outs.add("null")
                elif t[0] == "call" and t[1].endswith("BTreeMap::<K, V, A>::get") and set(t[2][0]) in ({("field", ("param", 1), "Object.0")}, {("view", "object", ("param", 1))}) and set(t[2][1]) == {("param", 2)}:
                    outs.add("map.get(key)")
                else:
                    outs.add("?" + fmt_terms([t]))
        want = {"null", "map.get(key)"} if k == "Object" else {"null"}
        ctx.check(outs == want, rule, k, f"get_field on {k}: {sorted(outs)} (specified: {'the member or null' if k == 'Object' else 'null'})", b.span)


def check_key_order(ctx, lib, ip):
    rule = "key-order"
    adt = lib.adts.get(V)
    ok = False
    if adt:
        for v in adt["variants"]:
            if v["name"] == "Object":
                ok = len(v["fields"]) == 1 and v["fields"][0]["ty"].replace("std::sync::Arc", "std::rc::Rc") == "std::collections::BTreeMap<std::string::String, std::rc::Rc<variable::Variable>>"
    ctx.check(ok, rule, "object-representation", "Variable::Object holds a BTreeMap<String, Rcvar> (ascending key iteration)")
    arm = ip.arms.get("ObjectValues")
    if arm:
        bad = [t["callee"] for x, t in arm.calls if t["callee"].endswith(("::rev", "::sort", "::sort_by", "::reverse", "::sort_unstable"))]
        ctx.check(not bad, rule, "values-not-reordered", f"ObjectValues does not reorder the map's values (found {bad})", ip.b.span)
    arm = ip.arms.get("MultiHash")
    if arm:
        news = [t["callee"] for x, t in arm.calls if "::new" in t["callee"] and "Map" in t["callee"]]
        ctx.check(news == ["std::collections::BTreeMap::<K, V>::new"], rule, "multi-hash-accumulator", f"a multi-select hash is collected in a BTreeMap (found {news})", ip.b.span)
