"""C18 — the jp command-line tool reports exactly what the library computes (structural clauses)."""
import re

from ..analysis import Branches, Origins, blocks_separate, edge_dominates, fmt_terms, reach_avoiding, strip_through, term_mentions
from ..tmatch import ANY, Agg, Call, Each, Or_, m, ms

fs = frozenset
EXIT = "std::process::exit"
STDOUT_WRITES = re.compile(r"^(std::io::_print$|std::io::Write::(write|write_all|write_fmt)$|serde_json::to_writer(_pretty)?$|std::io::_eprint$)")

PER_CONFIG = False

EXPLANATION = (
    "Decided from the CLI's MIR (analysed with the same driver against the library's default configuration): (1) delegation "
    "without transformation — the expression text (positional argument, or the contents of the --expr-file) reaches "
    "jmespath::compile unchanged, the input text (file or stdin) reaches Variable::from_json unchanged, that value reaches "
    "Expression::search, and the result reaches show_result together with the --unquoted flag; show_result prints the string "
    "payload with `{}` + newline exactly under (unquoted and is_string) and otherwise serde_json's pretty writer on stdout "
    "followed by a newline; (2) --ast: the branch on is_present(\"ast\") prints the tree and exits 0, and every call that reads "
    "JSON input lies on the other branch; (3) failure discipline — every process::exit with a non-zero constant is preceded "
    "(dominated) by a write to stderr in the same body, no stdout write can reach such an exit, each such body is either "
    "entered only on an Err edge or is a closure handed to map_err, exit(0) occurs only in the --ast branch and normal "
    "completion returns from main; (4) no panic — unwrap/expect/panic sites in the CLI are inventoried: unwraps after a "
    "diverging map_err closure, the guarded as_string().unwrap(), and value_of(\"expression\").unwrap() under clap's "
    "required + mutual conflicts_with rows are discharged; the remaining panics need a failing stdout/stderr; (5) the library "
    "code jp runs cannot panic either: the C05 panic-site inventory and proof rules are evaluated over everything reachable from "
    "compile / search / from_json plus the rendering code the CLI reaches through formatting (Display of JmespathError and of its "
    "parts, Debug of the tree for --ast, Serialize of the result), incl. loop progress of the rendering code; Variable::from_json "
    "is serde_json's complete-text parse (nothing may follow the JSON value)."
)
ASSUMPTIONS = [
    "clap 2: an argument declared required(true) and conflicts_with(other) is present whenever `other` is absent, or clap exits itself",
    "std's Result::map_err / Option::map call their closure only on Err / Some",
    "writes to stdout/stderr do not fail (closed or full stdout/stderr is an environment fault outside the quantifier); println!'s own panic on such a fault is excluded",
    "the exact bytes printed (pretty-printer layout, non-ASCII encoding) are serde_json's",
]


def run(ctx):
    jp = ctx.jp()
    ctx.attempt("check_delegation", check_delegation, ctx, jp)
    ctx.attempt("check_show_result", check_show_result, ctx, jp)
    ctx.attempt("check_ast", check_ast, ctx, jp)
    ctx.attempt("check_failure", check_failure, ctx, jp)
    ctx.attempt("check_panics", check_panics, ctx, jp)
    ctx.attempt("check_library_panics", check_library_panics, ctx, jp)


def value_of(name):
    return Call("clap::ArgMatches::<'a>::value_of", ANY, Each(lambda t: t[0] == "const" and t[1] == f'"{name}"'))


def is_present(name):
    return Call("clap::ArgMatches::<'a>::is_present", ANY, Each(lambda t: t[0] == "const" and t[1] == f'"{name}"'))


def check_delegation(ctx, jp):
    rule = "delegation"
    b = ctx.fn("main", crate="jp", rule=rule)
    if b is None:
        return
    o = Origins(b, jp)
    # spelling-independent: whatever reaches jmespath::compile is the `expression` argument itself or what
    # read_file("expression", <--expr-file>) returned; both sources occur
    comp = [(bb, t) for bb, t in b.calls() if t["callee"] == "jmespath::compile"]
    ctx.check(1 <= len(comp) <= 2, rule, "compile-sites", f"main compiles the expression text (argument / expression file) (found {len(comp)} compile site(s))", b.span)
    srcs = set()
    file_src = Call("read_file", Each(lambda x: x[0] == "const" and x[1] == '"expression"'), Each(value_of("expr-file")))
    for bb, t in comp:
        for x in o.of_operand(t["args"][0]):
            x = strip_through(x)
            while x[0] == "call" and x[1] in ("std::ops::Deref::deref", "std::string::String::as_str", "std::convert::AsRef::as_ref", "std::borrow::Borrow::borrow") and len(x[2]) == 1 and len(x[2][0]) == 1:
                x = strip_through(next(iter(x[2][0])))
            if m(x, value_of("expression")):
                srcs.add("argument")
            elif m(x, file_src):
                srcs.add("file")
            else:
                srcs.add("?" + fmt_terms([x])[:60])
    ctx.check(srcs == {"argument", "file"}, rule, "expression-text", f"compile receives the expression argument resp. the expression file's contents, unchanged (found {sorted(srcs)})", b.span)
    rf = [t for _, t in b.calls() if t["callee"] == "read_file"]
    ok = len(rf) == 1 and ms(o.of_operand(rf[0]["args"][0]), lambda x: x[0] == "const" and x[1] == '"expression"') and ms(o.of_operand(rf[0]["args"][1]), value_of("expr-file"))
    ctx.check(ok, rule, "expression-file", "the expression file's contents are read_file(\"expression\", path), used unchanged", b.span)
    # search
    se = [(bb, t) for bb, t in b.calls() if t["callee"] == "jmespath::Expression::<'a>::search"]
    ok = len(se) == 1
    if ok:
        a = [o.of_operand(x) for x in se[0][1]["args"]]
        ok = ms(a[0], Call("jmespath::compile", ANY)) and ms(a[1], Call("get_json", Each(value_of("filename"))))
    ctx.check(ok, rule, "search", "the compiled expression searches get_json(--filename) (wrapped in Rc, passed by reference)", b.span)
    sr = [(bb, t) for bb, t in b.calls() if t["callee"] == "show_result"]
    ok = len(sr) == 1
    if ok:
        a = [o.of_operand(x) for x in sr[0][1]["args"]]
        ok = ms(a[0], Call("jmespath::Expression::<'a>::search", ANY, ANY)) and ms(a[1], is_present("unquoted"))
        # only on the Ok edge of search's result
        br = Branches(b, o)
        sb, ve = br.first_variant_switch("std::result::Result", lambda s: ms(s, Call("jmespath::Expression::<'a>::search", ANY, ANY)))
        ok = ok and ve is not None and edge_dominates(b, (sb, ve["edges"].get("Ok", ve["otherwise"])), sr[0][0])
    ctx.check(ok, rule, "result-to-show_result", "the search result (Ok) goes to show_result together with the --unquoted flag", b.span)
    # get_json
    g = ctx.fn("get_json", crate="jp", rule=rule)
    if g is not None:
        go = Origins(g, jp)
        fj = [(bb, t) for bb, t in g.calls() if t["callee"] == "jmespath::Variable::from_json"]
        ok = len(fj) == 1
        if ok:
            a = go.of_operand(fj[0][1]["args"][0])
            file_src = any(m(x, Call("read_file", ANY, Each(("param", 1)))) for x in a)
            stdin_src = any(m(x, Call("std::string::String::new")) for x in a)
            ok = file_src and stdin_src and len(a) == 2
            rs = [t for _, t in g.calls() if t["callee"] == "std::io::Read::read_to_string"]
            ok = ok and len(rs) == 1 and rs[0]["callee_args"][0] == "std::io::Stdin" and ms(go.of_operand(rs[0]["args"][1]), Call("std::string::String::new"))
            ret = go.of_local(0)
            ok = ok and all(x[0] == "call" and x[1] == "jmespath::Variable::from_json" for x in ret if x[0] == "call" and x[1].startswith("jmespath::"))
        ctx.check(ok, rule, "get_json", "the JSON text is the named file's contents or all of stdin, handed unchanged to Variable::from_json, whose value is returned", g.span)
        # the whole input text must be one JSON value (otherwise jp would answer for a prefix of its input): library side, shared with C08
        from .c08 import check_from_json
        check_from_json(ctx, ctx.lib("default"), rule)
        br = Branches(g, go)
        sb, ve = br.first_variant_switch("std::option::Option", lambda s: s == {("param", 1)})
        ok = ve is not None
        if ok:
            some_t = ve["edges"].get("Some", ve["otherwise"])
            none_t = ve["edges"].get("None", ve["otherwise"])
            rfc = [bb for bb, t in g.calls() if t["callee"] == "read_file"]
            stc = [bb for bb, t in g.calls() if t["callee"] == "std::io::stdin"]
            ok = len(rfc) == 1 and len(stc) == 1 and edge_dominates(g, (sb, some_t), rfc[0]) and edge_dominates(g, (sb, none_t), stc[0])
        ctx.check(ok, rule, "input-source", "a file name selects the file, its absence selects stdin", g.span)
    r = ctx.fn("read_file", crate="jp", rule=rule)
    if r is not None:
        ro = Origins(r, jp)
        op = [t for _, t in r.calls() if t["callee"] == "std::fs::File::open"]
        rs = [t for _, t in r.calls() if t["callee"] == "std::io::Read::read_to_string"]
        ok = len(op) == 1 and len(rs) == 1 and ro.of_operand(op[0]["args"][0]) == {("param", 2)} and \
            ms(ro.of_operand(rs[0]["args"][1]), Call("std::string::String::new"))
        # what it returns is the buffer read_to_string filled (and nothing else)
        ret = {strip_through(x) for x in ro.of_local(0)}
        ret_ok = bool(ret) and all(m(x, Call("std::string::String::new")) for x in ret)
        ctx.check(ok and ret_ok, rule, "read_file", "read_file opens the given path and returns everything read_to_string produced", r.span)


def check_show_result(ctx, jp):
    rule = "output"
    b = ctx.fn("show_result", crate="jp", rule=rule)
    if b is None:
        return
    o = Origins(b, jp)
    br = Branches(b, o)
    pr = [(bb, t) for bb, t in b.calls() if t["callee"] == "std::io::_print"]
    tw = [(bb, t) for bb, t in b.calls() if t["callee"] == "serde_json::to_writer_pretty"]
    ok = len(pr) == 1 and len(tw) == 1
    ctx.check(ok, rule, "two-ways", f"show_result has exactly two ways of printing: raw string and pretty JSON (print sites {len(pr)}, writer sites {len(tw)})", b.span)
    if not ok:
        return
    # raw branch: unquoted && is_string
    flag = None
    isstr = None
    for sb, sw in br.switches():
        be = br.bool_edges(sb)
        if not be:
            continue
        for c in br.cond(sb):
            if c == ("param", 2):
                flag = (sb, be[0], be[1])
            if m(c, Call("jmespath::Variable::is_string", Each(("param", 1)))):
                isstr = (sb, be[0], be[1])
    if isstr is None:
        # `match result.as_string() { Some(s) .. }`: the same test through the accessor
        for sb, sw in br.switches():
            ve = br.variant_edges(sb)
            if ve and ve["adt"] == "std::option::Option" and ve["scrutinee"] and all(
                    m(strip_through(y), ("view", "string", ("param", 1))) or m(strip_through(y), Call("jmespath::Variable::as_string", Each(("param", 1)))) for y in ve["scrutinee"]):
                some_t, none_t = ve["edges"].get("Some", ve["otherwise"]), ve["edges"].get("None", ve["otherwise"])
                if some_t != none_t:
                    isstr = (sb, some_t, none_t)
    ok = flag is not None and isstr is not None and edge_dominates(b, (flag[0], flag[1]), pr[0][0]) and edge_dominates(b, (isstr[0], isstr[1]), pr[0][0])
    # pretty branch reachable exactly from the two false edges
    if ok:
        # the two tests may come in either order (`unquoted && is_string()`, `Some(s) if unquoted`): the inner one is the one tested second
        inner = isstr if b.dominates(flag[0], isstr[0]) else flag
        ok = pr[0][0] not in reach_avoiding(b, flag[2]) and pr[0][0] not in reach_avoiding(b, isstr[2]) and \
            tw[0][0] in reach_avoiding(b, flag[2]) and tw[0][0] in reach_avoiding(b, isstr[2]) and tw[0][0] not in reach_avoiding(b, inner[1])
    ctx.check(ok, rule, "unquoted-only-for-strings", "the raw form is used exactly when --unquoted is set and the result is a string; every other case is pretty JSON", b.span)
    # what is printed raw: as_string(result) payload with "{}\n"
    a = o.of_operand(pr[0][1]["args"][0])
    ok = ms(a, lambda t: term_mentions(t, lambda y: y == ("view", "string", ("param", 1)) or (y[0] == "call" and y[1] == "jmespath::Variable::as_string")))
    ctx.check(ok, rule, "raw-payload", "the raw form prints the string's own payload (as_string) followed by a newline (println!)", b.span)
    wa = [o.of_operand(x) for x in tw[0][1]["args"]]
    ok = ms(wa[0], Call("std::io::stdout")) and wa[1] == {("param", 1)} and tw[0][1]["callee_args"][0] == "&mut std::io::Stdout"
    ctx.check(ok, rule, "pretty-on-stdout", "the JSON form is serde_json::to_writer_pretty(stdout, result)", b.span)
    # after the JSON text exactly "\n" is written to stdout (a literal, a promoted array or a named constant)
    def is_newline_bytes(body, terms, depth=0):
        for x in terms:
            if x[0] == "promoted":
                pb = jp.promoted(body.deff, x[1])
                if pb is None:
                    # promoted of a closure / helper spliced into this body: look it up by scanning
                    cands = [q for q in jp.bodies if q.promoted == x[1] and q.deff in ([body.deff] + list(body.j.get("inlined", [])) + list(body.j.get("inlined_closures", [])))]
                    pb = cands[0] if cands else None
                if pb is None:
                    return False
                okp = False
                for _, _, st in pb.stmts(reachable_only=False):
                    if st["k"] == "assign" and st["rv"]["k"] == "agg" and st["rv"]["ak"] == "array" and [op.get("int") for op in st["rv"]["ops"]] == [10]:
                        okp = True
                    if st["k"] == "assign" and st["rv"]["k"] == "use" and st["rv"]["op"].get("k") == "const" and st["rv"]["op"].get("val") in ('b"\\n"', "b\"\\n\""):
                        okp = True
                if not okp:
                    return False
            elif x[0] == "const" and isinstance(x[1], str) and x[1] in ('b"\\n"',):
                continue
            elif x[0] == "const" and isinstance(x[1], str) and depth < 2:
                cb = [q for q in jp.bodies if q.kind == "const" and q.promoted is None and q.deff == x[1]]
                if len(cb) != 1:
                    return False
                vals = [st["rv"]["op"].get("val") for _, _, st in cb[0].stmts(reachable_only=False)
                        if st["k"] == "assign" and st["rv"]["k"] == "use" and st["rv"]["op"].get("k") == "const"]
                if not any(v in ('b"\\n"',) for v in vals):
                    return False
            else:
                return False
        return bool(terms)

    nl = False
    for c in [b] + jp.closures_of("show_result"):
        co = Origins(c, jp)
        for bb, t in c.calls():
            if t["callee"] == "std::io::Write::write" and t["callee_args"][0] == "std::io::Stdout":
                if is_newline_bytes(c, co.of_operand(t["args"][1])):
                    nl = True
    ctx.check(nl, rule, "trailing-newline", "after the JSON text a single newline byte is written to stdout", b.span)


def check_ast(ctx, jp):
    rule = "ast-flag"
    b = ctx.fn("main", crate="jp", rule=rule)
    if b is None:
        return
    o = Origins(b, jp)
    br = Branches(b, o)
    sw = None
    for sb, s in br.switches():
        be = br.bool_edges(sb)
        if be and ms(br.cond(sb), is_present("ast")):
            sw = (sb, be[0], be[1])
    if sw is None:
        ctx.missing(rule, "switch", "main does not branch on is_present(\"ast\")")
        return
    sb, tt, ft = sw
    treg = {x for x in reach_avoiding(b, tt) if edge_dominates(b, (sb, tt), x)}
    pr = [x for x in treg if b.blocks[x]["term"]["k"] == "call" and b.blocks[x]["term"]["callee"] == "std::io::_print"]
    ex = [x for x in treg if b.blocks[x]["term"]["k"] == "call" and b.blocks[x]["term"]["callee"] == EXIT]
    aa = [x for x in treg if b.blocks[x]["term"]["k"] == "call" and b.blocks[x]["term"]["callee"] == "jmespath::Expression::<'a>::as_ast"]
    ok = len(pr) == 1 and len(ex) == 1 and len(aa) == 1 and b.blocks[ex[0]]["term"]["args"][0].get("int") == 0 and b.dominates(pr[0], ex[0])
    # the branch never falls through to input reading
    ok = ok and not any(b.blocks[x]["term"]["k"] == "return" for x in reach_avoiding(b, tt))
    ctx.check(ok, rule, "prints-and-exits-0", "--ast prints the tree (as_ast, {:#?}) and exits with status 0", b.span)
    readers = [bb for bb, t in b.calls() if t["callee"] in ("get_json", "jmespath::Expression::<'a>::search", "show_result")]
    ok = bool(readers) and all(edge_dominates(b, (sb, ft), x) for x in readers)
    ctx.check(ok, rule, "no-input-read", "every call that reads JSON input, searches or prints a result lies on the non---ast branch", b.span)


def exit_sites(jp):
    out = []
    for b in jp.fn_bodies():
        for bb, t in b.calls():
            if t["callee"] == EXIT:
                out.append((b, bb, t))
    return out


STDOUT_WRITERS = ("std::io::_print", "show_result")


def is_stdout_writer(c):
    if c["callee"] in STDOUT_WRITERS:
        return True
    if c["callee"].startswith("std::io::Write::write") and c.get("callee_args", [""])[0] == "std::io::Stdout":
        return True
    if c["callee"].startswith("serde_json::to_writer") and "Stdout" in c.get("callee_args", [""])[0]:
        return True
    return False


def failure_edge_over(b, br, bb):
    """Discriminant switches whose failing edge (Err / None) dominates block bb: [(switch block, adt, scrutinee terms)]."""
    out = []
    for sb, sw in br.switches():
        ve = br.variant_edges(sb)
        if not ve:
            continue
        for bad in ("Err", "None"):
            if bad in ve["edges"] and edge_dominates(b, (sb, ve["edges"][bad]), bb):
                out.append((sb, ve["adt"], ve["scrutinee"]))
    return out


def routed_to_exit(b, o, br, scrutinee_ok):
    """The failing edge of the case analysis on a matching Result leads to a non-zero exit and never to a normal return."""
    sb, ve = br.first_variant_switch("std::result::Result", scrutinee_ok)
    if ve is None:
        return False
    err_t = ve["edges"].get("Err", ve["otherwise"])
    if err_t == ve["edges"].get("Ok"):
        return False
    reach = reach_avoiding(b, err_t)
    reg = {x for x in reach if edge_dominates(b, (sb, err_t), x)}
    exits = [x for x in reg if b.blocks[x]["term"]["k"] == "call" and b.blocks[x]["term"]["callee"] == EXIT and b.blocks[x]["term"]["args"][0].get("int") not in (None, 0)]
    rets = [x for x in reach if b.blocks[x]["term"]["k"] == "return"]
    return bool(exits) and not rets


def check_failure(ctx, jp):
    rule = "failure-discipline"
    sites = exit_sites(jp)
    ctx.floor(rule, len(sites), 5, "process::exit sites")
    zero = []
    n = 0
    for b, bb, t in sites:
        code = t["args"][0].get("int")
        key = f"{b.deff}@exit#{sum(1 for b2, bb2, _ in sites if b2 is b and bb2 < bb) + 1}"
        if code is None:
            ctx.bad(rule, key + ":code", f"{b.deff}: exit status is not a constant", t["span"]["s"])
            continue
        if code == 0:
            zero.append(b.deff)
            continue
        n += 1
        o = Origins(b, jp)
        br = Branches(b, o)
        # (a) dominated by a write to stderr in the same body
        errw = [x for x, c in b.calls() if c["callee"].startswith("std::io::Write::write") and c.get("callee_args", [""])[0] == "std::io::Stderr"]
        dom = any(b.dominates(x, bb) for x in errw)
        # (c) reached only on a failure: under the Err / None edge of a case analysis (or the body is a diagnostic closure handed to map_err)
        fails = failure_edge_over(b, br, bb)
        entered_on_err = bool(fails)
        if not entered_on_err and b.kind == "closure":
            parent = jp.fn(b.j.get("closure_parent", ""))
            if parent is not None:
                po = Origins(parent, jp)
                for pb, pt in parent.calls():
                    if pt["callee"] == "std::result::Result::<T, E>::map_err" and any(x[0] == "closure" and x[1] == b.deff for x in po.of_operand(pt["args"][1])):
                        entered_on_err = True
        # (b) nothing was written to stdout before: no stdout writer can reach the exit — except the writer whose own failure is being reported
        leak = []
        for x, c in b.calls():
            if not is_stdout_writer(c) or bb not in reach_avoiding(b, x):
                continue
            own = False
            for sb, adt, scr in fails:
                # the terms that can take the failing edge at all (an Ok(..) built on the spot / passed through as Ok cannot)
                can_fail = [y for y in scr if not (y[0] == "agg" and y[1].endswith(("::Ok", "::Some"))) and not (y[0] == "through" and y[1] in ("Ok", "Some"))]
                if adt == "std::result::Result" and can_fail and all(strip_through(y)[0] == "call" and strip_through(y)[1] == c["callee"] for y in can_fail):
                    own = True
            if not own:
                leak.append(x)
        ctx.check(dom and not leak and entered_on_err, rule, key,
                  f"{b.deff}: exit({code}) follows a diagnostic on stderr ({dom}), no result was written to stdout before it ({not leak}), and it is reached only on a failure ({entered_on_err})", t["span"]["s"])
    ctx.check(zero == ["main"], rule, "exit-0-only-for-ast", f"exit(0) occurs only in main's --ast branch (found in {zero})")
    # each fallible step is routed to such a site (spelling-independent: map_err(die).unwrap(), match, if let)
    steps = [
        ("main", "compile-error-routed", "a compile error", Call("jmespath::compile", ANY)),
        ("main", "search-error-routed", "a search error", Call("jmespath::Expression::<'a>::search", ANY, ANY)),
        ("get_json", "json-error-routed", "invalid JSON", Call("jmespath::Variable::from_json", ANY)),
        ("get_json", "stdin-error-routed", "a failure to read stdin", Call("std::io::Read::read_to_string", ANY, ANY)),
        ("read_file", "open-error-routed", "a file that cannot be opened", Call("std::fs::File::open", ANY)),
        ("read_file", "read-error-routed", "a file that cannot be read", Call("std::io::Read::read_to_string", ANY, ANY)),
    ]
    for fn, key, what, pat in steps:
        fb = jp.fn(fn)
        if fb is None:
            ctx.missing(rule, key, fn)
            continue
        fo = Origins(fb, jp)
        fbr = Branches(fb, fo)
        ok = routed_to_exit(fb, fo, fbr, lambda sc, pat=pat: bool(sc) and all(m(strip_through(x), pat) for x in sc))
        ctx.check(ok, rule, key, f"{what} ends in the stderr diagnostic and a non-zero exit, never in a normal return", fb.span)
    # diagnostic closures that still stand on their own never return
    for b in jp.fn_bodies():
        if b.kind == "closure" and any(t["callee"] == EXIT for _, t in b.calls()):
            rets = [x for x in b.reachable() if b.blocks[x]["term"]["k"] == "return"]
            ctx.check(not rets, rule, f"{b.deff}:diverges", f"{b.deff} never returns (it exits or panics)", b.span)


def check_panics(ctx, jp):
    rule = "no-panic"
    n = 0
    for b in jp.fn_bodies():
        o = Origins(b, jp)
        br = Branches(b, o)
        k = 0
        for bb, t in b.calls():
            c = t["callee"]
            is_unwrap = re.search(r"(Option::<T>|Result::<T, E>)::(unwrap|expect)$", c)
            is_panic = c.startswith("std::rt::panic") or c.startswith("core::panicking") or c.startswith("std::rt::begin_panic")
            if not (is_unwrap or is_panic):
                continue
            n += 1
            k += 1
            key = f"{b.deff}:{c.split('::')[-1]}#{k}"
            if is_panic and t.get("synthetic_unwrap"):
                # `x.unwrap()` / `x.expect(..)` as its definition: this is the arm for Err / None; find the case analysis it belongs to
                why = None
                for sb, sw in br.switches():
                    ve = br.variant_edges(sb)
                    if not ve or bb not in (list(ve["edges"].values()) + [ve["otherwise"]]):
                        continue
                    scr = ve["scrutinee"]
                    if scr and all((y[0] == "through" and y[1] in ("Ok", "Some")) or (y[0] == "agg" and y[1].endswith(("::Ok", "::Some"))) for y in scr):
                        why = "the value is Ok / Some on every path that reaches this unwrap (the failing case was routed to a diverging diagnostic before)"
                    elif scr and all(m(strip_through(y), ("view", "string", ("param", 1))) or m(strip_through(y), Call("jmespath::Variable::as_string", Each(("param", 1)))) for y in scr):
                        for sb2, sw2 in br.switches():
                            be = br.bool_edges(sb2)
                            if be and ms(br.cond(sb2), Call("jmespath::Variable::is_string", Each(("param", 1)))) and edge_dominates(b, (sb2, be[0]), sb):
                                why = "as_string() under the dominating test is_string()"
                    elif scr and all(m(strip_through(y), value_of("expression")) for y in scr):
                        if clap_rows_ok(jp, b, o, br, sb):
                            why = "clap row: `expression` is required and mutually exclusive with `expr-file`, and this is the branch where no expr-file was given"
                    if why is None:
                        why_not = f"no rule discharges it ({fmt_terms(scr)[:80]})"
                ctx.check(why is not None, rule, key.replace(":panic#", ":unwrap#"), f"{b.deff}: {t['synthetic_unwrap'].split('::')[-1]}() — " + (why or why_not), t["span"]["s"])
                continue
            if is_panic:
                # only the die! fallback after a failed write to stderr
                errw = [x for x, cc in b.calls() if cc["callee"].startswith("std::io::Write::write") and cc.get("callee_args", [""])[0] == "std::io::Stderr"]
                ok = False
                for x in errw:
                    sb, ve = None, None
                    sw = b.blocks[x]["term"]["t"]
                    ve = br.variant_edges(sw)
                    if ve and ve["adt"] == "std::result::Result" and "Err" in ve["edges"] and edge_dominates(b, (sw, ve["edges"]["Err"]), bb):
                        ok = True
                if ok:
                    ctx.assume("a failed write to stderr (die!'s panic) is an environment fault outside the property")
                ctx.check(ok, rule, key, f"{b.deff}: panic reachable only when the diagnostic cannot be written to stderr (environment fault, assumption)", t["span"]["s"])
                continue
            a = o.of_operand(t["args"][0])
            why = None
            # unwrap after a diverging map_err closure (possibly followed by map)
            def strip_map(ts):
                out = set()
                for x in ts:
                    if x[0] == "call" and x[1] == "std::result::Result::<T, E>::map":
                        out |= strip_map(set(x[2][0]))
                    else:
                        out.add(x)
                return out
            if routed_through_diverging_map_err(jp, b, o, t["args"][0]):
                why = "the Err case was routed through a closure that never returns"
            elif ms(a, Or_(("view", "string", ("param", 1)), Call("jmespath::Variable::as_string", Each(("param", 1))))):
                ok = False
                for sb, sw in br.switches():
                    be = br.bool_edges(sb)
                    if be and ms(br.cond(sb), Call("jmespath::Variable::is_string", Each(("param", 1)))) and edge_dominates(b, (sb, be[0]), bb):
                        ok = True
                if ok:
                    why = "as_string() under the dominating test is_string()"
            elif ms(a, value_of("expression")):
                if clap_rows_ok(jp, b, o, br, bb):
                    why = "clap row: `expression` is required and mutually exclusive with `expr-file`, and this is the branch where no expr-file was given"
            ctx.check(why is not None, rule, key, f"{b.deff}: {c.split('::')[-1]}() — " + (why or f"no rule discharges it ({fmt_terms(a)[:80]})"), t["span"]["s"])
        # MIR asserts in the CLI
        for blk in sorted(b.reachable()):
            t = b.blocks[blk]["term"]
            if t["k"] == "assert":
                n += 1
                ctx.bad(rule, f"{b.deff}:assert:{t['msg']}", f"{b.deff}: checked operation {t['msg']} in the CLI has no discharge rule", t["span"]["s"])
            if t["k"] == "call" and t["callee"] in ("std::ops::Index::index", "std::ops::IndexMut::index_mut"):
                n += 1
                ctx.bad(rule, f"{b.deff}:index", f"{b.deff}: indexing in the CLI has no discharge rule", t["span"]["s"])
    ctx.floor(rule, n, 5, "panic-capable sites in the CLI")


def check_library_panics(ctx, jp):
    """`jp` never panics only if the library code it runs never does: everything reachable from compile / search /
    from_json (the C05 inventory and proof rules, evaluated here) plus the rendering code the CLI invokes through
    format machinery — Display of the error it prints, Debug of the tree for --ast, Serialize of the result."""
    from ..effects import reachable_bodies
    from .c05 import State
    rule = "no-panic-library"
    lib = ctx.lib("default")
    cg, reach = reachable_bodies(lib)
    wanted = set()
    for b in jp.fn_bodies():
        for _, t in b.calls():
            for self_ty, tr in t.get("obligations", []) + t.get("resolved_obligations", []):
                if tr in ("std::fmt::Display", "std::fmt::Debug", "serde_core::ser::Serialize", "serde::Serialize") and "jmespath::" in self_ty:
                    last = re.sub(r"[<>&' ]|std::rc::Rc|std::sync::Arc", "", self_ty).split("::")[-1]
                    wanted.add((last, tr.split("::")[-1]))
    roots = []
    for d, b in cg.nodes.items():
        tr = (b.impl_trait or "").split("::")[-1]
        st = re.sub(r"<.*>", "", b.impl_self or "").split("::")[-1]
        if (st, tr) in wanted:
            roots.append(d)
    ctx.check(len(roots) >= 3 and any("JmespathError" in r for r in roots), rule, "rendering-roots",
              f"rendering entry points the CLI reaches through formatting: {sorted(roots)}")
    # nested Display/Debug of the error's parts are reached through formatting obligations inside those bodies
    extra = cg.reachable_from(roots)
    more = True
    while more:
        more = False
        for d in sorted(extra):
            b = cg.nodes.get(d)
            if b is None:
                continue
            for _, t in b.calls():
                for self_ty, tr in t.get("obligations", []) + t.get("resolved_obligations", []):
                    if tr in ("std::fmt::Display", "std::fmt::Debug"):
                        for d2, b2 in cg.nodes.items():
                            if d2 not in extra and (b2.impl_trait or "") == tr and (b2.impl_self or "") and \
                                    re.sub(r"^&+", "", self_ty).split("<")[0] == (b2.impl_self or "").split("<")[0]:
                                extra |= cg.reachable_from([d2])
                                more = True
    sub_reach = set(reach) | set(extra)
    ctx.analysed["library_bodies_for_cli"] = len(sub_reach)
    ctx.analysed["library_rendering_bodies"] = len(extra - set(reach))
    st = State(ctx, lib, cg, sub_reach)
    st.panic_sites()
    # loops of the rendering code (everything else is C05's)
    st2 = State(ctx, lib, cg, set(extra) - set(reach))
    st2.loops(floor=1)


def defining_call(b, op, depth=0):
    """The call terminator whose destination (possibly through plain moves) is this operand."""
    if op.get("k") not in ("copy", "move") or op["p"] or depth > 6:
        return None
    ws = b.assigns_to(op["l"])
    if len(ws) != 1:
        return None
    blk, i, d = ws[0]
    if i == "term":
        return d
    if d["k"] == "use":
        return defining_call(b, d["op"], depth + 1)
    return None


def routed_through_diverging_map_err(jp, b, o, op):
    c = defining_call(b, op)
    for _ in range(3):
        if c is None:
            return False
        if c["callee"] == "std::result::Result::<T, E>::map_err":
            clo = [x for x in o.of_operand(c["args"][1]) if x[0] == "closure"]
            return len(clo) == 1 and closure_diverges(jp, clo[0][1])
        if c["callee"] == "std::result::Result::<T, E>::map":
            c = defining_call(b, c["args"][0])
            continue
        return False
    return False


def closure_diverges(jp, name):
    cb = jp.fn(name)
    if cb is None:
        return False
    return not any(cb.blocks[x]["term"]["k"] == "return" for x in cb.reachable())


def clap_rows_ok(jp, b, o, br, site):
    """`expression` and `expr-file` are both required(true) and conflict with each other; the unwrap
    sits on the branch where value_of("expr-file") was None."""
    # builder calls: find with_name("X") chains
    conf = {}
    req = set()
    cur = None
    for bb, t in b.calls():
        c = t["callee"]
        if c == "clap::Arg::<'a, 'b>::with_name":
            cur = const_str(o, t["args"][0])
        elif c == "clap::Arg::<'a, 'b>::conflicts_with" and cur:
            conf[cur] = const_str(o, t["args"][1])
        elif c == "clap::Arg::<'a, 'b>::required" and cur and t["args"][1].get("int") == 1:
            req.add(cur)
        elif c == "clap::App::<'a, 'b>::arg":
            cur = None
    if not (conf.get("expression") == "expr-file" and conf.get("expr-file") == "expression" and {"expression", "expr-file"} <= req):
        return False
    # branch: Option switch on map(value_of("expr-file"), closure): None edge dominates the site
    def about_expr_file(terms):
        def one(t):
            t = strip_through(t)
            return m(t, value_of("expr-file")) or m(t, Call("std::option::Option::<T>::map", Each(value_of("expr-file")), ANY)) or \
                (t[0] == "agg" and t[1] == "std::option::Option::Some" and term_mentions(t, lambda y: m(y, value_of("expr-file"))))
        return bool(terms) and all(one(t) for t in terms)

    sb, ve = br.first_variant_switch("std::option::Option", about_expr_file)
    if ve is None:
        return False
    none_t = ve["edges"].get("None", ve["otherwise"])
    return edge_dominates(b, (sb, none_t), site)


def const_str(o, op):
    ts = o.of_operand(op)
    for x in ts:
        if x[0] == "const" and isinstance(x[1], str):
            return x[1].strip('"')
    return None
