"""C13 — compile and search are pure: deterministic, history-independent, non-mutating."""
from ..effects import check_effects

EXPLANATION = (
    "Effect analysis over the type-checked program: (1) inventory of statics/consts (only the lazy_static "
    "DEFAULT_RUNTIME cell; no static mut, no thread_local); (2) every field of every library ADT is built only from "
    "types known to be free of interior mutability (unknown type constructors fail closed); (3) Expression::search "
    "builds one fresh Context{expression, runtime, offset: 0} in its own frame, passes it and self.ast to interpret, "
    "takes &self, and no type or static stores a Context; (4) Context.offset is read only by JmespathError::from_ctx "
    "(write-only on the value path); (5) no user unsafe block/fn/impl and no call to Rc/Arc get_mut/make_mut/"
    "try_unwrap/raw-pointer APIs anywhere, so no &mut to shared values can exist; (6) code reachable from compile/"
    "search/clone/conversion makes no call into time/env/fs/net/process/thread/rand, never iterates a hash container "
    "and performs no pointer-to-integer cast; (7) Clone for Expression is derived, Expression::new/Runtime::compile "
    "store exactly the (text, tree, runtime) triple."
)
ASSUMPTIONS = [
    "std / serde / serde_json callees are deterministic functions of their arguments",
    "user-supplied custom functions and Serialize impls are pure (outside the property's quantifier)",
    "Rust's aliasing rules: without unsafe or interior mutability a &T cannot be mutated",
]


def run(ctx):
    ctx.analysed.update(check_effects(ctx, ctx.lib(), "default"))
