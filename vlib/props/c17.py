"""C17 — cargo features change representation, not meaning."""
import os
import re

from .. import build
from .. import crossconfig as cc
from ..analysis import strip_through
from ..analysis import Origins, fmt_terms
from ..serde_tables import (SER, VAR, agg_payload, casts_in, int_entry_ok, number_from_calls, unwrap_ok,
                            variable_variants)

CONFIGS_QUICK = ["default", "sync", "specialized", "sync+specialized"]
CONFIGS_THOROUGH = CONFIGS_QUICK

HANDLES_CONFIGS = True

EXPLANATION = (
    "(1) Feature-conditional code is confined: a lexical scan of every source file finds cfg/cfg_attr/cfg! conditions "
    "mentioning `feature` only in lib.rs. (2) The four feature sets are compiled by the real compiler and every MIR body "
    "(statements, terminators, unresolved callees + generic arguments, local types) is compared with its default twin "
    "after the substitution Arc->Rc: only the blanket ToJmespath body and the specialised impls may differ/appear. "
    "(3) Call sites that specialisation re-routes are enumerated and must land in the conversion table. (4) Each of the "
    "22 specialised ToJmespath impls is paired with the generic path: the generic result is serde's documented primitive "
    "mapping (T::serialize calls serialize_<T>) composed with the extracted Serializer method, and both must build the "
    "same Variable kind from the same-width, cast-free conversion of the argument. (5) The manifest's feature tables "
    "enable nothing (features are pure cfg switches)."
)
ASSUMPTIONS = [
    "serde's primitive Serialize impls call the like-named serialize_<T> method (isize/usize widen to i64/u64)",
    "serde_json::Value's Serialize impl maps each Value kind to the like-named serializer method",
    "NaN/inf inputs are outside the property's quantifier (not JSON-representable): generic gives null, specialised an error",
]

INTS = ["i8", "i16", "i32", "i64", "u8", "u16", "u32", "u64", "isize", "usize"]
SERDE_PRIMITIVE = {  # serde's documented mapping for the specially handled input types
    "i8": "serialize_i8", "i16": "serialize_i16", "i32": "serialize_i32", "i64": "serialize_i64",
    "u8": "serialize_u8", "u16": "serialize_u16", "u32": "serialize_u32", "u64": "serialize_u64",
    "isize": "serialize_i64", "usize": "serialize_u64",
    "f32": "serialize_f32", "f64": "serialize_f64", "bool": "serialize_bool", "()": "serialize_unit",
    "std::string::String": "serialize_str", "&'a str": "serialize_str",
}
EXPECTED_SPECIAL = set(INTS) | {
    "f32", "f64", "bool", "()", "std::string::String", "&'a str", "serde_json::Value", "&'a serde_json::Value",
    "variable::Variable", "&'a variable::Variable", "std::rc::Rc<variable::Variable>", "&'a std::rc::Rc<variable::Variable>",
}


def _int_range(t):
    """(signed, bits) with pointer-sized types taken at their widest supported width (64)."""
    return (t[0] == "i", 64 if t.endswith("size") else int(t[1:]))


def widening_delegation_ok(b, o, st):
    cs = casts_in(b)
    calls = [t for _, t in b.calls()]
    if len(cs) != 1 or len(calls) != 1 or cs[0][1] != st or cs[0][2] not in INTS:
        return False, f"casts: {cs}"
    to = cs[0][2]
    (s1, w1), (s2, w2) = _int_range(st), _int_range(to)
    # value preserving: same signedness and not narrower, or unsigned into a strictly wider signed type
    lossless = (s1 == s2 and w2 >= w1 and not to.endswith("size")) or (not s1 and s2 and w2 > w1 and not to.endswith("size"))
    if not lossless:
        return False, f"cast {st} -> {to} does not preserve every value"
    if (calls[0].get("resolved") or "") != spec_name(to):
        return False, f"delegates to {calls[0].get('resolved') or calls[0]['callee']}"
    a = o.of_operand(calls[0]["args"][0])
    if not (len(a) == 1 and next(iter(a))[0] == "cast" and next(iter(a))[1] == ("param", 1)):
        return False, f"delegate's argument is {fmt_terms(a)}, not the widened self"
    r = o.of_local(0)
    if not (r and all(t[0] == "call" and t[1] == calls[0]["callee"] for t in r)):
        return False, f"result is {fmt_terms(r)}, not the delegate's result"
    return True, f"widens losslessly to {to} and delegates"


def spec_name(self_ty):
    return f"<{self_ty} as ToJmespath>::to_jmespath"


def run(ctx):
    # ---- (1) confinement --------------------------------------------------------------------
    rule = "cfg-confined"
    nfiles = 0
    nconds = 0
    for path in build.source_files():
        if not path.endswith(".rs"):
            continue
        nfiles += 1
        rel = os.path.relpath(path, build.REPO)
        hits = cc.feature_conditions(path)
        nconds += len(hits)
        allowed = rel == os.path.join("jmespath", "src", "lib.rs")
        for line, text in hits:
            if not allowed:
                ctx.bad(rule, f"{rel}:{text}", f"feature condition outside lib.rs: {text}", f"{path}:{line}")
        ctx.check(allowed or not hits, rule, f"file:{rel}", f"{rel}: {len(hits)} feature condition(s)" + ("" if allowed or not hits else " — not allowed here"))
    ctx.floor(rule, nfiles, 10, "source files scanned")
    ctx.analysed["feature_conditions"] = nconds

    # ---- (5) manifest -------------------------------------------------------------------------
    libm, clim = build.read_manifests()
    feats = libm.get("features", {})
    for f in ("sync", "specialized"):
        ctx.check(feats.get(f) == [], "manifest", f"feature:{f}", f"feature `{f}` enables nothing else (found {feats.get(f)!r})")
    extra = [f for f in feats if f not in ("sync", "specialized", "default")]
    ctx.check(not extra, "manifest", "no-other-features", f"no other features are declared (found {extra})")
    ctx.check(not feats.get("default"), "manifest", "default-empty", "no default features")
    for name, dep in libm.get("dependencies", {}).items():
        opt = isinstance(dep, dict) and dep.get("optional")
        ctx.check(not opt, "manifest", f"dep:{name}", f"dependency {name} is unconditional")
    ctx.check(not libm.get("target"), "manifest", "no-target-deps", "no target-specific dependency tables")

    # ---- (2)+(3) same program ------------------------------------------------------------------
    dflt = ctx.lib("default")
    ia = cc.index_bodies(dflt)
    spec_re = re.compile(r"^<.* as ToJmespath>::to_jmespath(::\{closure#\d+\})*$")
    for cfg in ("sync", "specialized", "sync+specialized"):
        other = ctx.lib(cfg)
        rule = f"same-program[{cfg}]"
        r = cc.compare(dflt, other)
        ib = cc.index_bodies(other)
        ctx.floor(rule, r["same"], 380, f"bodies identical to default modulo Rc<->Arc")
        for k in r["differing"]:
            name = k[0]
            if "specialized" in cfg and name == "<T as ToJmespath>::to_jmespath":
                continue  # checked by generic-body below
            ctx.bad(rule, f"differs:{name}", f"[{cfg}] body {name} differs from default: {cc.first_difference(ia[k], ib[k])[:300]}", ia[k].span)
        for k in r["only_a"]:
            ctx.bad(rule, f"missing:{k[0]}", f"[{cfg}] body {k[0]} exists only with default features")
        for k in r["only_b"]:
            ok = "specialized" in cfg and spec_re.match(k[0]) is not None
            if not ok:
                ctx.bad(rule, f"extra:{k[0]}", f"[{cfg}] body {k[0]} exists only with these features", ib[k].span)
        for (k, blk, callee, cargs, ra, rb) in r["rerouted"]:
            ok = "specialized" in cfg and callee == "ToJmespath::to_jmespath" and spec_re.match(rb) and \
                any(spec_name(t) == rb for t in EXPECTED_SPECIAL)
            ctx.check(bool(ok), rule, f"rerouted:{k[0]}@{cargs}", f"[{cfg}] {k[0]}: call {callee}<{cargs}> re-routed {ra} -> {rb} (must be a tabulated conversion)")
        ctx.check(True, rule, "summary", f"[{cfg}] {r['same']} identical, {len(r['differing'])} differing, {len(r['only_b'])} extra, {len(r['rerouted'])} re-routed")

    # ---- (4) conversions ----------------------------------------------------------------------------
    for cfg in ("specialized", "sync+specialized"):
        check_conversions(ctx, ctx.lib(cfg), cfg)
        # the Value / Variable rows rest on the kind tables of the conversion code itself (shared with C08):
        # TryFrom<Value> incl. convert_map inserting every member, and Serialize for Variable
        from . import c08
        saved = ctx.key_prefix
        ctx.key_prefix = f"[{cfg}] "
        try:
            ctx.attempt("check_tryfrom", c08.check_tryfrom, ctx, ctx.lib(cfg))
            ctx.attempt("check_serialize", c08.check_serialize, ctx, ctx.lib(cfg))
            # ... and the generic side of every row is the crate's own Serializer with its sequence / map states
            # (shared with C14): what the specialised conversions must agree with
            from . import c14
            ctx.attempt("check_serializer", c14.check_serializer, ctx, ctx.lib(cfg))
            ctx.attempt("check_states", c14.check_states, ctx, ctx.lib(cfg))
        finally:
            ctx.key_prefix = saved
    # generic body in every configuration
    for cfg in CONFIGS_QUICK:
        check_generic(ctx, ctx.lib(cfg), cfg)


def check_generic(ctx, lib, cfg):
    rule = f"generic-conversion[{cfg}]"
    b = lib.fn("<T as ToJmespath>::to_jmespath")
    if b is None:
        ctx.missing(rule, "blanket", "<T as ToJmespath>::to_jmespath")
        return
    o = Origins(b, lib)
    # spelling-independent (map(Rcvar::new), `?` + Ok, match): one from_serializable(self); the result is Ok(Rcvar::new(its value))
    # or its error passed through
    names = sorted({t["callee"] for _, t in b.calls() if not t["callee"].startswith("std::ops::")})
    fsc = [t for _, t in b.calls() if t["callee"] == "variable::Variable::from_serializable"]
    ok = len(fsc) == 1 and o.of_operand(fsc[0]["args"][0]) == {("param", 1)} and \
        all(n == "variable::Variable::from_serializable" or re.match(r"^std::(rc::Rc|sync::Arc)::<T>::new$", n) for n in names)
    if ok:
        def from_fs(t):
            t = strip_through(t)
            return t[0] == "call" and t[1] == "variable::Variable::from_serializable"
        wraps = [t for _, t in b.calls() if re.match(r"^std::(rc::Rc|sync::Arc)::<T>::new$", t["callee"])]
        ok = len(wraps) == 1 and all(from_fs(x) for x in o.of_operand(wraps[0]["args"][0])) and bool(o.of_operand(wraps[0]["args"][0]))
        for t in o.of_local(0):
            if from_fs(t):
                continue
            if t[0] == "agg" and t[1] == "std::result::Result::Ok" and t[2][0] and all(from_fs(x) for x in t[2][0]):
                continue
            if t[0] == "agg" and t[1] == "std::result::Result::Err" and t[2][0] and all(from_fs(x) for x in t[2][0]):
                continue
            ok = False
    ctx.check(ok, rule, "blanket", f"[{cfg}] generic to_jmespath = Variable::from_serializable(self).map(Rcvar::new) (calls {names})", b.span)
    fs = lib.fn("variable::Variable::from_serializable")
    tv = lib.fn("variable::to_variable")
    if fs is None or tv is None:
        ctx.missing(rule, "from_serializable", "Variable::from_serializable / to_variable")
        return
    n1 = [t["callee"] for _, t in fs.calls() if not t["callee"].startswith("std::")]
    ctx.check(n1 == ["variable::to_variable"], rule, "from_serializable", f"[{cfg}] from_serializable delegates to to_variable (calls {n1})", fs.span)
    sc = [t for _, t in tv.calls()]
    ok = len(sc) == 1 and sc[0]["callee"] == "serde::Serialize::serialize" and sc[0]["callee_args"][1:] == ["variable::Serializer"]
    ctx.check(ok, rule, "to_variable", f"[{cfg}] to_variable = value.serialize(variable::Serializer)", tv.span)


def check_conversions(ctx, lib, cfg):
    rule = f"conversion[{cfg}]"
    found = {}
    for b in lib.fn_bodies():
        if b.kind == "method" and b.impl_trait == "ToJmespath" and b.item_name == "to_jmespath":
            st = cc._norm(b.impl_self)
            if st != "T":
                found[st] = b
    ctx.check(set(found) == EXPECTED_SPECIAL, rule, "impl-set",
              f"[{cfg}] specialised impls are exactly the 22 tabulated ones (missing {sorted(EXPECTED_SPECIAL - set(found))}, untabulated {sorted(set(found) - EXPECTED_SPECIAL)})")
    for st, b in sorted(found.items()):
        if st not in EXPECTED_SPECIAL:
            ctx.bad(rule, f"untabulated:{st}", f"[{cfg}] specialised conversion for {st} has no table row", b.span)
            continue
        o = Origins(b, lib)
        ret = o.of_local(0)
        key = st
        if st in INTS:
            ok, why = int_entry_ok(b, st, ("param", 1))
            inner = unwrap_ok(ret)
            vs = variable_variants(inner) if inner is not None else None
            ok = ok and vs == {"Number"}
            if not ok:
                # equivalent spelling: one value-preserving widening cast of self, handed to the (separately checked)
                # conversion of the wider type of the same signedness
                ok, why = widening_delegation_ok(b, o, st)
            # generic side
            gm = lib.fn(SER + SERDE_PRIMITIVE[st])
            gok = False
            gwhy = "serializer method missing"
            if gm is not None:
                gty = SERDE_PRIMITIVE[st].split("_")[1]
                gok, gwhy = int_entry_ok(gm, gty, ("param", 2))
                gi = unwrap_ok(Origins(gm, lib).of_local(0))
                gok = gok and gi is not None and variable_variants(gi) == {"Number"}
            ctx.check(ok and gok, rule, key, f"[{cfg}] {st}: specialised Number::from::<{st}>(self) == generic {SERDE_PRIMITIVE[st]} (cast-free, same kind) {why} {gwhy if not gok else ''}", b.span)
        elif st == "f32":
            def widened(body, delegate):
                """f32 -> f64 exactly (`x as f64` or `f64::from(x)`), then the one delegating call."""
                cs_ = casts_in(body)
                calls_ = [t for _, t in body.calls()]
                conv = [t for t in calls_ if t["callee"] == "std::convert::From::from"]
                rest = [t for t in calls_ if t["callee"] != "std::convert::From::from"]
                by_cast = len(cs_) == 1 and cs_[0][1] == "f32" and cs_[0][2] == "f64" and not conv
                by_from = not cs_ and len(conv) == 1 and conv[0].get("callee_args") == ["f64", "f32"]
                return (by_cast or by_from) and len(rest) == 1 and (rest[0].get("resolved") or "") == delegate
            ok = widened(b, "<f64 as ToJmespath>::to_jmespath")
            gm = lib.fn(SER + "serialize_f32")
            gok = gm is not None and widened(gm, SER + "serialize_f64")
            ctx.check(ok and gok, rule, key, f"[{cfg}] f32 widens to f64 and delegates to the f64 conversion on both paths", b.span)
        elif st == "f64":
            fc = [t for _, t in b.calls() if t["callee"] == "serde_json::Number::from_f64"]
            ok = len(fc) == 1 and o.of_operand(fc[0]["args"][0]) == {("param", 1)} and not casts_in(b)
            inner = set()
            for t in ret:
                if t[0] == "agg" and t[1] == "std::result::Result::Ok":
                    inner |= set(t[2][0])
            ok = ok and variable_variants(inner) == {"Number"}
            gm = lib.fn(SER + "serialize_f64")
            gok = False
            if gm is not None:
                gfc = [t for _, t in gm.calls() if t["callee"] == "serde_json::Number::from_f64"]
                gok = len(gfc) == 1 and Origins(gm, lib).of_operand(gfc[0]["args"][0]) == {("param", 2)} and not casts_in(gm)
            ctx.check(ok and gok, rule, key, f"[{cfg}] f64: both paths build Number from Number::from_f64(self) on the finite branch", b.span)
            ctx.note("f64: non-finite input gives Null generically and Err under specialized (NaN/inf are not JSON-representable)")
        elif st in ("bool", "()", "std::string::String", "&'a str"):
            inner = unwrap_ok(ret)
            vs = variable_variants(inner) if inner is not None else None
            want = {"bool": "Bool", "()": "Null", "std::string::String": "String", "&'a str": "String"}[st]
            ok = vs == {want}
            if ok and want != "Null":
                ok = agg_payload(inner, want) == {("param", 1)}
            gm = lib.fn(SER + SERDE_PRIMITIVE[st])
            gok = False
            if gm is not None:
                go = Origins(gm, lib)
                gi = unwrap_ok(go.of_local(0))
                gvs = variable_variants(gi) if gi is not None else None
                gok = gvs == {want} and (want == "Null" or agg_payload(gi, want) == {("param", 2)})
            ctx.check(ok and gok, rule, key, f"[{cfg}] {st}: both paths build Variable::{want} of the argument itself", b.span)
        elif st in ("serde_json::Value", "&'a serde_json::Value"):
            calls = [t for _, t in b.calls()]
            # the conversion, whichever side it is named from: `self.try_into()` or `Variable::try_from(self)`
            CONV = {"std::convert::TryInto::try_into": 1, "std::convert::TryFrom::try_from": 0}
            ti = [t for t in calls if t["callee"] in CONV]
            names = sorted({t["callee"] for t in calls if not t["callee"].startswith("std::ops::")})
            ok = len(ti) == 1 and o.of_operand(ti[0]["args"][0]) == {("param", 1)} and ti[0]["callee_args"][CONV[ti[0]["callee"]]] == VAR and \
                all(n in CONV or re.match(r"^std::(rc::Rc|sync::Arc)::<T>::new$", n) for n in names)
            if ok:
                def from_ti(t):
                    t = strip_through(t)
                    return t[0] == "call" and t[1] in CONV
                for t in o.of_local(0):
                    if from_ti(t) or (t[0] == "agg" and t[1].startswith("std::result::Result::") and t[2][0] and all(from_ti(x) for x in t[2][0])):
                        continue
                    ok = False
            ctx.check(ok, rule, key, f"[{cfg}] {st}: Variable::try_from(self) wrapped in Rcvar (kind table checked under C08 value-conversion)", b.span)
        elif st in ("std::rc::Rc<variable::Variable>", "&'a std::rc::Rc<variable::Variable>"):
            inner = unwrap_ok(ret)
            calls = [t["callee"] for _, t in b.calls()]
            ok = inner == {("param", 1)} and all(c == "std::clone::Clone::clone" for c in calls)
            ctx.check(ok, rule, key, f"[{cfg}] {st}: identity (the same shared value)", b.span)
        elif st in ("variable::Variable", "&'a variable::Variable"):
            inner = unwrap_ok(ret)
            calls = [t["callee"] for _, t in b.calls()]
            ok = inner == {("param", 1)} and all(re.match(r"^(std::clone::Clone::clone|std::(rc::Rc|sync::Arc)::<T>::new)$", c) for c in calls)
            ctx.check(ok, rule, key, f"[{cfg}] {st}: identity (wrapped in Rcvar)", b.span)
    # identity conversions equal generic re-serialisation only if Serialize for Variable is the kind-preserving table
    sv = lib.fn("<variable::Variable as serde::Serialize>::serialize")
    ctx.check(sv is not None, rule, "variable-serialize-present", f"[{cfg}] Serialize for Variable exists (kind table checked under C08)")
