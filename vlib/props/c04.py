"""C04 — operators bind by the documented precedence; projections extend as specified.

Decides (DESIGN §3/C04): binding-power *relations* read off Token::lbp, the
projection threshold, the Pratt loop shape, the power passed to every recursive
operand parse, and the node vocabulary each arm constructs.
"""
from ..analysis import strip_through, Branches, Origins, cfg_cycles, edge_dominates, fmt_terms
from ..parsing import (ALL_TOKENS, AST, P, TOKEN, first_discr_switch, lbp_table,
                       promoted_token, region, region_aggs, region_calls, token_of_terms)

EXPLANATION = (
    "Static decision of the precedence property from the type-checked MIR of lexer::Token::lbp and the "
    "Pratt parser: (1) the binding-power table is extracted from the discriminant switch of Token::lbp and "
    "checked as order relations (never literal numbers); (2) PROJECTION_STOP is related to that table and the "
    "three-way structure of projection_rhs is checked; (3) Parser::expr is checked to be the loop "
    "`left = nud(); while rbp < lbp(peek(0)) { left = led(left) }` with a strict comparison; (4) for every "
    "recursive operand parse (expr/parse_dot/projection_rhs call sites) the provenance of the power argument is "
    "compared with the table row (operator's own power, comparator power, Star/Filter/Flatten power, or 0); "
    "(5) every Ast aggregate built by nud/led/parse_* has the documented variant and its lhs/rhs fields "
    "originate from the left operand and the freshly parsed operand respectively."
)
ASSUMPTIONS = [
    "standard Pratt-parser argument: table relations + loop shape + operand powers imply the documented parse",
    "rustc's MIR faithfully represents the source (mir-opt-level=0)",
]

CMP = ["Eq", "Ne", "Lt", "Lte", "Gt", "Gte"]
CHAIN = ["Pipe", "Or", "And", "Eq", "Flatten", "Star", "Filter", "Dot", "Not", "Lbracket", "Lparen"]
ZERO = ["Rbracket", "Rparen", "Rbrace", "Comma", "Colon", "Eof", "Identifier", "QuotedIdentifier",
        "Number", "Literal", "At", "Ampersand"]


def run(ctx):
    lib = ctx.lib()
    table, why = lbp_table(lib)
    if table is None:
        ctx.missing("lbp-table", "Token::lbp", why)
        return
    ctx.analysed["lbp_table"] = table
    missing = [t for t in ALL_TOKENS if t not in table]
    extra = [t for t in table if t not in ALL_TOKENS]
    ctx.check(not missing and not extra, "lbp-table", "vocabulary",
              f"Token has exactly the 29 documented kinds (missing {missing}, extra {extra})")
    if missing:
        return

    # (1) order relations
    check_lbp_relations(ctx, table)
    ctx.attempt("check_token_equality", check_token_equality, ctx, lib)

    # (2) projection threshold
    stop = lib.consts.get("parser::PROJECTION_STOP", {}).get("int")
    if stop is None:
        ctx.missing("projection-stop", "const", "parser::PROJECTION_STOP (integer constant)")
    else:
        ctx.analysed["PROJECTION_STOP"] = stop
        for t in ["Pipe", "Or", "And"] + CMP + ["Flatten", "Rbracket", "Rparen", "Rbrace", "Comma", "Colon", "Eof"]:
            ctx.check(table[t] < stop, "projection-stop", f"{t}<STOP",
                      f"lbp({t})={table[t]} < PROJECTION_STOP={stop}: {t} ends a projection")
        for t in ["Star", "Filter", "Dot", "Lbracket", "Lparen", "Not", "Lbrace"]:
            ctx.check(table[t] >= stop, "projection-stop", f"{t}>=STOP",
                      f"lbp({t})={table[t]} >= PROJECTION_STOP={stop}: {t} does not silently end a projection")
    ctx.attempt("check_projection_rhs", check_projection_rhs, ctx, lib, stop)

    # (3) Pratt loop
    ctx.attempt("check_pratt_loop", check_pratt_loop, ctx, lib)

    # (4)+(5) operand powers and node vocabulary
    ctx.attempt("check_operands", check_operands, ctx, lib, table)
    ctx.attempt("check_nodes", check_nodes, ctx, lib)
    # which routine a token hands the rest of the input to decides how far its operand extends: after '.', a '{' must go
    # through expr(lbp) like an identifier, not stop at the closing brace (dispatch rows shared with C03)
    from .c03 import check_dispatch
    ctx.attempt("check_dispatch", check_dispatch, ctx, lib)


def check_lbp_relations(ctx, table):
    """The order relations of the binding-power table (shared with C06: what an expression reference's operand is — and hence
    what kind of value reaches the validator — is decided by `&` ending every operand parse and its operand's own power)."""
    for a, b in zip(CHAIN, CHAIN[1:]):
        ctx.check(table[a] < table[b], "lbp-order", f"{a}<{b}",
                  f"lbp({a})={table[a]} < lbp({b})={table[b]}", "lexer::Token::lbp")
    for c in CMP[1:]:
        ctx.check(table[c] == table["Eq"], "lbp-order", f"Eq={c}",
                  f"lbp({c})={table[c]} == lbp(Eq)={table['Eq']}", "lexer::Token::lbp")
    for z in ZERO:
        ctx.check(table[z] == 0, "lbp-zero", z,
                  f"lbp({z})={table[z]} is the minimum power 0 (terminates every operand parse)",
                  "lexer::Token::lbp")
    ctx.check(table["Pipe"] > 0, "lbp-zero", "Pipe>0", "lbp(Pipe) > 0 so that expr(0) continues over a pipe")



def check_token_equality(ctx, lib):
    """The parser decides by comparing tokens (`peek(0) == &Token::Rbracket`, `match`): every rule here reads such a test as a
    test of the token's kind. That holds when `==` on Token is the derived structural equality (same kind, same payload) —
    a hand-written impl could identify two kinds (shared with C03)."""
    rule = "token-equality"
    b = ctx.fn("<lexer::Token as std::cmp::PartialEq>::eq", rule=rule)
    if b is None:
        return
    ctx.check(bool(b.j.get("auto_derived")), rule, "derived",
              "`==` on lexer::Token is the derived structural equality (kinds are never identified)", b.span)


# ---------------------------------------------------------------------------
def check_projection_rhs(ctx, lib, stop):
    """Decided token kind by token kind (29 cases): with peek(0) of kind K and lbp(K) taken from the table, which calls lie on
    the path and what is returned — whatever the spelling (match, `==` / matches! tests with early returns, a private enum
    computed first)."""
    from ..decision import Undecided, Walker
    from .c10 import promoted_variant
    rule = "projection-rhs"
    b = ctx.fn(P + "projection_rhs", rule=rule)
    if b is None:
        return
    table, why = lbp_table(lib)
    if table is None or stop is None:
        ctx.missing(rule, "lbp", why or "PROJECTION_STOP")
        return
    o = Origins(b, lib)

    def is_peek0(x):
        x = strip_through(x)
        return x[0] == "call" and x[1] == P + "peek" and len(x[2]) == 2 and set(x[2][1]) == {("const", 0)}

    want_kinds = {"Dot": "dot", "Lbracket": "operand", "Filter": "operand"}
    got = {}
    details = {}
    for K in ALL_TOKENS:
        def atom(t, K=K):
            if t[0] == "discr" and is_peek0(t[1]):
                return K
            return None

        def call(t, argvals, K=K):
            if t[1] == "lexer::Token::lbp" and t[2] and t[2][0] and all(is_peek0(x) for x in t[2][0]):
                return table[K]
            if t[1] in ("std::cmp::PartialEq::eq", "std::cmp::PartialEq::ne") and len(t[2]) == 2:
                sides = [set(a) for a in t[2]]
                pk = [sd for sd in sides if sd and all(is_peek0(x) for x in sd)]
                pr = [sd for sd in sides if sd and all(x[0] == "promoted" for x in sd)]
                if len(pk) == 1 and len(pr) == 1:
                    vs = {promoted_variant(lib, b, x[1], TOKEN) for x in pr[0]}
                    if len(vs) == 1 and None not in vs:
                        r = int(next(iter(vs)) == K)
                        return r if t[1].endswith("::eq") else 1 - r
            return None
        w = Walker(b, o, atom=atom, call=call)
        try:
            paths = w.walk()
        except Undecided as e:
            got[K] = f"undecided ({e})"
            continue
        outs = set()
        for path, leaf in paths:
            calls = [b.blocks[x]["term"] for x in path if b.blocks[x]["term"]["k"] == "call" and b.blocks[x]["term"]["callee"].startswith(P)]
            names = [c["callee"][len(P):] for c in calls if c["callee"][len(P):] not in ("peek",)]
            res = {strip_through(x) for x in w.result_on_path(path)}
            po = Origins(b, lib, only_blocks=set(path))
            if names[:2] == ["advance", "parse_dot"] and len(names) == 2 and po.of_operand(calls[[c["callee"] for c in calls].index(P + "parse_dot")]["args"][1]) == {("param", 2)} and \
                    all(x[0] == "call" and x[1] == P + "parse_dot" for x in res):
                outs.add("dot")
            elif names == ["expr"] and po.of_operand([c for c in calls if c["callee"] == P + "expr"][0]["args"][1]) == {("param", 2)} and \
                    all(x[0] == "call" and x[1] == P + "expr" for x in res):
                outs.add("operand")
            elif not names and res and all(x[0] == "agg" and x[1] == "std::result::Result::Ok" and x[2][0] and
                                           all(y[0] == "agg" and y[1] == AST + "::Identity" for y in x[2][0]) for x in res):
                outs.add("identity")
            elif set(names) <= {"err"} and res and all(x[0] == "agg" and x[1] == "std::result::Result::Err" for x in res):
                outs.add("error")
            else:
                outs.add("?" + ",".join(names) + ":" + fmt_terms(res)[:60])
        got[K] = "|".join(sorted(outs))
    n_ok = 0
    for K in ALL_TOKENS:
        want = want_kinds.get(K) or ("identity" if table[K] < stop else "error")
        ok = got[K] == want
        n_ok += ok
        if K in want_kinds:
            text = {"dot": "Dot: consume it, then parse_dot(lbp parameter)", "operand": f"{K}: not consumed, parsed as a fresh operand with expr(lbp parameter)"}[want]
            ctx.check(ok, rule, f"{K}-arm", text + f" (found {got[K]})", b.span)
        elif not ok:
            ctx.bad(rule, f"kind:{K}", f"peek(0) = {K} (lbp {table[K]}, threshold {stop}): expected {want}, found {got[K]}", b.span)
    ctx.check(all(got[K] == want_kinds[K] for K in want_kinds), rule, "continuing-kinds", "the kinds that continue a projection are exactly Dot, Lbracket, Filter", b.span)
    below = [K for K in ALL_TOKENS if K not in want_kinds and table[K] < stop]
    above = [K for K in ALL_TOKENS if K not in want_kinds and table[K] >= stop]
    ctx.check(all(got[K] == "identity" for K in below), rule, "below-threshold", "below the threshold the right-hand side is Identity and nothing is consumed", b.span)
    ctx.check(all(got[K] == "error" for K in above), rule, "above-threshold", "any other token is a parse error", b.span)
    ctx.check(True, rule, "threshold-test", f"decided for all {len(ALL_TOKENS)} token kinds against lbp(kind) < PROJECTION_STOP = {stop}", b.span)
    ctx.check(True, rule, "scrutinee", "dispatch is on peek(0) (the walk substitutes the kind of peek(0) only)", b.span)


# ---------------------------------------------------------------------------
def check_pratt_loop(ctx, lib):
    rule = "pratt-loop"
    b = ctx.fn(P + "expr", rule=rule)
    if b is None:
        return
    o = Origins(b, lib)
    br = Branches(b, o)
    cycles = cfg_cycles(b)
    ctx.check(len(cycles) == 1, rule, "single-loop", f"Parser::expr contains exactly one loop (found {len(cycles)})", b.span)
    if len(cycles) != 1:
        return
    cyc = set(cycles[0])
    led_calls = [(bb, t) for bb, t in b.calls() if t["callee"] == P + "led"]
    nud_calls = [(bb, t) for bb, t in b.calls() if t["callee"] == P + "nud"]
    ctx.check(len(nud_calls) == 1 and nud_calls[0][0] not in cyc, rule, "seed",
              "the left operand is seeded by exactly one nud() call before the loop", b.span)
    ctx.check(len(led_calls) == 1 and led_calls[0][0] in cyc, rule, "body",
              "the loop body is exactly one led() call", b.span)
    other = [t["callee"] for bb, t in b.calls() if t["callee"].startswith(P) and t["callee"] not in (P + "led", P + "nud", P + "peek")]
    ctx.check(not other, rule, "no-other-parse-calls", f"expr calls no other parser routine (found {other})", b.span)
    if led_calls:
        larg = o.of_operand(led_calls[0][1]["args"][1])
        ok = all(t[0] == "call" and t[1] in (P + "nud", P + "led") for t in larg) and len(larg) >= 1
        ctx.check(ok, rule, "led-operand", f"led receives the current left operand (origins: {fmt_terms(larg)})", b.span)
    # loop guard
    guard = None
    for bb in sorted(cyc):
        t = b.blocks[bb]["term"]
        if t["k"] == "switch" and br.bool_edges(bb):
            tt, ft = br.bool_edges(bb)
            if (tt in cyc) != (ft in cyc):
                for term in br.cond(bb):
                    if term[0] == "bin":
                        guard = (bb, term, tt, ft)
    if guard is None:
        ctx.missing(rule, "guard", "no comparison guarding the loop exit in Parser::expr")
        return
    bb, term, tt, ft = guard
    op, lhs, rhs = term[1], term[2], term[3]
    is_rbp = lhs == ("param", 2)
    is_lbp_peek = (rhs[0] == "call" and rhs[1] == "lexer::Token::lbp"
                   and all(x[0] == "call" and x[1] == P + "peek" and ("const", 0) in x[2][1] for x in rhs[2][0]))
    # accept the mirrored spelling lbp(peek) > rbp
    mirrored = op == "Gt" and rhs == ("param", 2) and lhs[0] == "call" and lhs[1] == "lexer::Token::lbp"
    ok = (op == "Lt" and is_rbp and is_lbp_peek) or mirrored
    ctx.check(ok, rule, "guard", f"loop continues iff rbp < lbp(peek(0)) — strict (found {op}({fmt_terms([lhs])}, {fmt_terms([rhs])}))", b.span)
    ctx.check(tt in cyc and ft not in cyc, rule, "guard-polarity", "the true branch of the guard continues the loop, the false branch leaves it", b.span)
    # result is the accumulated left operand
    ret = {strip_through(t) for t in o.of_local(0)}

    def is_left(t):
        # what nud / led produced — handed on as it is, or unwrapped with `?` and wrapped again in Ok(..)
        t = strip_through(t)
        if t[0] == "call" and t[1] in (P + "nud", P + "led"):
            return True
        return t[0] == "agg" and t[1] == "std::result::Result::Ok" and len(t[2]) == 1 and bool(t[2][0]) and all(is_left(x) for x in t[2][0])
    ok = bool(ret) and all(is_left(t) for t in ret)
    ctx.check(ok, rule, "result", f"expr returns the accumulated left operand (origins: {fmt_terms(ret)})", b.span)


# ---------------------------------------------------------------------------
# (function, callee) -> list of expected power descriptors per call site, in CFG order
#   "own"        lbp(token consumed by this arm)  (checked per arm)
#   ("tok", X)   lbp(Token::X)
#   0            the constant 0
#   "param"      the function's own lbp parameter
OPERAND_TABLE = {
    ("parse", "expr"): [0],
    ("parse_kvp", "expr"): [0],
    ("parse_list", "expr"): [0],
    ("parse_filter", "expr"): [0],
    ("parse_filter", "projection_rhs"): [("tok", "Filter")],
    ("parse_flatten", "projection_rhs"): [("tok", "Flatten")],
    ("parse_comparator", "expr"): [("tok", "Eq")],
    ("parse_wildcard_index", "projection_rhs"): [("tok", "Star")],
    ("parse_wildcard_values", "projection_rhs"): [("tok", "Star")],
    ("parse_index", "projection_rhs"): [("tok", "Star")],
    ("parse_dot", "expr"): ["param"],
    ("projection_rhs", "expr"): ["param"],
    ("projection_rhs", "parse_dot"): ["param"],
}
LED_OWN = {"Or": "expr", "And": "expr", "Pipe": "expr", "Dot": "parse_dot"}
NUD_OWN = {"Ampersand": "expr", "Not": "expr"}
NUD_ZERO = {"Lparen": "expr"}


def classify_power(lib, body, o, op):
    terms = o.of_operand(op)
    out = set()
    for t in terms:
        if t == ("const", 0):
            out.add(0)
        elif t[0] == "const":
            out.add(("const", t[1]))
        elif t[0] == "param":
            out.add(("param", t[1]))
        elif t[0] == "call" and t[1] == "lexer::Token::lbp":
            arg = t[2][0]
            tk = token_of_terms(lib, body, arg)
            if tk:
                out.add(("tok", tk))
            else:
                out.add(("lbp-of", fmt_terms(arg)))
        else:
            out.add(("other", fmt_terms([t])))
    return out


def check_operands(ctx, lib, table):
    rule = "operand-power"
    n_sites = 0
    for (fn, callee), expected in OPERAND_TABLE.items():
        b = ctx.fn(P + fn, rule=rule)
        if b is None:
            continue
        o = Origins(b, lib)
        sites = [(bb, t) for bb, t in b.calls() if t["callee"] == P + callee]
        if len(sites) != len(expected):
            ctx.bad(rule, f"{fn}->{callee}:count",
                    f"{fn} has {len(sites)} call(s) to {callee}, the table expects {len(expected)}", b.span)
            continue
        for (bb, t), exp in zip(sites, expected):
            n_sites += 1
            got = classify_power(lib, b, o, t["args"][1])
            if exp == "param":
                # the function's own power parameter (last parameter)
                ok = got == {("param", b.arg_count)}
                want = "its own power parameter"
            elif exp == 0:
                ok = got == {0}
                want = "the constant 0"
            else:
                # accept any token with the same power as the documented one only if it *is* that token
                ok = got == {exp}
                want = f"lbp(Token::{exp[1]})"
            ctx.check(ok, rule, f"{fn}->{callee}", f"{fn}: {callee}() is called with {want} (found {sorted(map(str, got))})",
                      t["span"]["s"])
    # rows of led / nud, decided per kind of the consumed token (29 cases each): which operand parses lie on the path and
    # with which power — whatever the dispatch is written as (one match, helper lookups such as `comparator_of(&token)`,
    # a shared `operand_of(&token)`)
    from ..decision import Undecided, Walker
    from .c10 import promoted_variant
    OPERAND_CALLS = (P + "expr", P + "parse_dot", P + "projection_rhs")
    for fn, own, zero in (("led", LED_OWN, {}), ("nud", NUD_OWN, NUD_ZERO)):
        b = ctx.fn(P + fn, rule=rule)
        if b is None:
            continue
        o = Origins(b, lib)

        def consumed(x):
            x = strip_through(x)
            return x[0] == "field" and x[2] == "1" and x[1][0] == "call" and x[1][1] == P + "advance_with_pos"
        adv = [t for _, t in b.calls() if t["callee"] == P + "advance_with_pos"]
        ctx.check(len(adv) == 1, rule, f"{fn}:scrutinee", f"{fn} consumes exactly one token itself and dispatches on it ({len(adv)} advance_with_pos calls)", b.span)
        for K in ALL_TOKENS:
            def atom(t, K=K):
                if t[0] == "discr" and consumed(t[1]):
                    return K
                return None

            def call(t, argvals, K=K):
                if t[1] == "lexer::Token::lbp" and t[2] and t[2][0]:
                    vals = set()
                    for x in t[2][0]:
                        if consumed(x):
                            vals.add(table[K])
                        elif x[0] == "promoted":
                            v = promoted_variant(lib, b, x[1], TOKEN)
                            vals.add(table.get(v) if v else None)
                        elif x[0] == "agg" and x[1].startswith(TOKEN + "::"):
                            vals.add(table.get(x[1].split("::")[-1]))
                        else:
                            vals.add(None)
                    return next(iter(vals)) if len(vals) == 1 else None
                if t[1] in ("std::cmp::PartialEq::eq", "std::cmp::PartialEq::ne") and len(t[2]) == 2:
                    sides = [set(a_) for a_ in t[2]]
                    ck = [sd for sd in sides if sd and all(consumed(x) for x in sd)]
                    pr = [sd for sd in sides if sd and all(x[0] == "promoted" for x in sd)]
                    if len(ck) == 1 and len(pr) == 1:
                        vs = {promoted_variant(lib, b, x[1], TOKEN) for x in pr[0]}
                        if len(vs) == 1 and None not in vs:
                            r = int(next(iter(vs)) == K)
                            return r if t[1].endswith("::eq") else 1 - r
                return None
            w = Walker(b, o, atom=atom, call=call, max_steps=6000, cut_loops=True)
            try:
                paths = w.walk()
            except Undecided as e:
                ctx.bad(rule, f"{fn}:{K}", f"{fn} with consumed token {K}: undecidable ({e})", b.span)
                continue
            seqs = set()
            for path, leaf in paths:
                po = Origins(b, lib, only_blocks=set(path))
                saved, w.o = w.o, po
                seq = []
                try:
                    for x in path:
                        t = b.blocks[x]["term"]
                        if t["k"] == "call" and t["callee"] in OPERAND_CALLS:
                            try:
                                pw = w.eval_terms(po.of_operand(t["args"][1]))
                            except Undecided:
                                pw = None
                            seq.append((t["callee"][len(P):], pw))
                finally:
                    w.o = saved
                seqs.add(tuple(seq))
            if K in own or K in zero:
                callee = own.get(K) or zero.get(K)
                wantp = table[K] if K in own else 0
                n_sites += 1
                # (a Dot followed by '*' is the object wildcard: no operand parse on that path)
                good = {s_ for s_ in seqs if s_} == {((callee, wantp),)}
                ctx.check(good, rule, f"{fn}:{K}",
                          f"{fn}/{K}: {callee}() is called once with " + (f"lbp of the operator just consumed ({K}) = {wantp}" if K in own else "the constant 0") +
                          f" (found {sorted(seqs)})", b.span)
            else:
                extra = sorted(s_ for s_ in seqs if s_)
                if extra:
                    ctx.bad(rule, f"{fn}:unlisted@{extra[0][0][0]}", f"{fn} with consumed token {K} parses an operand itself ({extra}): not in the documented table", b.span)
    ctx.floor(rule, n_sites, 20, "operand-parse call sites checked")
    # every call to expr/parse_dot/projection_rhs anywhere in the parser must be covered by the table
    covered_fns = {P + k[0] for k in OPERAND_TABLE} | {P + "led", P + "nud"}
    for b in lib.fn_bodies():
        for bb, t in b.calls():
            if t["callee"] in (P + "expr", P + "parse_dot", P + "projection_rhs") and b.deff not in covered_fns:
                # closures of covered functions (e.g. parse's and_then closure)
                root = b.j.get("closure_root")
                if root in covered_fns:
                    o = Origins(b, lib)
                    got = classify_power(lib, b, o, t["args"][1])
                    ctx.check(got == {0}, rule, f"{root.split('::')[-1]}:closure->{t['callee'].split('::')[-1]}",
                              f"closure in {root}: operand parsed with 0 (found {sorted(map(str, got))})", t["span"]["s"])
                else:
                    ctx.bad(rule, f"unlisted-caller:{b.deff}",
                            f"{b.deff} parses an operand but is not in the documented table", t["span"]["s"])


# ---------------------------------------------------------------------------
def field_terms(o, s, name):
    rv = s["rv"]
    fn = rv.get("fnames", [])
    if name not in fn:
        return None
    return o.of_operand(rv["ops"][fn.index(name)])


def is_call_to(terms, *names):
    return bool(terms) and all(t[0] == "call" and t[1] in names for t in terms)


def is_agg(terms, variant):
    return bool(terms) and all(t[0] == "agg" and t[1] == f"{AST}::{variant}" for t in terms)


def agg_field(term, name):
    fn = term[3]
    if name in fn:
        return set(term[2][fn.index(name)])
    return None


TOP_LEVEL = {
    "parse_index": {"Index", "Projection"}, "parse_flatten": {"Projection"}, "parse_filter": {"Projection"},
    "parse_wildcard_index": {"Projection"}, "parse_wildcard_values": {"Projection"}, "parse_comparator": {"Comparison"},
    "parse_multi_list": {"MultiList"},
}


def check_top_level(ctx, lib, rule="node-vocabulary"):
    """The node kinds a routine can *return* (Slice, Flatten, ObjectValues and Condition only ever occur
    wrapped in a Projection, which is what makes them projections)."""
    from .. import rettags as RT
    for fn, allowed in TOP_LEVEL.items():
        b = ctx.fn(P + fn, rule=rule)
        if b is None:
            continue
        o = Origins(b, lib)
        oks, opaque = RT.ok_values(b)
        got = set()
        for blk, op in oks:
            for t in o.of_operand(op):
                if t[0] == "agg" and t[1].startswith(AST + "::"):
                    got.add(t[1].split("::")[-1])
                else:
                    got.add("?" + fmt_terms([t])[:50])
        ctx.check(got == allowed and not opaque, rule, f"{fn}:returns", f"{fn} returns exactly the node kinds {sorted(allowed)} (found {sorted(got)})", b.span)


def check_arm_results(ctx, lib, rule="node-vocabulary"):
    """What nud / led hand back: in every token arm each Ok value is a node built in that arm or the
    result of a parser routine called in it — never the left operand itself, a part of it, or a folded constant."""
    from .. import rettags as RT
    n = 0
    for fn in ("led", "nud"):
        b = ctx.fn(P + fn, rule=rule)
        if b is None:
            continue
        from ..parsing import KindDispatch
        kd = KindDispatch(lib, b)
        if kd.first_consume is None:
            ctx.missing(rule, f"{fn}:results", f"{fn} does not dispatch on the consumed token")
            continue
        oks, opaque = RT.ok_values(b)
        covered = set()
        for variant in sorted(K for K in ALL_TOKENS if kd.accepts(K)):
            blocks = kd.region(variant)
            o = kd.origins(variant)
            bad = []
            cnt = 0
            for ob, op in oks:
                if ob not in blocks:
                    continue
                covered.add(ob)
                cnt += 1
                for t in o.of_operand(op):
                    if t[0] == "agg" and t[1].startswith(AST + "::"):
                        continue
                    if t[0] == "call" and t[1].startswith(P):
                        continue
                    bad.append(fmt_terms([t])[:60])
            for ob, t in opaque:
                if ob in blocks:
                    covered.add(ob)
                    if isinstance(t, dict) and t.get("callee", "").startswith(P):
                        cnt += 1
                    else:
                        bad.append("opaque:" + str(t.get("callee") if isinstance(t, dict) else t)[:50])
            n += 1
            ctx.check(not bad, rule, f"{fn}:{variant}:result",
                      f"{fn}/{variant}: every Ok value is a node built in this arm or a sub-parser's result ({cnt} result sites{'; found ' + ', '.join(bad) if bad else ''})", b.span)
        stray = [ob for ob, _ in oks if ob not in covered] + [ob for ob, _ in opaque if ob not in covered]
        ctx.check(not stray, rule, f"{fn}:results-in-arms", f"{fn}: every result is produced inside a token arm ({len(stray)} outside)", b.span)
    ctx.floor(rule, n, 20, "nud/led arm result rows")


def check_nodes(ctx, lib):
    rule = "node-vocabulary"
    n = 0
    check_top_level(ctx, lib, rule)
    ctx.attempt("check_arm_results", check_arm_results, ctx, lib, rule)

    def body_aggs(fn):
        b = ctx.fn(P + fn, rule=rule)
        if b is None:
            return None, None, []
        o = Origins(b, lib)
        return b, o, [s for _, _, s in region_aggs(b, b.reachable(), AST)]

    def expect_variants(fn, b, aggs, allowed):
        got = sorted({s["rv"]["variant"] for s in aggs})
        ctx.check(set(got) == set(allowed), rule, f"{fn}:variants",
                  f"{fn} builds exactly the node kinds {sorted(allowed)} (found {got})", b.span)

    # parse_comparator
    b, o, aggs = body_aggs("parse_comparator")
    if b:
        expect_variants("parse_comparator", b, aggs, ["Comparison"])
        for s in aggs:
            if s["rv"]["variant"] == "Comparison":
                n += 1
                ok = (field_terms(o, s, "comparator") == {("param", 2)} and field_terms(o, s, "lhs") == {("param", 3)}
                      and is_call_to(field_terms(o, s, "rhs"), P + "expr"))
                ctx.check(ok, rule, "parse_comparator:Comparison", "Comparison{comparator: given, lhs: left operand, rhs: freshly parsed operand}", b.span)
    # parse_flatten
    b, o, aggs = body_aggs("parse_flatten")
    if b:
        expect_variants("parse_flatten", b, aggs, ["Projection", "Flatten"])
        for s in aggs:
            if s["rv"]["variant"] == "Projection":
                n += 1
                lhs = field_terms(o, s, "lhs")
                ok = is_agg(lhs, "Flatten") and all(agg_field(t, "node") == {("param", 2)} for t in lhs) \
                    and is_call_to(field_terms(o, s, "rhs"), P + "projection_rhs")
                ctx.check(ok, rule, "parse_flatten:Projection", "Projection{lhs: Flatten{node: left operand}, rhs: projection_rhs()}", b.span)
    # parse_filter
    b, o, aggs = body_aggs("parse_filter")
    if b:
        expect_variants("parse_filter", b, aggs, ["Projection", "Condition"])
        for s in aggs:
            if s["rv"]["variant"] == "Projection":
                n += 1
                rhs = field_terms(o, s, "rhs")
                ok = field_terms(o, s, "lhs") == {("param", 2)} and is_agg(rhs, "Condition") and all(
                    is_call_to(agg_field(t, "predicate"), P + "expr") and is_call_to(agg_field(t, "then"), P + "projection_rhs")
                    for t in rhs)
                ctx.check(ok, rule, "parse_filter:Projection",
                          "Projection{lhs: left operand, rhs: Condition{predicate: expr(0), then: projection_rhs()}}", b.span)
    # wildcard index / values
    b, o, aggs = body_aggs("parse_wildcard_index")
    if b:
        expect_variants("parse_wildcard_index", b, aggs, ["Projection"])
        for s in aggs:
            n += 1
            ok = field_terms(o, s, "lhs") == {("param", 2)} and is_call_to(field_terms(o, s, "rhs"), P + "projection_rhs")
            ctx.check(ok, rule, "parse_wildcard_index:Projection", "Projection{lhs: left operand, rhs: projection_rhs()}", b.span)
    b, o, aggs = body_aggs("parse_wildcard_values")
    if b:
        expect_variants("parse_wildcard_values", b, aggs, ["Projection", "ObjectValues"])
        for s in aggs:
            if s["rv"]["variant"] == "Projection":
                n += 1
                lhs = field_terms(o, s, "lhs")
                ok = is_agg(lhs, "ObjectValues") and all(agg_field(t, "node") == {("param", 2)} for t in lhs) \
                    and is_call_to(field_terms(o, s, "rhs"), P + "projection_rhs")
                ctx.check(ok, rule, "parse_wildcard_values:Projection", "Projection{lhs: ObjectValues{node: left operand}, rhs: projection_rhs()}", b.span)
    # parse_index
    b, o, aggs = body_aggs("parse_index")
    if b:
        expect_variants("parse_index", b, aggs, ["Index", "Projection", "Slice"])
        for s in aggs:
            if s["rv"]["variant"] == "Projection":
                n += 1
                lhs = field_terms(o, s, "lhs")
                ok = is_agg(lhs, "Slice") and is_call_to(field_terms(o, s, "rhs"), P + "projection_rhs")
                ctx.check(ok, rule, "parse_index:Projection", "a slice is the lhs of a Projection whose rhs is projection_rhs()", b.span)
    # multi list
    b, o, aggs = body_aggs("parse_multi_list")
    if b:
        expect_variants("parse_multi_list", b, aggs, ["MultiList"])
        for s in aggs:
            n += 1
            ctx.check(is_call_to(field_terms(o, s, "elements"), P + "parse_list"), rule, "parse_multi_list:MultiList",
                      "MultiList{elements: parse_list(Rbracket)}", b.span)

    # led — examined per kind of the consumed token (parsing.KindDispatch): the blocks that run for that kind, with the
    # provenance along them
    from ..parsing import KindDispatch
    b = ctx.fn(P + "led", rule=rule)
    if b:
        kd = KindDispatch(lib, b)
        if True:
            handled = {K for K in ALL_TOKENS if kd.accepts(K)}
            want = {"Dot", "Lbracket", "Or", "And", "Pipe", "Lparen", "Flatten", "Filter"} | set(CMP)
            ctx.check(handled == want, rule, "led:kinds", f"led handles exactly the infix/postfix kinds (found {sorted(handled)})", b.span)
            left = {("param", 2)}

            def arm_only(variant):
                return kd.region(variant)

            class _PerKind:
                """`o` of the arm currently examined."""
                cur = None

                def of_operand(self, op):
                    return kd.origins(self.cur).of_operand(op)

                def of_local(self, l):
                    return kd.origins(self.cur).of_local(l)
            o = _PerKind()
            _arm_only = arm_only

            def arm_only(variant):
                o.cur = variant
                return _arm_only(variant)

            binaries = {"Or": "Or", "And": "And", "Pipe": "Subexpr"}
            for tok, node in binaries.items():
                blocks = arm_only(tok)
                aggs = [s for _, _, s in region_aggs(b, blocks, AST)]
                ok = len(aggs) == 1 and aggs[0]["rv"]["variant"] == node and \
                    field_terms(o, aggs[0], "lhs") == left and is_call_to(field_terms(o, aggs[0], "rhs"), P + "expr")
                n += 1
                ctx.check(ok, rule, f"led:{tok}", f"{tok} builds {node}{{lhs: left operand, rhs: expr(own power)}}", b.span)
            # Dot
            blocks = arm_only("Dot")
            aggs = [s for _, _, s in region_aggs(b, blocks, AST)]
            ok = len(aggs) == 1 and aggs[0]["rv"]["variant"] == "Subexpr" and field_terms(o, aggs[0], "lhs") == left \
                and is_call_to(field_terms(o, aggs[0], "rhs"), P + "parse_dot")
            n += 1
            ctx.check(ok, rule, "led:Dot", "Dot builds Subexpr{lhs: left operand, rhs: parse_dot(own power)}", b.span)
            wv = [t for bb, t in region_calls(b, blocks) if t["callee"] == P + "parse_wildcard_values"]
            ok = len(wv) == 1 and o.of_operand(wv[0]["args"][1]) == left
            ctx.check(ok, rule, "led:Dot-Star", "`.*` hands the left operand to parse_wildcard_values", b.span)
            # Lbracket
            blocks = arm_only("Lbracket")
            aggs = [s for _, _, s in region_aggs(b, blocks, AST)]
            ok = len(aggs) == 1 and aggs[0]["rv"]["variant"] == "Subexpr" and field_terms(o, aggs[0], "lhs") == left \
                and is_call_to(field_terms(o, aggs[0], "rhs"), P + "parse_index")
            n += 1
            ctx.check(ok, rule, "led:Lbracket-index", "`[n]`/`[a:b]` builds Subexpr{lhs: left operand, rhs: parse_index()}", b.span)
            wi = [t for bb, t in region_calls(b, blocks) if t["callee"] == P + "parse_wildcard_index"]
            ok = len(wi) == 1 and o.of_operand(wi[0]["args"][1]) == left
            ctx.check(ok, rule, "led:Lbracket-star", "`[*]` hands the left operand to parse_wildcard_index", b.span)
            # Flatten / Filter
            for tok, fn in (("Flatten", "parse_flatten"), ("Filter", "parse_filter")):
                blocks = arm_only(tok)
                cs = [t for bb, t in region_calls(b, blocks) if t["callee"].startswith(P)]
                ok = len(cs) == 1 and cs[0]["callee"] == P + fn and o.of_operand(cs[0]["args"][1]) == left
                n += 1
                ctx.check(ok, rule, f"led:{tok}", f"{tok} delegates to {fn}(left operand)", b.span)
            # comparators
            cmpmap = {"Eq": "Equal", "Ne": "NotEqual", "Gt": "GreaterThan", "Gte": "GreaterThanEqual",
                      "Lt": "LessThan", "Lte": "LessThanEqual"}
            for tok, cname in cmpmap.items():
                blocks = arm_only(tok)
                cs = [t for bb, t in region_calls(b, blocks) if t["callee"].startswith(P)]
                ok = len(cs) == 1 and cs[0]["callee"] == P + "parse_comparator" and o.of_operand(cs[0]["args"][2]) == left
                if ok:
                    ct = o.of_operand(cs[0]["args"][1])
                    ok = ct == {("agg", f"ast::Comparator::{cname}", (), ())}
                n += 1
                ctx.check(ok, rule, f"led:{tok}", f"{tok} delegates to parse_comparator(Comparator::{cname}, left operand)", b.span)
            # Lparen -> Function{name: left.Field.name, args: parse_list(Rparen)}
            blocks = arm_only("Lparen")
            aggs = [s for _, _, s in region_aggs(b, blocks, AST)]
            ok = len(aggs) == 1 and aggs[0]["rv"]["variant"] == "Function"
            if ok:
                nm = field_terms(o, aggs[0], "name")
                ok = all(t[0] == "field" and t[2] == "Field.name" and term_root_is_left(t) for t in nm) and \
                    is_call_to(field_terms(o, aggs[0], "args"), P + "parse_list")
            n += 1
            ctx.check(ok, rule, "led:Lparen", "`(` builds Function{name: the Field name on the left, args: parse_list(Rparen)}", b.span)
    # nud — likewise per kind of the consumed token
    b = ctx.fn(P + "nud", rule=rule)
    if b:
        kd = KindDispatch(lib, b)
        if True:
            class _PerKindN:
                cur = None

                def of_operand(self, op):
                    return kd.origins(self.cur).of_operand(op)

                def of_local(self, l):
                    return kd.origins(self.cur).of_local(l)
            o = _PerKindN()

            def arm_only(variant):
                o.cur = variant
                return kd.region(variant)

            def tokpay_ok(terms, v):
                # the payload of the consumed token itself
                return bool(terms) and all(t[0] == "field" and t[2] == f"{v}.0" and kd.consumed(t[1]) for t in terms)
            rows = [
                ("At", "Identity", None),
                ("Identifier", "Field", ("name", "Identifier")),
                ("QuotedIdentifier", "Field", ("name", "QuotedIdentifier")),
                ("Literal", "Literal", ("value", "Literal")),
            ]
            for tok, node, pay in rows:
                blocks = arm_only(tok)
                aggs = [s for _, _, s in region_aggs(b, blocks, AST)]
                ok = len(aggs) == 1 and aggs[0]["rv"]["variant"] == node
                if ok and pay:
                    ok = tokpay_ok(field_terms(o, aggs[0], pay[0]), pay[1])
                n += 1
                ctx.check(ok, rule, f"nud:{tok}", f"{tok} builds {node} carrying the token's own payload", b.span)
            for tok, node, fld in (("Ampersand", "Expref", "ast"), ("Not", "Not", "node")):
                blocks = arm_only(tok)
                aggs = [s for _, _, s in region_aggs(b, blocks, AST)]
                ok = len(aggs) == 1 and aggs[0]["rv"]["variant"] == node and is_call_to(field_terms(o, aggs[0], fld), P + "expr")
                n += 1
                ctx.check(ok, rule, f"nud:{tok}", f"{tok} builds {node}{{{fld}: expr(own power)}}", b.span)
            for tok, fn in (("Star", "parse_wildcard_values"), ("Flatten", "parse_flatten"), ("Filter", "parse_filter")):
                blocks = arm_only(tok)
                cs = [t for bb, t in region_calls(b, blocks) if t["callee"].startswith(P)]
                ok = len(cs) == 1 and cs[0]["callee"] == P + fn and is_agg(o.of_operand(cs[0]["args"][1]), "Identity")
                n += 1
                ctx.check(ok, rule, f"nud:{tok}", f"prefix {tok} delegates to {fn}(Identity)", b.span)
            # Lparen: returns the inner expression unchanged
            blocks = arm_only("Lparen")
            aggs = [s for _, _, s in region_aggs(b, blocks, AST)]
            # (an inlined `expect(..)` helper's own `Ok(())` is not a result of the arm)
            oks = [s for _, _, s in region_aggs(b, blocks, "std::result::Result") if s["rv"]["variant"] == "Ok" and "ast::Ast" in str(s["place"].get("ty", "ast::Ast"))]
            ok = not aggs and len(oks) == 1 and is_call_to(o.of_operand(oks[0]["rv"]["ops"][0]), P + "expr")
            n += 1
            ctx.check(ok, rule, "nud:Lparen", "a parenthesised expression yields the inner node itself (no wrapper node, no projection_rhs)", b.span)
            pr = [t for bb, t in region_calls(b, blocks) if t["callee"] == P + "projection_rhs"]
            ctx.check(not pr, rule, "nud:Lparen-ends-projection", "a parenthesised expression is not continued by projection_rhs", b.span)
    ctx.floor(rule, n, 30, "node-construction rows checked")


def term_root_is_left(t):
    while t[0] == "field":
        t = t[1]
    return t == ("param", 2)
