"""C16 — with the sync feature, compiled expressions are safely shareable across threads."""
import re

from .. import crossconfig as cc
from ..build import read_manifests
from ..effects import check_effects
from ..witness import run_witnesses

LEVEL = "proof"
CONFIGS_QUICK = ["default", "sync"]
CONFIGS_THOROUGH = ["default", "sync", "specialized", "sync+specialized"]

HANDLES_CONFIGS = True

EXPLANATION = (
    "Send + Sync of the public value types is decided by rustc's trait solver on generated witness programs "
    "(cargo check only; nothing is executed): the positive witness instantiates need::<T: Send + Sync>() for "
    "Expression, Runtime, Variable, Rcvar, Ast, JmespathError, Box<dyn Function>, the DEFAULT_RUNTIME handle and every "
    "public struct of jmespath::functions discovered in the sync fact file, and must type-check with feature sync; "
    "negative twins (same program, default features, and an Rc control under sync) must fail with E0277, which shows the "
    "witness discriminates. Structural rules then show the guarantee is not forged (no unsafe impl Send/Sync, no unsafe "
    "at all), that shared data is immutable and calls are pure under the sync configuration (the C13 effect analysis on "
    "the sync fact file), that every MIR body of the sync build equals its default twin modulo Rc<->Arc, and that the "
    "default runtime is initialised through lazy_static's std::sync::Once path by a closure that only builds the registry."
)
ASSUMPTIONS = [
    "Rust's safety guarantee: Send+Sync types without unsafe code or interior mutability cannot race",
    "std's auto-trait impls for Arc, BTreeMap, Vec, String, HashMap, Box; lazy_static (std::sync::Once) initialises once",
]

REQUIRED = [
    "jmespath::Expression<'static>",
    "jmespath::Runtime",
    "jmespath::Variable",
    "jmespath::Rcvar",
    "jmespath::ast::Ast",
    "jmespath::ast::KeyValuePair",
    "jmespath::ast::Comparator",
    "jmespath::JmespathError",
    "jmespath::ErrorReason",
    "jmespath::RuntimeError",
    "Box<dyn jmespath::functions::Function>",
    "jmespath::DEFAULT_RUNTIME",
    "&'static jmespath::Runtime",
    "Vec<jmespath::Rcvar>",
]


def witness_types(lib):
    tys = list(REQUIRED)
    for path, adt in sorted(lib.adts.items()):
        if path.startswith("functions::") and adt["kind"] == "struct":
            tys.append("jmespath::" + path)
        if path.startswith("functions::") and adt["kind"] == "enum":
            tys.append("jmespath::" + path)
    return tys


def run(ctx):
    sync = ctx.lib("sync")
    dflt = ctx.lib("default")
    tys = witness_types(sync)
    ctx.floor("send-sync", len(tys), 40, "types in the positive witness")
    pos_body = "fn main() {\n" + "".join(f"    need::<{t}>();\n" for t in tys) + \
        "    fn shared<'a>(e: &'a jmespath::Expression<'a>) { need_sync::<jmespath::Expression<'a>>(); let _ = e; }\n}\n"
    programs = [{"name": "pos_sync", "body": pos_body, "features": ["sync"]}]
    neg_types = ["jmespath::Rcvar", "jmespath::Variable", "jmespath::Expression<'static>", "jmespath::ast::Ast"]
    for i, t in enumerate(neg_types):
        programs.append({"name": f"neg_default_{i}", "body": f"fn main() {{ need::<{t}>(); }}\n", "features": []})
        programs.append({"name": f"twin_sync_{i}", "body": f"fn main() {{ need::<{t}>(); }}\n", "features": ["sync"]})
    programs.append({"name": "neg_sync_rc_control", "body": "fn main() { need::<std::rc::Rc<jmespath::Variable>>(); }\n", "features": ["sync"]})
    res = run_witnesses(programs)
    r = res["pos_sync"]
    if r["ok"]:
        for t in tys:
            ctx.ok("send-sync", t, f"{t}: Send + Sync type-checks with feature sync")
    else:
        # find which types fail: re-run individually
        singles = [{"name": f"single_{i}", "body": f"fn main() {{ need::<{t}>(); }}\n", "features": ["sync"]} for i, t in enumerate(tys)]
        sres = run_witnesses(singles)
        for i, t in enumerate(tys):
            sr = sres[f"single_{i}"]
            ctx.check(sr["ok"], "send-sync", t, f"{t}: Send + Sync with feature sync" + ("" if sr["ok"] else f" — {sr['codes']} {sr['messages'][:1]}"))
    for i, t in enumerate(neg_types):
        n = res[f"neg_default_{i}"]
        tw = res[f"twin_sync_{i}"]
        ctx.check((not n["ok"]) and "E0277" in n["codes"], "witness-discriminates", f"default:{t}",
                  f"without sync, need::<{t}>() is rejected with E0277 (got ok={n['ok']} codes={n['codes']})")
        ctx.check(tw["ok"], "witness-discriminates", f"twin:{t}", f"the same program compiles with feature sync (codes={tw['codes']})")
    n = res["neg_sync_rc_control"]
    ctx.check((not n["ok"]) and "E0277" in n["codes"], "witness-discriminates", "sync:Rc-control",
              "under sync an Rc<Variable> is still rejected (the witness is not vacuous)")
    ctx.analysed["witness_cmds"] = [res[k]["cmd"] for k in sorted(res)][:4]
    ctx.analysed["witness_types"] = len(tys)

    # the alias is what carries the guarantee
    al_s = sync.type_aliases.get("Rcvar", {}).get("ty")
    al_d = dflt.type_aliases.get("Rcvar", {}).get("ty")
    ctx.check(al_s == "std::sync::Arc<variable::Variable>", "alias", "sync", f"Rcvar = Arc<Variable> under sync (found {al_s})")
    ctx.check(al_d == "std::rc::Rc<variable::Variable>", "alias", "default", f"Rcvar = Rc<Variable> by default (found {al_d})")

    # Function: Sync + Send supertraits
    tr = sync.traits.get("functions::Function")
    if tr is None:
        ctx.missing("function-bounds", "trait", "functions::Function")
    else:
        sup = set(tr["supers"])
        ctx.check({"std::marker::Sync", "std::marker::Send"} <= sup, "function-bounds", "Function: Sync + Send",
                  f"trait Function requires Sync + Send (supertraits: {sorted(sup)})")
    cf = sync.adts.get("functions::CustomFunction")
    if cf is None:
        ctx.missing("function-bounds", "CustomFunction", "functions::CustomFunction")
    else:
        fty = [f["ty"] for f in cf["variants"][0]["fields"] if f["name"] == "f"]
        ok = bool(fty) and "std::marker::Send" in fty[0] and "std::marker::Sync" in fty[0]
        ctx.check(ok, "function-bounds", "CustomFunction.f", "CustomFunction stores a Send + Sync closure")

    # not forged
    for cfg in ("sync", "default"):
        f = ctx.lib(cfg)
        forged = [i for i in f.impls if i.get("trait") in ("std::marker::Send", "std::marker::Sync") and i.get("polarity") != "Negative"]
        for i in forged:
            ctx.bad("not-forged", f"{cfg}:{i['trait_ref']}", f"explicit impl {i['trait_ref']} (Send/Sync must come from the field types)", i["span"]["s"])
        ctx.check(not forged, "not-forged", f"{cfg}:inventory", f"[{cfg}] no explicit impl of Send/Sync among {len(f.impls)} impls")

    # purity + immutability on the sync fact file
    ctx.analysed["sync_effects"] = check_effects(ctx, sync, "sync", prefix="sync/")

    # every body equals its default twin modulo Rc<->Arc
    r = cc.compare(dflt, sync)
    ctx.analysed["bodies_compared"] = r["same"] + len(r["differing"])
    ctx.floor("same-program", r["same"], 380, "bodies identical in default and sync modulo Rc<->Arc")
    ia, ib = cc.index_bodies(dflt), cc.index_bodies(sync)
    for k in r["differing"]:
        ctx.bad("same-program", f"differs:{k[0]}", f"body {k[0]} differs between default and sync: {cc.first_difference(ia[k], ib[k])[:300]}", ia[k].span)
    for k in r["only_a"] + r["only_b"]:
        ctx.bad("same-program", f"only-one-config:{k[0]}", f"body {k[0]} exists in only one of default/sync")
    for x in r["rerouted"]:
        ctx.bad("same-program", f"rerouted:{x[0][0]}", f"call {x[2]} in {x[0][0]} resolves differently: {x[4]} vs {x[5]}")
    ctx.check(not (r["differing"] or r["only_a"] or r["only_b"] or r["rerouted"]), "same-program", "summary",
              f"{r['same']} bodies identical modulo Rc<->Arc")

    # default runtime: once-initialised
    check_lazy(ctx, sync)


def check_lazy(ctx, lib):
    rule = "default-runtime-once"
    st = lib.fn("<DEFAULT_RUNTIME as std::ops::Deref>::deref::__stability")
    init = lib.fn("<DEFAULT_RUNTIME as std::ops::Deref>::deref::__static_ref_initialize")
    if st is None or init is None:
        ctx.missing(rule, "lazy_static-shape", "DEFAULT_RUNTIME is not the lazy_static!-generated wrapper (deref::__stability / __static_ref_initialize missing)")
        return
    calls = [t for _, t in st.calls()]
    ok = len(calls) == 1 and calls[0]["callee"] == "lazy_static::lazy::Lazy::<T>::get" and \
        any(a.get("fn") == init.deff for a in calls[0]["args"])
    ctx.check(ok, rule, "lazy-get", "DEFAULT_RUNTIME derefs through lazy_static::lazy::Lazy::get(initializer)", st.span)
    names = [t["callee"] for _, t in init.calls()]
    ok = names == ["runtime::Runtime::new", "runtime::Runtime::register_builtin_functions"]
    ctx.check(ok, rule, "initializer", f"the initializer only builds the registry (calls {names})", init.span)
    libm, _ = read_manifests()
    dep = libm.get("dependencies", {}).get("lazy_static")
    feats = dep.get("features", []) if isinstance(dep, dict) else []
    ctx.check("spin_no_std" not in feats, rule, "std-once", f"lazy_static is used with its std (std::sync::Once) implementation (features {feats})")
    lz = [s for s in lib.statics if s["path"].endswith("::LAZY")]
    ctx.check(len(lz) == 1 and lz[0]["ty"] == "lazy_static::lazy::Lazy<runtime::Runtime>" and not lz[0]["mut"], rule, "cell",
              "the backing cell is lazy_static::lazy::Lazy<Runtime>, not static mut")
    cm = lib.fn("compile")
    if cm is None:
        ctx.missing(rule, "compile", "fn compile")
    else:
        names = [t.get("resolved") or t["callee"] for _, t in cm.calls()]
        ok = "<DEFAULT_RUNTIME as std::ops::Deref>::deref" in names and "runtime::Runtime::compile" in names and len(names) == 2
        ctx.check(ok, rule, "compile-uses-default", f"compile() = DEFAULT_RUNTIME.compile(expression) (calls {names})", cm.span)


def coverage_extra(ctx):
    n = len(ctx.instances)
    return {
        "checker_cmd": "cargo check --offline --message-format=json --bin <witness> [--features sync]  (in /verif/.work/witness, generated per run) + ./verif check C16",
        "trusted_base": [
            "rustc trait solver / auto-trait inference",
            "std auto-trait impls (Arc<T>: Send+Sync iff T: Send+Sync; Rc<T>: !Send)",
            "Rust memory-safety guarantee for safe code",
            "lazy_static + std::sync::Once",
            "rule library in /verif/vlib",
        ],
    }
