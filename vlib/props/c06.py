"""C06 — built-in functions enforce their signatures: arity and argument types."""
import re

from .. import builtins as B
from .. import rettags as RT
from ..analysis import (Branches, CallGraph, Origins, cfg_cycles, edge_dominates, edges_dominate, fmt_terms, reach_avoiding, success_edge,
                        region_always_errs, term_mentions)
from ..decision import Undecided, Walker
from ..leaf import KINDS, check_accessors, kind_walker

EXPLANATION = (
    "The signature contract is decided as (a) a table comparison and (b) dominance facts. (a) For each entry of "
    "Runtime::register_builtin_functions (string literal -> constructed type) the Signature term built in that type's "
    "`new` is extracted from MIR (vec!/Union/TypedArray/Option constructors, macro spelling irrelevant), normalised and "
    "compared with the JMESPath function specification table (26 rows). (b) In every Function::evaluate of a type that "
    "owns a Signature, validate(self.signature, args, ctx)? dominates every other call and every Ok return. The arity "
    "decision (validate_arity) is walked under all 6 orderings of (variadic?, actual vs expected); ArgumentType::is_valid "
    "and the Variable accessors are walked under all 7 value kinds; per-position validation, the InvalidType payload, the "
    "construction sites of each RuntimeError kind (who-may-construct), the per-element type test of the by-functions, "
    "the unknown-function branch of the interpreter and the declared result kind of every builtin (return-tag analysis "
    "with refinement by dominating kind tests) are checked structurally."
)
ASSUMPTIONS = [
    "the specification table in vlib/props/c06.py transcribes the JMESPath function specification",
    "`any` admits every value incl. expression references (as the implementation defines it); a union of the six JSON kinds is accepted where the specification says `any`",
    "to_string is the exception: its result is the JSON encoding of its argument, which an expression reference does not have ('expression references where values are required'), so its parameter must be the six JSON kinds and not `any`",
]

any_ = "any"
value_ = "any JSON value"   # the six JSON kinds, not an expression reference
fs = frozenset
NUM, STR, OBJ, ARR, EXP = fs({"number"}), fs({"string"}), fs({"object"}), fs({"array"}), fs({"expref"})
ARR_NUM = fs({("array", NUM)})
ARR_STR = fs({("array", STR)})
SPEC = {
    "abs": ([NUM], None), "avg": ([ARR_NUM], None), "ceil": ([NUM], None),
    "contains": ([fs({"array", "string"}), any_], None), "ends_with": ([STR, STR], None), "floor": ([NUM], None),
    "join": ([STR, ARR_STR], None), "keys": ([OBJ], None), "length": ([fs({"string", "array", "object"})], None),
    "map": ([EXP, ARR], None), "max": ([ARR_NUM | ARR_STR], None), "min": ([ARR_NUM | ARR_STR], None),
    "max_by": ([ARR, EXP], None), "min_by": ([ARR, EXP], None), "sort_by": ([ARR, EXP], None),
    "merge": ([OBJ], OBJ), "not_null": ([any_], any_), "reverse": ([fs({"string", "array"})], None),
    "sort": ([ARR_NUM | ARR_STR], None), "starts_with": ([STR, STR], None), "sum": ([ARR_NUM], None),
    "to_array": ([any_], None), "to_number": ([any_], None), "to_string": ([value_], None), "type": ([any_], None),
    "values": ([OBJ], None),
}
ANY_EQUIV = [any_, B.JSON6]

# declared result kinds (JMESPath function specification)
RESULT = {
    "abs": {"Number"}, "avg": {"Number", "Null"}, "ceil": {"Number"}, "contains": {"Bool"}, "ends_with": {"Bool"},
    "floor": {"Number"}, "join": {"String"}, "keys": {"Array"}, "length": {"Number"}, "map": {"Array"},
    "max": {"Number", "String", "Null"}, "min": {"Number", "String", "Null"}, "max_by": None, "min_by": None,
    "merge": {"Object"}, "not_null": None, "reverse": {"Array", "String"}, "sort": {"Array"}, "sort_by": {"Array"},
    "starts_with": {"Bool"}, "sum": {"Number"}, "to_array": {"Array"}, "to_number": {"Number", "Null"},
    "to_string": {"String"}, "type": {"String"}, "values": {"Array"},
}


def eq_type(found, spec):
    if spec == any_:
        return found in ANY_EQUIV
    if spec == value_:
        return found == B.JSON6
    return found == spec


def run(ctx):
    lib = ctx.lib()
    reg, problems = B.registry(lib)
    if reg is None:
        ctx.missing("registry", "register_builtin_functions", problems[0])
        return
    for p in problems:
        ctx.bad("registry", f"shape:{p[:40]}", f"register_builtin_functions: {p}")
    names = [r[0] for r in reg]
    ctx.check(sorted(names) == sorted(SPEC), "registry", "names",
              f"exactly the 26 specified builtins are registered (missing {sorted(set(SPEC)-set(names))}, extra {sorted(set(names)-set(SPEC))}, duplicates {sorted({n for n in names if names.count(n)>1})})")
    tys = [r[1] for r in reg]
    ctx.check(len(set(tys)) == len(tys), "registry", "distinct-impls", "each name is bound to a distinct implementation type")
    sigs = {}
    for nm, ty, blk in reg:
        if nm not in SPEC:
            continue
        try:
            inputs, variadic = B.signature_of(lib, ty)
        except B.SigError as e:
            ctx.bad("sig-table", nm, f"{nm}: signature of {ty} cannot be extracted: {e}")
            continue
        sigs[nm] = (ty, inputs, variadic)
        sin, svar = SPEC[nm]
        ok = len(inputs) == len(sin) and all(eq_type(a, b) for a, b in zip(inputs, sin)) and \
            ((variadic is None and svar is None) or (variadic is not None and svar is not None and eq_type(variadic, svar)))
        ctx.check(ok, "sig-table", nm,
                  f"{nm}({', '.join(B.show(x) for x in inputs)}{', *' + B.show(variadic) if variadic is not None else ''}) "
                  f"equals the specified {nm}({', '.join(B.show(x) for x in sin)}{', *' + B.show(svar) if svar is not None else ''})")
    ctx.floor("sig-table", len(sigs), 26, "builtin signatures extracted")
    ctx.analysed["signatures"] = {k: [[B.show(x) for x in v[1]], B.show(v[2]) if v[2] is not None else None] for k, v in sigs.items()}

    ctx.attempt("check_validate_first", check_validate_first, ctx, lib, sigs)
    ctx.attempt("check_arity", check_arity, ctx, lib)
    ctx.attempt("check_positions", check_positions, ctx, lib)
    ctx.attempt("check_is_valid", check_is_valid, ctx, lib)
    n = check_accessors(ctx, lib, "accessor-table")
    ctx.floor("accessor-table", n, 100, "accessor/predicate decision paths walked")
    ctx.attempt("check_provenance", check_provenance, ctx, lib)
    ctx.attempt("check_by_functions", check_by_functions, ctx, lib)
    ctx.attempt("check_unknown_function", check_unknown_function, ctx, lib)
    ctx.attempt("check_result_types", check_result_types, ctx, lib, sigs)
    # an argument declared `expref` is the reference the caller wrote only if `&` takes the whole expression after it as its
    # operand (`&a || b` is a reference to `a || b`, not `(&a) || b`): the order relations of the binding-power table and the
    # operand powers (shared with C04)
    from ..parsing import lbp_table
    from .c04 import check_lbp_relations, check_operands
    table, why = lbp_table(lib)
    if table is None:
        ctx.missing("lbp-table", "Token::lbp", why)
    else:
        ctx.attempt("check_lbp_relations", check_lbp_relations, ctx, table)
        ctx.attempt("check_operands", check_operands, ctx, lib, table)


# ---------------------------------------------------------------------------------------------
def owners_of_signature(lib):
    out = []
    for path, adt in lib.adts.items():
        if adt["kind"] == "struct" and any(f["ty"] == "functions::Signature" for f in adt["variants"][0]["fields"]):
            out.append(path)
    return sorted(out)


def check_validate_first(ctx, lib, sigs):
    rule = "validate-first"
    owners = owners_of_signature(lib)
    n = 0
    for ty in owners:
        b = B.evaluate_body(lib, ty)
        if b is None:
            ctx.bad(rule, ty, f"{ty} owns a Signature but has no Function::evaluate impl")
            continue
        n += 1
        o = Origins(b, lib)
        vcalls = [(bb, t) for bb, t in b.calls() if t["callee"] == "functions::Signature::validate"]
        if len(vcalls) != 1:
            ctx.bad(rule, ty, f"{ty}::evaluate calls Signature::validate {len(vcalls)} times (expected exactly once, first)", b.span)
            continue
        vb, vt = vcalls[0]
        a0, a1, a2 = (o.of_operand(x) for x in vt["args"])
        args_ok = a0 == {("field", ("param", 1), "signature")} and a1 == {("param", 2)} and a2 == {("param", 3)}
        # the validation's success edge: `validate(..)?` or a match on its result whose Err arm returns the error
        se = success_edge(b, o, Branches(b, o), lambda ts: all(x[0] == "call" and x[1] == "functions::Signature::validate" for x in ts))
        cont_edge = (se[0], se[1]) if se else None
        if se:
            # the failing side returns exactly the validation error, nothing else happens there
            freg = {x for x in reach_avoiding(b, se[2]) if edge_dominates(b, (se[0], se[2]), x)}
            for x in freg:
                tx = b.blocks[x]["term"]
                if tx["k"] == "call" and tx["callee"] not in ("std::ops::FromResidual::from_residual",) and not tx["callee"].startswith("std::convert::"):
                    cont_edge = None
        if cont_edge is None:
            ctx.bad(rule, ty, f"{ty}::evaluate does not propagate the validation error with `?`", b.span)
            continue
        bad_sites = []
        for bb, t in b.calls():
            if bb == vb:
                continue
            c = t["callee"]
            if (c in ("std::ops::Try::branch", "std::ops::FromResidual::from_residual") or c.startswith("std::convert::")) and not edge_dominates(b, cont_edge, bb):
                continue
            if not edge_dominates(b, cont_edge, bb):
                # calls before validate may only be derefs of self.signature
                if c == "std::ops::Deref::deref" and b.dominates(bb, vb):
                    continue
                bad_sites.append((bb, c))
        # every Ok aggregate is behind the Continue edge
        oks, opaque = RT.ok_values(b)
        for blk, _ in oks:
            if not edge_dominates(b, cont_edge, blk):
                bad_sites.append((blk, "Ok(..)"))
        ctx.check(args_ok and not bad_sites, rule, ty,
                  f"{ty}::evaluate: signature.validate(args, ctx)? dominates every other call and every Ok result"
                  + (f" — undominated: {bad_sites[:4]}" if bad_sites else "") + ("" if args_ok else " — wrong arguments to validate"), b.span)
    ctx.floor(rule, n, 27, "Function::evaluate impls owning a Signature")


# ---------------------------------------------------------------------------------------------
def arity_outcomes(lib, b, o, variadic, delta):
    """Outcomes of validate_arity under (variadic?, actual - expected = delta), walked over the decision structure whatever its
    spelling (if-ladder, match on cmp, match on the Option)."""
    expected, actual = 5, 5 + delta
    holder = {}

    def atom(t):
        if t == ("param", 2):
            return actual
        if t[0] == "discr" and t[1][0] == "call" and t[1][1].endswith("::Ord::cmp") and len(t[1][2]) == 2 and "w" in holder:
            try:
                x, y = holder["w"].eval_terms(t[1][2][0]), holder["w"].eval_terms(t[1][2][1])
            except Undecided:
                return None
            if x is None or y is None:
                return None
            return "Less" if x < y else ("Equal" if x == y else "Greater")
        if t == ("discr", ("field", ("param", 1), "variadic")):
            return "Some" if variadic else "None"
        return None

    def call(t, argvals):
        if t[1].endswith("::len") and t[2][0] == fs({("field", ("param", 1), "inputs")}):
            return expected
        if t[1] == "std::option::Option::<T>::is_some" and t[2][0] == fs({("field", ("param", 1), "variadic")}):
            return variadic
        if t[1] == "std::option::Option::<T>::is_none" and t[2][0] == fs({("field", ("param", 1), "variadic")}):
            return 1 - variadic
        return None

    w = Walker(b, o, atom=atom, call=call)
    holder["w"] = w
    outcomes = set()
    for path, leaf in w.walk():
        outcomes.add(classify_arity_result(w.result_on_path(path)))
    return outcomes


def check_arity(ctx, lib):
    rule = "arity-decision"
    b = ctx.fn("functions::Signature::validate_arity", rule=rule)
    if b is None:
        return
    o = Origins(b, lib)
    n = 0
    for variadic in (0, 1):
        for delta in (-1, 0, 1):
            try:
                outcomes = arity_outcomes(lib, b, o, variadic, delta)
            except Undecided as e:
                ctx.bad(rule, f"variadic={variadic},delta={delta}", f"validate_arity: decision undecidable ({e})", b.span)
                continue
            if variadic:
                want = "Ok" if delta >= 0 else "NotEnough(expected,actual)"
            else:
                want = "Ok" if delta == 0 else ("NotEnough(expected,actual)" if delta < 0 else "TooMany(expected,actual)")
            n += 1
            ctx.check(outcomes == {want}, rule, f"variadic={bool(variadic)},actual{'<=>'[delta+1]}expected",
                      f"validate_arity(variadic={bool(variadic)}, actual {'<=>'[delta+1]} expected) -> {want} (found {sorted(outcomes)})", b.span)
    # variadic discriminant switch form (if let Some) is handled by is_some; also accept match on discr
    ctx.floor(rule, n, 6, "arity orderings walked")
    # validate calls validate_arity(args.len()) first and propagates
    v = ctx.fn("functions::Signature::validate", rule=rule)
    if v is not None:
        vo = Origins(v, lib)
        ac = [(bb, t) for bb, t in v.calls() if t["callee"] == "functions::Signature::validate_arity"]
        ok = len(ac) == 1
        if ok:
            a = vo.of_operand(ac[0][1]["args"][1])
            ok = all(x[0] in ("call", "len") and (x[0] == "len" or x[1].endswith("::len")) for x in a) and \
                all(term_mentions(x, lambda y: y == ("param", 2)) for x in a)
            # all validate_arg calls are dominated by the Continue edge of the arity check
            cont = None
            for bb, t in v.calls():
                if t["callee"] == "std::ops::Try::branch" and all(x[0] == "call" and x[1] == "functions::Signature::validate_arity" for x in vo.of_operand(t["args"][0])):
                    ve = Branches(v, vo).variant_edges(t["t"])
                    if ve and "Continue" in ve["edges"]:
                        cont = (t["t"], ve["edges"]["Continue"])
            ok = ok and cont is not None and all(edge_dominates(v, cont, bb) for bb, t in v.calls() if t["callee"] == "functions::Signature::validate_arg")
            oks, _ = RT.ok_values(v)
            ok = ok and all(edge_dominates(v, cont, blk) for blk, _ in oks)
        ctx.check(ok, rule, "validate-checks-arity-first", "validate: validate_arity(args.len(), ctx)? precedes every per-argument check and the Ok result", v.span)


def classify_arity_result(r):
    outs = set()
    for t in r:
        if t[0] == "agg" and t[1] == "std::result::Result::Ok":
            outs.add("Ok")
        elif t[0] == "agg" and t[1] == "std::result::Result::Err":
            inner = set(t[2][0])
            for e in inner:
                if e[0] == "call" and e[1] == "errors::JmespathError::from_ctx":
                    for reason in e[2][1]:
                        if reason[0] == "agg" and reason[1] == "errors::ErrorReason::Runtime":
                            for re_ in reason[2][0]:
                                if re_[0] == "agg" and re_[1].startswith("errors::RuntimeError::"):
                                    kind = re_[1].split("::")[-1]
                                    fn = re_[3]
                                    vals = dict(zip(fn, re_[2]))
                                    exp_ok = all(x[0] == "call" and x[1].endswith("::len") for x in vals.get("expected", [("x",)]))
                                    act_ok = vals.get("actual") == fs({("param", 2)})
                                    short = {"NotEnoughArguments": "NotEnough", "TooManyArguments": "TooMany"}.get(kind, kind)
                                    outs.add(f"{short}({'expected' if exp_ok else '?'},{'actual' if act_ok else '?'})")
                                else:
                                    outs.add("Err(?)")
                        else:
                            outs.add("Err(non-runtime)")
                else:
                    outs.add("Err(not from_ctx)")
        else:
            outs.add("?" + fmt_terms([t])[:40])
    return ";".join(sorted(outs))


# ---------------------------------------------------------------------------------------------
def guard_selects_by_position(v, lib, o, site_bb, operand, fixed_t, n_inputs=5):
    """`if <guard> { &inputs[k] } else { variadic }`: with inputs.len() = 5 and k = 0, 3, 4, 5, 6 every walked path that reaches
    the per-argument check carries inputs[k] exactly when k < 5 and the variadic type otherwise."""
    var_t = ("field", ("param", 1), "variadic")
    for k in (0, n_inputs - 2, n_inputs - 1, n_inputs, n_inputs + 1):
        def atom(t, k=k):
            if t == ("index", ("param", 2)):
                return k
            if t == ("discr", var_t):
                return "Some"
            return None

        def call(t, argvals):
            if t[1].endswith("::len") and t[2] and t[2][0] == fs({("field", ("param", 1), "inputs")}):
                return n_inputs
            if t[1] == "std::option::Option::<T>::is_some" and t[2][0] == fs({var_t}):
                return 1
            if t[1] == "std::option::Option::<T>::is_none" and t[2][0] == fs({var_t}):
                return 0
            return None

        w = Walker(v, o, atom=atom, call=call, cut_loops=True, max_steps=4000)
        try:
            paths = w.walk()
        except Undecided:
            return False
        seen = set()
        for path, leaf in paths:
            if site_bb not in path:
                continue
            upto = path[:path.index(site_bb) + 1]
            seen |= set(Origins(v, lib, only_blocks=set(upto)).of_operand(operand))
        want = {fixed_t} if k < n_inputs else {var_t}
        if seen != want:
            return False
    return True


def check_positions(ctx, lib):
    rule = "per-position"
    v = ctx.fn("functions::Signature::validate", rule=rule)
    if v is None:
        return
    o = Origins(v, lib)
    # spelling-independent (two loops under `if let Some(variadic)`, or one loop choosing the validator per position):
    # under each case of self.variadic, every per-argument check reachable in that case validates args[k] at position k against
    # inputs[k] (no variadic type) resp. inputs.get(k) or else the variadic type
    sites = [(bb, t) for bb, t in v.calls() if t["callee"] == "functions::Signature::validate_arg"]
    br0 = Branches(v, o)
    vsw = []
    for sb, sw in br0.switches():
        ve = br0.variant_edges(sb)
        if ve and ve["adt"] == "std::option::Option" and ve["scrutinee"] == {("field", ("param", 1), "variadic")}:
            vsw.append((sb, ve["edges"].get("Some", ve["otherwise"]), ve["edges"].get("None", ve["otherwise"])))
    if not vsw:
        # third spelling: no case split at all — the validators are one sequence, `inputs` followed by the variadic type
        # repeated for ever, zipped with the arguments
        check_zipped_positions(ctx, lib, rule, v, o)
        check_validate_arg(ctx, lib, rule)
        return
    ctx.check(1 <= len(sites) <= 2, rule, "sites", f"validate has its per-argument check(s) (found {len(sites)})", v.span)
    ctx.check(bool(vsw), rule, "case-split", "validate distinguishes signatures with and without a variadic type", v.span)
    kinds = set()
    fixed_t = ("elem", ("field", ("param", 1), "inputs"), ("ix", fs({("index", ("param", 2))})))

    def is_var(x):
        if not (x[0] == "call" and x[1] == "std::option::Option::<T>::unwrap_or"):
            return False
        g, d = x[2][0], x[2][1]
        return all(y[0] == "call" and y[1].endswith("::get") and y[2][0] == fs({("field", ("param", 1), "inputs")}) and y[2][1] == fs({("index", ("param", 2))}) for y in g) \
            and bool(g) and d == fs({("field", ("param", 1), "variadic")})

    for case in ("fixed", "variadic"):
        avoid = {(sb, some_t) for sb, some_t, none_t in vsw} if case == "fixed" else {(sb, none_t) for sb, some_t, none_t in vsw}
        feas = reach_avoiding(v, 0, avoid_edges=avoid)
        po = Origins(v, lib, only_blocks=feas)
        here = [(bb, t) for bb, t in sites if bb in feas]
        for bb, t in here:
            pos = po.of_operand(t["args"][2])
            val = po.of_operand(t["args"][3])
            vd = po.of_operand(t["args"][4])
            pos_ok = pos == {("index", ("param", 2))}
            val_ok = val == {("elem", ("param", 2))}
            # variadic: inputs.get(k).unwrap_or(variadic), or the same choice written as `if k < inputs.len() { &inputs[k] } else { variadic }`
            # (the index in the latter is discharged as a guarded index by the C05 rules)
            guarded_choice = vd == {fixed_t, ("field", ("param", 1), "variadic")}
            if case == "variadic" and guarded_choice:
                # which of the two is chosen is decided by the guard: walked with concrete positions around inputs.len()
                guarded_choice = guard_selects_by_position(v, lib, o, bb, t["args"][4], fixed_t)
            v_ok = bool(vd) and (vd == {fixed_t} if case == "fixed" else (all(is_var(x) for x in vd) or guarded_choice))
            if not v_ok and vd:
                # the same choice as a case analysis on inputs.get(k) itself (`match (inputs.get(k), &variadic) { (Some(d), _) => d,
                # (None, Some(v)) => v, .. }`): where get(k) is Some the validator is that very element, where it is None the
                # variadic type (or, without one, inputs[k] — ruled out by the arity check, kept as the old failure mode)
                def is_get(x):
                    return x[0] == "call" and x[1].endswith("::get") and x[2][0] == fs({("field", ("param", 1), "inputs")}) and x[2][1] == fs({("index", ("param", 2))})
                gsw = []
                for sb2, sw2 in br0.switches():
                    ve2 = br0.variant_edges(sb2)
                    if ve2 and ve2["adt"] == "std::option::Option" and ve2["scrutinee"] and all(is_get(z) for z in ve2["scrutinee"]):
                        gsw.append((sb2, ve2["edges"].get("Some", ve2["otherwise"]), ve2["edges"].get("None", ve2["otherwise"])))
                if gsw:
                    hit = reach_avoiding(v, 0, avoid_edges=avoid | {(sb2, n_) for sb2, s_, n_ in gsw})
                    miss = reach_avoiding(v, 0, avoid_edges=avoid | {(sb2, s_) for sb2, s_, n_ in gsw})
                    vd_hit = Origins(v, lib, only_blocks=hit).of_operand(t["args"][4]) if bb in hit else set()
                    vd_miss = Origins(v, lib, only_blocks=miss).of_operand(t["args"][4]) if bb in miss else set()
                    hit_ok = bool(vd_hit) and all(is_get(x) or x == fixed_t for x in vd_hit)
                    want_miss = {fixed_t} if case == "fixed" else {("field", ("param", 1), "variadic")}
                    miss_ok = not vd_miss or vd_miss == want_miss
                    v_ok = hit_ok and miss_ok and (case == "fixed" or bool(vd_miss))
            if pos_ok and val_ok and v_ok:
                kinds.add(case)
            ctx.check(pos_ok and val_ok and v_ok, rule, f"site@{case}",
                      f"validate_arg(ctx, k, args[k], {'inputs[k]' if case == 'fixed' else 'inputs.get(k) or the variadic type'}) for every k of args.iter().enumerate()"
                      + ("" if v_ok else f" — found {fmt_terms(vd)[:120]}"), t["span"]["s"])
        if not here:
            ctx.bad(rule, f"site@{case}", f"no per-argument check is reachable for a {'fixed' if case == 'fixed' else 'variadic'} signature", v.span)
    ctx.check(kinds == {"fixed", "variadic"}, rule, "both-cases", f"both the fixed and the variadic position rule are present (found {sorted(kinds)})", v.span)
    # nothing is skipped: from the Some(item) arm of the iteration the loop head is reached only through a per-argument check
    for cyc in cfg_cycles(v):
        cs = set(cyc)
        nexts = [x for x in cyc if v.blocks[x]["term"]["k"] == "call" and v.blocks[x]["term"]["callee"] == "std::iter::Iterator::next"]
        chk_blocks = [bb for bb, t in sites if bb in cs]
        if nexts and chk_blocks:
            nb = nexts[0]
            sw = v.blocks[nb]["term"]["t"]
            ve = br0.variant_edges(sw)
            some_t = ve["edges"].get("Some", ve["otherwise"]) if ve else None
            skip = some_t is not None and nb in reach_avoiding(v, some_t, avoid_blocks=chk_blocks)
            ctx.check(not skip, rule, f"no-skip@bb{nb}", "every argument of the iteration goes through validate_arg (no path back to the loop head avoids it)", v.span)
    check_validate_arg(ctx, lib, rule)


def check_zipped_positions(ctx, lib, rule, v, o):
    from ..collected import call_sites
    ARGS = ("iter", ("param", 2))
    VALIDATORS = ("chain", ("iter", ("field", ("param", 1), "inputs")), ("cycle_iter", ("iter", ("field", ("param", 1), "variadic"))))
    Z = ("zip", ARGS, VALIDATORS)
    sites = call_sites(lib, v, o, "functions::Signature::validate_arg")
    ctx.check(len(sites) == 1, rule, "sites", f"validate has its per-argument check(s) (found {len(sites)})", v.span)
    ctx.check(True, rule, "case-split", "validate pairs the arguments with one validator sequence (inputs, then the variadic type repeated)", v.span)
    good = False
    for argterms, span in sites:
        pos, val, vd = argterms[2], argterms[3], argterms[4]
        ok = pos == {("index", Z)} and val == {("elem", ("param", 2))} and vd == {("elem", VALIDATORS)}
        good = good or ok
        for case in ("fixed", "variadic"):
            ctx.check(ok, rule, f"site@{case}",
                      "validate_arg(ctx, k, args[k], k-th of inputs.chain(variadic.cycle())) for every (k, (arg, validator)) of args.zip(..).enumerate()"
                      + ("" if ok else f" — found position {fmt_terms(pos)[:80]}, value {fmt_terms(val)[:60]}, validator {fmt_terms(vd)[:140]}"), span)
    ctx.check(good, rule, "both-cases", "the fixed and the variadic positions are served by the one validator sequence", v.span)
    # nothing skipped, failure passed on: loop form -> no way round the check; closure form -> the closure's result is the check's
    # result and validate's result is the traversal's
    direct = [(bb, t) for bb, t in v.calls() if t["callee"] == "functions::Signature::validate_arg"]
    br0 = Branches(v, o)
    if direct:
        for cyc in cfg_cycles(v):
            cs = set(cyc)
            nexts = [x for x in cyc if v.blocks[x]["term"]["k"] == "call" and v.blocks[x]["term"]["callee"] == "std::iter::Iterator::next"]
            chk_blocks = [bb for bb, t in direct if bb in cs]
            if nexts and chk_blocks:
                nb = nexts[0]
                ve = br0.variant_edges(v.blocks[nb]["term"]["t"])
                some_t = ve["edges"].get("Some", ve["otherwise"]) if ve else None
                skip = some_t is not None and nb in reach_avoiding(v, some_t, avoid_blocks=chk_blocks)
                ctx.check(not skip, rule, f"no-skip@bb{nb}", "every argument of the iteration goes through validate_arg (no path back to the loop head avoids it)", v.span)
    else:
        ok = False
        for bb, t in v.calls():
            if t["callee"] == "std::iter::Iterator::try_for_each":
                clo = [x for x in o.of_operand(t["args"][1]) if x[0] == "closure"]
                if len(clo) == 1:
                    cb = lib.fn(clo[0][1])
                    co = Origins(cb, lib)
                    r = co.of_local(0)
                    ok = bool(r) and all(x[0] == "call" and x[1] == "functions::Signature::validate_arg" for x in r)
                    from ..analysis import strip_through
                    ret = {strip_through(x) for x in o.of_local(0)}
                    ok = ok and any(x[0] == "call" and x[1] == "std::iter::Iterator::try_for_each" for x in ret) and \
                        all(x[0] == "call" and x[1] in ("std::iter::Iterator::try_for_each", "functions::Signature::validate_arity") or
                            (x[0] == "agg" and x[1] == "std::result::Result::Ok") for x in ret)
        ctx.check(ok, rule, "no-skip@closure", "each item's check result is the closure's result and the traversal's result is validate's (first failure returned)", v.span)


def check_validate_arg(ctx, lib, rule):
    va = ctx.fn("functions::Signature::validate_arg", rule=rule)
    if va is None:
        return
    ao = Origins(va, lib)
    br = Branches(va, ao)
    found = False
    for blk, t in br.switches():
        be = br.bool_edges(blk)
        if not be:
            continue
        for c in br.cond(blk):
            if c[0] == "call" and c[1] == "functions::ArgumentType::is_valid":
                found = True
                ok = c[2][0] == fs({("param", 5)}) and c[2][1] == fs({("param", 4)})
                tt, ft = be
                tr = reach_avoiding(va, tt)
                fr = reach_avoiding(va, ft)
                t_ok = any(s["rv"].get("variant") == "Ok" for bb in tr for s in va.blocks[bb]["stmts"] if s["k"] == "assign" and s["rv"]["k"] == "agg") and \
                    not any(s["rv"].get("variant") == "Err" for bb in tr - fr for s in va.blocks[bb]["stmts"] if s["k"] == "assign" and s["rv"]["k"] == "agg")
                errs = [s for bb in fr for s in va.blocks[bb]["stmts"] if s["k"] == "assign" and s["rv"]["k"] == "agg" and s["rv"].get("adt") == "errors::RuntimeError"]
                f_ok = len(errs) == 1 and errs[0]["rv"]["variant"] == "InvalidType"
                if f_ok:
                    vals = dict(zip(errs[0]["rv"]["fnames"], (ao.of_operand(x) for x in errs[0]["rv"]["ops"])))
                    f_ok = vals["position"] == {("param", 3)} and vals["expected"] == {("param", 5)} and \
                        all(x[0] == "call" and x[1] == "variable::Variable::get_type" and x[2][0] == fs({("param", 4)}) for x in vals["actual"])
                ctx.check(ok and t_ok and f_ok, rule, "validate_arg",
                          "validate_arg: validator.is_valid(value) ? Ok : InvalidType{expected: validator, actual: type of value, position}", va.span)
    if not found:
        ctx.missing(rule, "validate_arg", "validate_arg does not branch on ArgumentType::is_valid")


# ---------------------------------------------------------------------------------------------
SIMPLE_KIND = {"Any": None, "Null": "Null", "String": "String", "Number": "Number", "Bool": "Bool", "Object": "Object",
               "Array": "Array", "Expref": "Expref"}


def check_is_valid(ctx, lib):
    rule = "is-valid-table"
    b = ctx.fn("functions::ArgumentType::is_valid", rule=rule)
    if b is None:
        return
    o = Origins(b, lib)
    n = 0
    for at in list(SIMPLE_KIND) + ["TypedArray", "Union"]:
        for k in KINDS:
            def atom(t, at=at, k=k):
                if t == ("discr", ("param", 1)):
                    return at
                # the value's kind inspected directly or through an accessor's answer (`value.as_array().map_or(false, ..)`)
                if t == ("discr", ("param", 2)):
                    return k
                if t[0] == "discr" and t[1][0] == "view" and t[1][2] == ("param", 2):
                    from ..leaf import VIEW_KIND
                    return "Some" if VIEW_KIND.get(t[1][1]) == k else "None"
                return None

            def call(t, argvals, k=k):
                nm = t[1]
                if nm.startswith("variable::Variable::is_") and t[2][0] == fs({("param", 2)}):
                    from ..leaf import IS
                    return int(IS[nm.split("::")[-1]] == k)
                if nm in ("std::option::Option::<T>::is_some", "std::option::Option::<T>::is_none") and len(t[2]) == 1:
                    from ..leaf import VIEW_KIND
                    for a in t[2][0]:
                        if a[0] == "view" and a[2] == ("param", 2):
                            v = int(VIEW_KIND.get(a[1]) == k)
                            return v if nm.endswith("is_some") else 1 - v
                return None

            w = Walker(b, o, atom=atom, call=call)
            try:
                paths = w.walk()
            except Undecided as e:
                ctx.bad(rule, f"{at}/{k}", f"is_valid({at}, {k}) undecidable: {e}", b.span)
                continue
            vals = set()
            for path, leaf in paths:
                r = w.result_on_path(path)
                try:
                    v = w.eval_terms(r)
                except Undecided:
                    v = None
                if v is None:
                    vals.add(classify_quantifier(lib, b, r, at))
                else:
                    vals.add(v)
            n += 1
            if at in SIMPLE_KIND:
                want = {1} if (SIMPLE_KIND[at] is None or SIMPLE_KIND[at] == k) else {0}
            elif at == "TypedArray":
                want = {"all-elements-valid"} if k == "Array" else {0}
            else:
                want = {"any-member-valid"}
            # `as_array` Option switch under kind k: the None branch is infeasible for Array but may be walked
            if at == "TypedArray" and k == "Array":
                vals.discard(0)
            ctx.check(vals == want, rule, f"{at}/{k}", f"is_valid({at}, value of kind {k}) = {sorted(map(str, want))} (found {sorted(map(str, vals))})", b.span)
    ctx.floor(rule, n, 70, "(ArgumentType variant, value kind) cases walked")


def classify_quantifier(lib, body, r, at):
    for t in r:
        if t[0] == "call" and t[1] in ("std::iter::Iterator::all", "std::iter::Iterator::any"):
            q = t[1].split("::")[-1]
            it = t[2][0]
            clo = [x for x in t[2][1] if x[0] == "closure"]
            if len(clo) != 1:
                return "?closure"
            cb = lib.fn(clo[0][1])
            if cb is None:
                return "?closure-body"
            co = Origins(cb, lib)
            inner = [(bb, c) for bb, c in cb.calls() if c["callee"] == "functions::ArgumentType::is_valid"]
            if len(inner) != 1:
                return "?closure-calls"
            ret = co.of_local(0)
            direct = all(x[0] == "call" and x[1] == "functions::ArgumentType::is_valid" for x in ret)
            if not direct:
                return "?closure-result"
            a_ty = co.of_operand(inner[0][1]["args"][0])
            a_val = co.of_operand(inner[0][1]["args"][1])
            if q == "all":
                # iterates the array view of the value; each element checked against the captured inner type
                it_ok = all(x == ("iter", ("view", "array", ("param", 2))) for x in it)
                el_ok = a_val == {("param", 2)} and all(x[0] == "field" and x[1] == ("closure_env",) for x in a_ty)
                cap = clo[0][2]
                cap_ok = all(all(y == ("field", ("param", 1), "TypedArray.0") for y in c) for c in cap) and bool(cap)
                return "all-elements-valid" if (it_ok and el_ok and cap_ok and at == "TypedArray") else "?all-shape"
            else:
                it_ok = all(x == ("iter", ("field", ("param", 1), "Union.0")) for x in it)
                el_ok = a_ty == {("param", 2)} and all(x[0] == "field" and x[1] == ("closure_env",) for x in a_val)
                cap = clo[0][2]
                cap_ok = all(all(y == ("param", 2) for y in c) for c in cap) and bool(cap)
                return "any-member-valid" if (it_ok and el_ok and cap_ok and at == "Union") else "?any-shape"
    return "?" + fmt_terms(r)[:60]


# ---------------------------------------------------------------------------------------------
def check_provenance(ctx, lib):
    rule = "error-provenance"
    allowed = {
        "NotEnoughArguments": {"functions::Signature::validate_arity"},
        "TooManyArguments": {"functions::Signature::validate_arity"},
        "InvalidType": {"functions::Signature::validate_arg"},
        "UnknownFunction": {"interpreter::interpret"},
        "InvalidSlice": {"interpreter::interpret"},
        "InvalidReturnType": {"<functions::SortByFn as functions::Function>::evaluate",
                              "<functions::MaxByFn as functions::Function>::evaluate",
                              "<functions::MinByFn as functions::Function>::evaluate"},
    }
    seen = {k: set() for k in allowed}
    for b in lib.fn_bodies():
        if b.j.get("auto_derived"):
            continue  # derived Clone/PartialEq rebuild an existing value
        for bb, i, s in b.stmts():
            if s["k"] == "assign" and s["rv"]["k"] == "agg" and s["rv"].get("adt") == "errors::RuntimeError":
                v = s["rv"]["variant"]
                seen.setdefault(v, set()).add(b.deff)
                ok = v in allowed and b.deff in allowed[v]
                if not ok:
                    ctx.bad(rule, f"{v}@{b.deff}", f"RuntimeError::{v} is constructed in {b.deff} (allowed only in {sorted(allowed.get(v, []))})", s["span"]["s"])
    for v, where in allowed.items():
        ctx.check(seen[v] == where, rule, v, f"RuntimeError::{v} is constructed exactly in {sorted(where)} (found {sorted(seen[v])})")
    rt = lib.adts.get("errors::RuntimeError")
    if rt:
        vs = {x["name"] for x in rt["variants"]}
        ctx.check(vs == set(allowed), rule, "variants", f"RuntimeError has exactly the tabulated kinds (found {sorted(vs)})")


# ---------------------------------------------------------------------------------------------
def check_by_functions(ctx, lib):
    rule = "by-function-element-types"
    n = 0
    for ty in ("functions::SortByFn", "functions::MaxByFn", "functions::MinByFn"):
        b = B.evaluate_body(lib, ty)
        if b is None:
            ctx.missing(rule, ty, f"{ty}::evaluate")
            continue
        o = Origins(b, lib)
        br = Branches(b, o)
        isites = [(bb, t) for bb, t in b.calls() if t["callee"] == "interpreter::interpret"]
        ctx.check(len(isites) == 2, rule, f"{ty}:sites", f"{ty} evaluates the expression reference at two sites (first element, remaining elements) (found {len(isites)})", b.span)
        # type-test switches
        first_blk = min((bb for bb, _ in isites), key=lambda x: len(b.dominators().get(x, ())), default=None)
        for ibb, it in isites:
            n += 1
            res_pred = lambda x, ibb=ibb: x[0] == "call" and x[1] == "interpreter::interpret" and x[3] == ibb
            ok_edges = []
            bad_edges = []
            for blk, t in br.switches():
                be = br.bool_edges(blk)
                if not be:
                    continue
                tt, ft = be
                for c in br.cond(blk):
                    neg = False
                    while c[0] == "un" and c[1] == "Not":
                        c = c[2]
                        neg = not neg
                    if c[0] == "call" and c[1] in ("std::cmp::PartialEq::ne", "std::cmp::PartialEq::eq"):
                        sides = [set(c[2][0]), set(c[2][1])]
                        mine = [s for s in sides if any(x[0] == "call" and x[1] == "variable::Variable::get_type" and any(res_pred(y) for y in x[2][0]) for x in s)]
                        if not mine:
                            continue
                        is_ne = c[1].endswith("::ne") != neg
                        ok_edges.append((blk, ft if is_ne else tt))
            # `matches!(v.get_type(), JmespathType::String | JmespathType::Number)` / a match on the type: the named edges constrain it
            for blk, t in br.switches():
                ve = br.variant_edges(blk)
                if ve and ve["adt"] == "variable::JmespathType" and ve["scrutinee"] and all(
                        x[0] == "call" and x[1] == "variable::Variable::get_type" and any(res_pred(y) for y in x[2][0]) for x in ve["scrutinee"]):
                    for nm, tgt in ve["edges"].items():
                        if tgt != ve["otherwise"]:
                            ok_edges.append((blk, tgt))
            if not ok_edges:
                ctx.bad(rule, f"{ty}:site{'-first' if ibb == first_blk else '-rest'}", f"{ty}: the mapped value of this interpret() call is never type-tested", it["span"]["s"])
                continue
            # consumers: comparisons and tuple aggregates mentioning this result
            consumers = []
            for bb, t in b.calls():
                c = t["callee"]
                if re.match(r"^std::cmp::(PartialOrd::(gt|lt|ge|le|partial_cmp)|Ord::(cmp|max|min))$", c):
                    if any(term_mentions(x, res_pred) for a in t["args"] for x in o.of_operand(a)):
                        consumers.append((bb, c))
            for bb, i, s in b.stmts():
                if s["k"] == "assign" and s["rv"]["k"] == "agg" and s["rv"]["ak"] == "tuple":
                    if any(res_pred(x) for op in s["rv"]["ops"] for x in o.of_operand(op)):
                        consumers.append((bb, "tuple"))
            start = it["t"]
            unguarded = reach_avoiding(b, start, avoid_edges=ok_edges)
            bad = [(bb, c) for bb, c in consumers if bb in unguarded]
            ctx.check(bool(consumers) and not bad, rule, f"{ty}:site{'-first' if ibb == first_blk else '-rest'}",
                      f"{ty}: every use of the mapped value (compare / store) lies behind its type test ({len(consumers)} uses)" + (f" — unguarded {bad}" if bad else ""), it["span"]["s"])
        # the first element's type must be String or Number
        proms = set()
        for blk, t in br.switches():
            for c in br.cond(blk):
                while c[0] == "un":
                    c = c[2]
                if c[0] == "call" and c[1] in ("std::cmp::PartialEq::ne", "std::cmp::PartialEq::eq"):
                    for side in c[2]:
                        for x in side:
                            if x[0] == "promoted":
                                pb = lib.promoted(b.deff, x[1])
                                if pb:
                                    for _, _, s in pb.stmts(reachable_only=False):
                                        if s["k"] == "assign" and s["rv"]["k"] == "agg" and s["rv"].get("adt") == "variable::JmespathType":
                                            proms.add(s["rv"]["variant"])
        first_res0 = lambda x: x[0] == "call" and x[1] == "interpreter::interpret" and x[3] == first_blk
        for blk, t in br.switches():
            ve = br.variant_edges(blk)
            if ve and ve["adt"] == "variable::JmespathType" and ve["scrutinee"] and all(
                    x[0] == "call" and x[1] == "variable::Variable::get_type" and any(first_res0(y) for y in x[2][0]) for x in ve["scrutinee"]):
                proms |= {nm for nm, tgt in ve["edges"].items() if tgt != ve["otherwise"]}
        ctx.check(proms == {"String", "Number"}, rule, f"{ty}:first-kind", f"{ty}: the first mapped value must be a string or a number (tests against {sorted(proms)})", b.span)
        # an Ok result is reachable only (a) on the empty-array branch or (b) after the first element's key passed its kind test
        oks, opaque = RT.ok_values(b)
        vals_t = {("view", "array", ("elem", ("param", 2), 0))}
        empty_edges = []
        first_ok_edges = []
        first_res = lambda x: x[0] == "call" and x[1] == "interpreter::interpret" and x[3] == first_blk
        for blk, t in br.switches():
            be = br.bool_edges(blk)
            if not be:
                continue
            for c in br.cond(blk):
                neg = False
                while c[0] == "un" and c[1] == "Not":
                    c = c[2]
                    neg = not neg
                if c[0] == "call" and c[1].endswith("::is_empty") and set(c[2][0]) == vals_t:
                    empty_edges.append((blk, be[1] if neg else be[0]))
                if c[0] == "call" and c[1] in ("std::cmp::PartialEq::ne", "std::cmp::PartialEq::eq"):
                    sides = [set(c[2][0]), set(c[2][1])]
                    if any(any(x[0] == "call" and x[1] == "variable::Variable::get_type" and any(first_res(y) for y in x[2][0]) for x in s_) for s_ in sides) and \
                            any(any(x[0] == "promoted" for x in s_) for s_ in sides):
                        is_ne = c[1].endswith("::ne") != neg
                        first_ok_edges.append((blk, be[1] if is_ne else be[0]))
        discr_ok_sets = []
        for blk, t in br.switches():
            ve = br.variant_edges(blk)
            if ve and ve["adt"] == "variable::JmespathType" and ve["scrutinee"] and all(
                    x[0] == "call" and x[1] == "variable::Variable::get_type" and any(first_res(y) for y in x[2][0]) for x in ve["scrutinee"]):
                discr_ok_sets.append([(blk, tgt) for nm, tgt in ve["edges"].items() if tgt != ve["otherwise"]])

        def behind_first_test(blk_):
            if first_ok_edges and edges_dominate(b, first_ok_edges, blk_):
                return True
            # one switch with several accepting edges: none of the other edges may reach the block
            for es in discr_ok_sets:
                sw_blk = es[0][0]
                others = [(sw_blk, x) for x in set(b.succs()[sw_blk]) - {tg for _, tg in es}]
                if b.dominates(sw_blk, blk_) and blk_ not in reach_avoiding(b, sw_blk, avoid_edges=es) - {sw_blk} or not others:
                    if b.dominates(sw_blk, blk_) and all(blk_ not in reach_avoiding(b, o_[1]) for o_ in others):
                        return True
            return False
        bad_ok = [blk for blk, _ in oks if not (any(edge_dominates(b, e, blk) for e in empty_edges) or behind_first_test(blk))]
        ctx.check(bool(oks) and bool(empty_edges) and not bad_ok, rule, f"{ty}:no-unchecked-result",
                  f"{ty}: a result is produced only for an empty array or after the first key passed its kind test ({len(oks)} Ok sites, unchecked: {bad_ok})", b.span)
    ctx.floor(rule, n, 6, "interpret() sites in by-functions")


# ---------------------------------------------------------------------------------------------
def check_unknown_function(ctx, lib):
    rule = "unknown-function"
    b = ctx.fn("interpreter::interpret", rule=rule)
    if b is None:
        return
    o = Origins(b, lib)
    br = Branches(b, o)
    gf = [(bb, t) for bb, t in b.calls() if t["callee"] == "runtime::Runtime::get_function"]
    ctx.check(len(gf) == 1, rule, "lookup-site", f"interpret looks a function up at exactly one site (found {len(gf)})", b.span)
    if len(gf) != 1:
        return
    bb, t = gf[0]
    name = o.of_operand(t["args"][1])
    ok = name == {("field", ("param", 2), "Function.name")}
    ctx.check(ok, rule, "lookup-by-exact-name", f"lookup key is the node's own name, unmodified ({fmt_terms(name)})", t["span"]["s"])
    rt = o.of_operand(t["args"][0])
    ctx.check(rt == {("field", ("param", 3), "runtime")}, rule, "lookup-in-ctx-runtime", f"lookup is in ctx.runtime ({fmt_terms(rt)})", t["span"]["s"])
    # the Option switch on the result
    for blk, sw in br.switches():
        ve = br.variant_edges(blk)
        if ve and ve["adt"] == "std::option::Option" and all(x[0] == "call" and x[1] == "runtime::Runtime::get_function" for x in ve["scrutinee"]):
            none_t = ve["edges"].get("None", ve["otherwise"])
            some_t = ve["edges"].get("Some", ve["otherwise"])
            nreg = {x for x in reach_avoiding(b, none_t) if edge_dominates(b, (blk, none_t), x)}
            errs = [s for x in nreg for s in b.blocks[x]["stmts"] if s["k"] == "assign" and s["rv"]["k"] == "agg" and s["rv"].get("adt") == "errors::RuntimeError"]
            ok = len(errs) == 1 and errs[0]["rv"]["variant"] == "UnknownFunction" and \
                all(term_mentions(x, lambda y: y == ("field", ("param", 2), "Function.name")) for x in o.of_operand(errs[0]["rv"]["ops"][0]))
            ev = [x for x in nreg if b.blocks[x]["term"]["k"] == "call" and b.blocks[x]["term"]["callee"] == "functions::Function::evaluate"]
            ctx.check(ok and not ev and region_always_errs(b, nreg), rule, "none-branch", "a missing function always yields UnknownFunction(name) and nothing is invoked", b.span)
            sreg = {x for x in reach_avoiding(b, some_t) if edge_dominates(b, (blk, some_t), x)}
            ev = [x for x in sreg if b.blocks[x]["term"]["k"] == "call" and b.blocks[x]["term"]["callee"] == "functions::Function::evaluate"]
            ctx.check(len(ev) == 1, rule, "some-branch", "a found function is invoked exactly once", b.span)
            return
    ctx.missing(rule, "switch", "no branch on the result of get_function")


# ---------------------------------------------------------------------------------------------
def check_result_types(ctx, lib, sigs):
    rule = "result-type"
    n = 0
    for nm, (ty, inputs, variadic) in sorted(sigs.items()):
        b = B.evaluate_body(lib, ty)
        if b is None:
            ctx.missing(rule, nm, f"{ty}::evaluate")
            continue
        want = RESULT.get(nm)
        cx = RT.TagCx(lib, b, inputs, variadic)
        oks, opaque = RT.ok_values(b)
        tags = set()
        detail = []
        for blk, op in oks:
            for t in cx.o.of_operand(op):
                tg = cx.tags(t, blk)
                tags |= tg
                detail.append(f"{fmt_terms([t])[:70]} -> {sorted(tg)}")
        for blk, c in opaque:
            tags |= RT.ALL
            detail.append(f"opaque result at bb{blk}")
        n += 1
        if want is None:
            ctx.ok(rule, nm, f"{nm}: result is an input element / argument or null (unconstrained kind); {len(oks)} Ok sites", b.span)
            continue
        ctx.check(bool(oks) and tags <= want, rule, nm,
                  f"{nm}: every Ok result has a kind in {sorted(want)} (found {sorted(tags)})" + ("" if tags <= want else f" — {detail}"), b.span)
    ctx.floor(rule, n, 26, "builtins whose result kinds were analysed")
