"""C15 — calls follow the runtime registry; custom functions receive evaluated arguments."""
import re

from .. import builtins as B
from ..analysis import strip_through, success_edge
from ..analysis import Branches, Origins, blocks_separate, edge_dominates, fmt_terms, reach_avoiding, closure_capture_origins
from ..interp import CTX, DATA, INTERP, NODE, Interp

fs = frozenset
HM = r"std::collections::HashMap::<K, V, S, A>::"
V = "variable::Variable"

EXPLANATION = (
    "The history clause reduces to HashMap's contract once the registry is shown to be nothing but a map keyed by the "
    "given name; that reduction is decided structurally: register_function = insert(owned copy of the name parameter, the "
    "function parameter), deregister_function = remove(name) returned as is, get_function = get(name).map(as_ref), a new "
    "runtime holds an empty map, nothing else reads or writes the `functions` field, register_builtin_functions performs only "
    "the 26 register_function calls. Runtime::compile passes self into the Expression, search passes self.runtime into the "
    "Context, and the evaluator's Function arm evaluates each argument against the current node exactly once in source "
    "order into a fresh vector, only then looks the exact name up in ctx.runtime, passes that vector and the same context "
    "to evaluate, and builds UnknownFunction(name) when the lookup fails; an Expref node is returned unevaluated. "
    "CustomFunction validates its signature before invoking the stored closure with the same (args, ctx); bare closures "
    "are forwarded unchanged."
)
ASSUMPTIONS = ["std::collections::HashMap insert / remove / get semantics (last insert for a key wins; remove deletes)"]


def run(ctx):
    lib = ctx.lib()
    ctx.attempt("check_registry", check_registry, ctx, lib)
    ctx.attempt("check_runtime_flow", check_runtime_flow, ctx, lib)
    ctx.attempt("check_call_protocol", check_call_protocol, ctx, lib)
    ctx.attempt("check_custom", check_custom, ctx, lib)


def check_registry(ctx, lib):
    rule = "registry-is-a-map"
    adt = lib.adts.get("runtime::Runtime")
    ok = adt is not None and [f["name"] for f in adt["variants"][0]["fields"]] == ["functions"] and \
        adt["variants"][0]["fields"][0]["ty"] == "std::collections::HashMap<std::string::String, std::boxed::Box<(dyn functions::Function + 'static)>>" or \
        (adt is not None and [f["name"] for f in adt["variants"][0]["fields"]] == ["functions"] and
         re.match(r"^std::collections::HashMap<std::string::String, std::boxed::Box<\(?dyn functions::Function", adt["variants"][0]["fields"][0]["ty"]) is not None)
    ctx.check(ok, rule, "state", "Runtime's only state is `functions: HashMap<String, Box<dyn Function>>`")
    # register_function
    b = ctx.fn("runtime::Runtime::register_function", rule=rule)
    if b is not None:
        o = Origins(b, lib)
        ins = [t for _, t in b.calls() if re.match(HM + "insert$", t["callee"])]
        ok = len(ins) == 1
        if ok:
            a = [o.of_operand(x) for x in ins[0]["args"]]
            ok = a[0] == {("field", ("param", 1), "functions")} and a[1] == {("param", 2)} and a[2] == {("param", 3)}
            own = [t for _, t in b.calls() if t["callee"] in ("std::borrow::ToOwned::to_owned", "std::string::ToString::to_string", "std::convert::Into::into", "std::convert::From::from")]
            other = [t["callee"] for _, t in b.calls() if t not in own and t is not ins[0] and not t["callee"].startswith("std::ops::")]
            ok = ok and len(own) == 1 and not other
        ctx.check(ok, rule, "register", "register_function(name, f) = functions.insert(name.to_owned(), f) and nothing else", b.span)
    b = ctx.fn("runtime::Runtime::deregister_function", rule=rule)
    if b is not None:
        o = Origins(b, lib)
        calls = [t for _, t in b.calls()]
        ok = len(calls) == 1 and re.match(HM + "remove$", calls[0]["callee"]) is not None
        if ok:
            a = [o.of_operand(x) for x in calls[0]["args"]]
            ok = a[0] == {("field", ("param", 1), "functions")} and a[1] == {("param", 2)} and calls[0]["dest"]["l"] == 0
        ctx.check(ok, rule, "deregister", "deregister_function(name) = functions.remove(name), returned unchanged", b.span)
    b = ctx.fn("runtime::Runtime::get_function", rule=rule)
    if b is not None:
        o = Origins(b, lib)
        # spelling-independent (map(AsRef::as_ref), match, if let): one lookup by the exact name; the answer is Some(a view of
        # what the map holds under that key) or the map's own None
        gets = [t for _, t in b.calls() if re.match(HM + "get$", t["callee"])]
        others = [t["callee"] for _, t in b.calls() if not re.match(HM + "get$", t["callee"]) and
                  not re.match(r"^(std::convert::AsRef::as_ref|std::ops::Deref::deref|std::borrow::Borrow::borrow|std::ops::Try::branch|std::ops::FromResidual::from_residual)$", t["callee"])]
        ok = len(gets) == 1 and not others
        if ok:
            a = [o.of_operand(x) for x in gets[0]["args"]]
            ok = a[0] == {("field", ("param", 1), "functions")} and a[1] == {("param", 2)}

            def from_get(t):
                t = strip_through(t)
                while t[0] == "call" and t[1] in ("std::convert::AsRef::as_ref", "std::ops::Deref::deref", "std::borrow::Borrow::borrow") and len(t[2]) == 1 and len(t[2][0]) == 1:
                    t = next(iter(t[2][0]))
                return t[0] == "call" and re.match(HM + "get$", t[1]) is not None

            for t in o.of_local(0):
                if from_get(t) or (t[0] == "agg" and t[1] == "std::option::Option::None"):
                    continue
                if t[0] == "agg" and t[1] == "std::option::Option::Some" and t[2][0] and all(from_get(x) for x in t[2][0]):
                    continue
                ok = False
        ctx.check(ok, rule, "lookup", "get_function(name) = functions.get(name).map(AsRef::as_ref) — exact key, no normalisation", b.span)
    # a fresh runtime: `new` and `default` — one builds Runtime { functions: <empty map> }, the other may delegate to it
    DEF = "<runtime::Runtime as std::default::Default>::default"
    NEWF = "runtime::Runtime::new"
    built_empty = set()
    for fn in (DEF, NEWF):
        fb = ctx.fn(fn, rule=rule)
        if fb is None:
            continue
        fo = Origins(fb, lib)
        aggs = [s for _, _, s in fb.stmts() if s["k"] == "assign" and s["rv"]["k"] == "agg" and s["rv"].get("adt") == "runtime::Runtime"]
        if aggs:
            okf = len(aggs) == 1
            if okf:
                f = fo.of_operand(aggs[0]["rv"]["ops"][0])
                okf = all(t[0] == "call" and re.match(r"^std::collections::HashMap::<K, V>::(new|with_capacity)$", t[1]) for t in f) and bool(f)
            ctx.check(okf, rule, "fresh-is-empty", f"{fn.split('::')[-1]}: a fresh runtime holds an empty map (HashMap::new / with_capacity)", fb.span)
            if okf:
                built_empty.add(fn)
    for fn, other in ((NEWF, DEF), (DEF, NEWF)):
        fb = lib.fn(fn)
        if fb is None or fn in built_empty:
            continue
        names = [t.get("resolved") or t["callee"] for _, t in fb.calls()]
        ctx.check(names == [other] and other in built_empty, rule, "new-is-default", f"{fn} delegates to {other}, which builds the empty runtime (calls {names})", fb.span)
    ctx.check(bool(built_empty), rule, "fresh-runtime", f"a fresh runtime is built empty in {sorted(built_empty)}")
    # who may touch the field / construct a Runtime
    touch = set()
    make = set()
    for b in lib.fn_bodies():
        for bb, i, s in b.stmts():
            if s["k"] != "assign":
                continue
            if s["rv"]["k"] == "agg" and s["rv"].get("adt") == "runtime::Runtime":
                make.add(b.deff)
            for pl in [s["place"]] + [s["rv"].get("place")] + [s["rv"].get("op")] + s["rv"].get("ops", []):
                if isinstance(pl, dict) and "p" in pl and any(isinstance(e, dict) and e.get("name") == "functions" for e in pl["p"]) and "Runtime" in b.local_ty(pl["l"]):
                    touch.add(b.deff)
    allowed = {"runtime::Runtime::register_function", "runtime::Runtime::deregister_function", "runtime::Runtime::get_function"}
    ctx.check(touch == allowed, rule, "who-may-touch", f"only register / deregister / get touch the map (found {sorted(touch)})")
    ctx.check(bool(make) and make <= built_empty, rule, "who-may-construct", f"a Runtime is only constructed empty (found {sorted(make)})")
    reg, problems = B.registry(lib)
    ok = reg is not None and not problems and len(reg) == 26 and len({r[0] for r in reg}) == 26
    ctx.check(ok, rule, "builtins", f"register_builtin_functions performs exactly 26 register_function(\"name\", Box::new(T::new())) calls with distinct names ({problems[:2] if problems else ''})")
    rb = lib.fn("runtime::Runtime::register_builtin_functions")
    if rb is not None:
        o = Origins(rb, lib)
        ok = all(o.of_operand(t["args"][0]) == {("param", 1)} for _, t in rb.calls() if t["callee"] == "runtime::Runtime::register_function")
        ctx.check(ok, rule, "builtins-into-self", "the builtins are registered into the runtime they are called on", rb.span)


def check_runtime_flow(ctx, lib):
    rule = "runtime-flow"
    rc = ctx.fn("runtime::Runtime::compile", rule=rule)
    if rc is not None:
        ro = Origins(rc, lib)
        news = [t for _, t in rc.calls() if t["callee"] == "Expression::<'a>::new"]
        ok = len(news) == 1 and ro.of_operand(news[0]["args"][2]) == {("param", 1)} and \
            all(x[0] == "call" and x[1] == "parser::parse" for x in ro.of_operand(news[0]["args"][1])) and bool(ro.of_operand(news[0]["args"][1]))
        ctx.check(ok, rule, "compile-binds-self", "Runtime::compile stores the compiling runtime (self) in the Expression", rc.span)
    sb = ctx.fn("Expression::<'a>::search", rule=rule)
    if sb is not None:
        o = Origins(sb, lib)
        news = [t for _, t in sb.calls() if t["callee"] == "Context::<'a>::new"]
        ok = len(news) == 1 and o.of_operand(news[0]["args"][1]) == {("field", ("param", 1), "runtime")}
        ctx.check(ok, rule, "search-uses-own-runtime", "search builds its Context with the expression's own runtime", sb.span)
    cn = ctx.fn("Context::<'a>::new", rule=rule)
    if cn is not None:
        o = Origins(cn, lib)
        aggs = [s for _, _, s in cn.stmts() if s["k"] == "assign" and s["rv"]["k"] == "agg" and s["rv"].get("adt") == "Context"]
        ok = len(aggs) == 1 and o.of_operand(dict(zip(aggs[0]["rv"]["fnames"], aggs[0]["rv"]["ops"]))["runtime"]) == {("param", 2)}
        ctx.check(ok, rule, "context-keeps-runtime", "Context::new stores the runtime it is given", cn.span)
    cm = ctx.fn("compile", rule=rule)
    if cm is not None:
        names = [t.get("resolved") or t["callee"] for _, t in cm.calls()]
        ctx.check(names == ["<DEFAULT_RUNTIME as std::ops::Deref>::deref", "runtime::Runtime::compile"], rule, "default-runtime", f"jmespath::compile uses the shared default runtime (calls {names})", cm.span)
    init = lib.fn("<DEFAULT_RUNTIME as std::ops::Deref>::deref::__static_ref_initialize")
    if init is not None:
        names = [t["callee"] for _, t in init.calls()]
        ctx.check(names == ["runtime::Runtime::new", "runtime::Runtime::register_builtin_functions"], rule, "default-has-builtins", "the default runtime is a fresh runtime with the builtins registered", init.span)


def check_call_protocol(ctx, lib):
    rule = "call-protocol"
    ip = Interp(lib)
    if not ip.ok or "Function" not in ip.arms:
        ctx.missing(rule, "Function", "interpret arm for Function")
        return
    b = ip.b
    arm = ip.arms["Function"]
    o = ip.o
    from ..collected import ELEM, describe_vector
    gf = [(x, t) for x, t in arm.calls if t["callee"] == "runtime::Runtime::get_function"]
    ev = [(x, t) for x, t in arm.calls if t["callee"] == "functions::Function::evaluate"]
    ok = len(gf) == 1 and len(ev) == 1 and len(arm.recursive) == 1
    ctx.check(ok, rule, "shape", f"one evaluation site for the arguments, one lookup, one invocation (lookups {len(gf)}, invocations {len(ev)}, evaluation sites {len(arm.recursive)})", b.span)
    if not ok:
        return
    # the argument vector handed to evaluate: every element of node.args, in order, evaluated against the current node —
    # built by a loop with push or by an iterator chain (collected.describe_vector)
    ex, et = ev[0]
    vec = o.of_operand(et["args"][1])
    d = describe_vector(lib, b, o, vec)
    each = order = keeps = False
    if d is not None and len(d) == 1:
        bd = d[0]
        order = bd.source == {("field", NODE, "Function.args")}
        keeps = bd.every_item
        each = bool(bd.value) and all(t[0] == "call" and t[1] == INTERP and set(t[2][0]) == {DATA} and set(t[2][1]) == {ELEM} and set(t[2][2]) == {CTX} for t in bd.value)
    ctx.check(each and order, rule, "arguments", "each argument expression is evaluated once against the current node, in source order, into a fresh vector"
              + ("" if d else f" — construction not recognised ({fmt_terms(vec)[:100]})"), et["span"]["s"])
    ctx.check(keeps, rule, "every-argument-kept", "every evaluated argument is kept (no filtering)", et["span"]["s"])
    # lookup happens after all arguments were evaluated: no evaluation site can follow the lookup
    gx, gt = gf[0]
    rec_blocks = {x for x, _, _, _ in arm.recursive}
    later = reach_avoiding(b, gx)
    from ..analysis import cfg_cycles
    same_cycle = any(gx in c and (rec_blocks & set(c)) for c in cfg_cycles(b))
    ok = not (rec_blocks & (later - {gx})) and not same_cycle and all(x != gx for x in rec_blocks)
    ctx.check(ok, rule, "lookup-after-arguments", "the function is looked up only after all arguments have been evaluated", gt["span"]["s"])
    ex, et = ev[0]
    a = [o.of_operand(x) for x in et["args"]]
    ok = all(t[0] == "call" and t[1] == "runtime::Runtime::get_function" for t in a[0]) and a[1] == vec and a[2] == {CTX}
    ctx.check(ok, rule, "invocation", f"evaluate receives the looked-up function, the evaluated argument vector and the same context ({[fmt_terms(x) for x in a]})", et["span"]["s"])
    nm = o.of_operand(gt["args"][1])
    rt = o.of_operand(gt["args"][0])
    ctx.check(nm == {("field", NODE, "Function.name")} and rt == {("field", CTX, "runtime")}, rule, "lookup-key",
              "the lookup is ctx.runtime.get_function(node.name) with the exact name", gt["span"]["s"])
    # the result of evaluate is the arm's result
    ret = o.of_local(0)
    res_ok = any(t[0] == "call" and t[1] == "functions::Function::evaluate" for t in ret)
    ctx.check(res_ok, rule, "result", "the call's result is what evaluate returned", et["span"]["s"])
    # Expref unevaluated
    ea = ip.arms.get("Expref")
    ok = ea is not None and not ea.recursive and len(ea.oks) == 1 and \
        all(t[0] == "agg" and t[1] == V + "::Expref" and set(t[2][0]) == {("field", NODE, "Expref.ast")} for t in ea.oks[0][1])
    ctx.check(ok, rule, "expref-unevaluated", "an expression-reference argument is passed as Expref(copy of the node), not evaluated", b.span)


def check_custom(ctx, lib):
    rule = "custom-functions"
    b = ctx.fn("<functions::CustomFunction as functions::Function>::evaluate", rule=rule)
    if b is not None:
        o = Origins(b, lib)
        br = Branches(b, o)
        v = [(bb, t) for bb, t in b.calls() if t["callee"] == "functions::Signature::validate"]
        inv = [(bb, t) for bb, t in b.calls() if t["callee"] in ("std::ops::Fn::call", "std::ops::FnMut::call_mut", "std::ops::FnOnce::call_once")]
        ok = len(v) == 1 and len(inv) == 1
        if ok:
            a = [o.of_operand(x) for x in v[0][1]["args"]]
            ok = a[0] == {("field", ("param", 1), "signature")} and a[1] == {("param", 2)} and a[2] == {("param", 3)}
            se = success_edge(b, o, br, lambda ts: all(x[0] == "call" and x[1] == "functions::Signature::validate" for x in ts))
            cont = (se[0], se[1]) if se else None
            ok = ok and cont is not None and edge_dominates(b, cont, inv[0][0])
            ia = [o.of_operand(x) for x in inv[0][1]["args"]]
            ok = ok and ia[0] == {("field", ("param", 1), "f")} and \
                all(t[0] == "agg" and t[1] == "tuple" and t[2] == (fs({("param", 2)}), fs({("param", 3)})) for t in ia[1])
            # its result is what evaluate returns on that side (tail call, or moved into the return place)
            rets = o.of_local(0)
            ok = ok and (inv[0][1]["dest"]["l"] == 0 or any(t[0] == "call" and t[1] == inv[0][1]["callee"] for t in rets))
        ctx.check(ok, rule, "validated-then-invoked", "CustomFunction: signature.validate(args, ctx)? dominates the invocation of the stored closure with the same (args, ctx); its result is returned", b.span)
    f = ctx.fn("<F as functions::Function>::evaluate", rule=rule)
    if f is not None:
        o = Origins(f, lib)
        inv = [(bb, t) for bb, t in f.calls()]
        ok = len(inv) == 1 and inv[0][1]["callee"] in ("std::ops::Fn::call",) and inv[0][1]["dest"]["l"] == 0
        if ok:
            ia = [o.of_operand(x) for x in inv[0][1]["args"]]
            ok = ia[0] == {("param", 1)} and all(t[0] == "agg" and t[1] == "tuple" and t[2] == (fs({("param", 2)}), fs({("param", 3)})) for t in ia[1])
        ctx.check(ok, rule, "bare-closure", "a bare closure used as a function is called with the same (args, ctx) and its result returned", f.span)
    # "only invoked when the arguments satisfy it": the validator itself (shared rows with C06)
    from .c06 import check_arity, check_is_valid, check_positions
    ctx.attempt("check_arity", check_arity, ctx, lib)
    ctx.attempt("check_positions", check_positions, ctx, lib)
    ctx.attempt("check_is_valid", check_is_valid, ctx, lib)
    # is_valid decides through Variable's kind predicates and accessors (is_boolean, is_number, as_array, ..): their table per
    # kind of value (shared with C06 / C10)
    from ..leaf import check_accessors
    n_acc = check_accessors(ctx, lib, "accessor-table")
    ctx.floor("accessor-table", n_acc, 100, "accessor/predicate decision paths walked")
    # a call on the right of a pipe / dot is reached whatever the left side produced (no shortcut): Subexpr row (shared with C01)
    from ..interp import Interp
    from . import c01
    ip = Interp(lib)
    if ip.ok and "Subexpr" in ip.arms:
        ctx.attempt("arm_Subexpr", c01.arm_Subexpr, ctx, ip, ip.arms["Subexpr"])
    cn = ctx.fn("functions::CustomFunction::new", rule=rule)
    if cn is not None:
        o = Origins(cn, lib)
        aggs = [s for _, _, s in cn.stmts() if s["k"] == "assign" and s["rv"]["k"] == "agg" and s["rv"].get("adt") == "functions::CustomFunction"]
        ok = len(aggs) == 1
        if ok:
            vals = dict(zip(aggs[0]["rv"]["fnames"], (o.of_operand(x) for x in aggs[0]["rv"]["ops"])))
            ok = vals["signature"] == {("param", 1)} and vals["f"] == {("param", 2)}
        ctx.check(ok, rule, "constructor", "CustomFunction::new stores the given signature and closure", cn.span)
