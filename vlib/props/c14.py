"""C14 — serde bridge: typed values are searched as their JSON image and decode back (tables)."""
import re

from .. import rettags as RT
from ..analysis import Branches, Origins, edge_dominates, fmt_terms, reach_avoiding, region_always_errs, strip_through
from ..serde_tables import SER, VAR, casts_in, f64_mapping_ok, int_entry_ok
from ..tmatch import ANY, Agg, Call, Each, Or_, m, ms

fs = frozenset
P1, P2, P3, P4, P5 = (("param", i) for i in range(1, 6))
TOV = "variable::to_variable"
BNEW = r"BTreeMap::<K, V>::new$"
INS = r"BTreeMap::<K, V, A>::insert$"
PUSH = r"Vec::<T, A>::push$"

EXPLANATION = (
    "The bridge is a pair of finite tables, each decided row by row from MIR provenance: (1) SERIALIZER — the set of methods of "
    "variable::Serializer and of its seven compound-state impls equals the table; every row builds serde_json's "
    "value::Serializer image (bool->Bool; i8..u64 -> Number::from of the same width, cast-free; f32 widened; f64 -> from_f64 "
    "else Null; char/str -> String of exactly the argument; bytes -> Array of Number(u8); unit/none/unit_struct -> Null; "
    "unit_variant -> String(variant); newtype_struct/some -> the inner value's serialisation with the same serializer; "
    "newtype_variant -> {variant: inner}; seq/tuple/tuple_struct -> Array in push order; tuple_variant -> {variant: Array}; "
    "map/struct -> Object with the String key from serialize_key / the field name; struct_variant -> {variant: Object}); "
    "(2) DESERIALIZER — deserialize_any dispatches each Variable kind to the like-named visitor method, deserialize_option / "
    "enum / newtype_struct and the VariantAccess methods follow serde_json's Value deserializer case table with errors on "
    "kind mismatch; (3) SEQUENCE COMPLETENESS — wherever a crate-local SeqAccess is handed to visit_seq, Ok is reachable only "
    "through a test that the iterator is exhausted (serde_json's visit_array); (4) search input goes through this bridge "
    "(blanket ToJmespath -> from_serializable -> value.serialize(Serializer))."
)
ASSUMPTIONS = [
    "serde_json's value::Serializer / Value deserializer tables as documented (the reference the rows were transcribed from)",
    "shapes the statement excludes (non-string map keys, 128-bit integers) are not compared",
]


def body_of(ctx, lib, name, rule):
    return ctx.fn(name, rule=rule)


def results(b, lib):
    o = Origins(b, lib)
    oks, opaque = RT.ok_values(b)
    okt = [o.of_operand(op) for _, op in oks]
    tails = []
    for blk, c in opaque:
        if isinstance(c, dict) and c.get("k") == "call":
            tails.extend(sorted(o._call(c, blk, 0), key=str))
    return o, okt, tails


def run(ctx):
    lib = ctx.lib()
    ctx.attempt("check_serializer", check_serializer, ctx, lib)
    ctx.attempt("check_states", check_states, ctx, lib)
    ctx.attempt("check_deserializer", check_deserializer, ctx, lib)
    ctx.attempt("check_completeness", check_completeness, ctx, lib)
    ctx.attempt("check_entry", check_entry, ctx, lib)
    # a Variable is also a serde data *source* (results handed to serde_json / to T::deserialize): its Serialize table (shared with C08)
    from . import c08
    ctx.attempt("check_serialize", c08.check_serialize, ctx, lib)
    # Deserialize for Variable (the other half of the bridge: what a decoded-from-text value is)
    ctx.attempt("check_visitor", c08.check_visitor, ctx, lib)


# =============================================================================================
def variant_obj(inner):
    """Object{ BTreeMap::new() } + an insert(new, variant, inner) in the body is checked separately."""
    return Agg(VAR + "::Object", Each(Call(BNEW, regex=True)))


def check_insert(b, o, map_pat, key_pat, val_pat):
    ins = [t for _, t in b.calls() if re.search(INS, t["callee"])]
    if len(ins) != 1:
        return False
    a = [o.of_operand(x) for x in ins[0]["args"]]
    return ms(a[0], map_pat) and ms(a[1], key_pat) and ms(a[2], val_pat)


def check_serializer(ctx, lib):
    rule = "serializer-table"
    ints = ["i8", "i16", "i32", "i64", "u8", "u16", "u32", "u64"]
    expected = {"serialize_bool", "serialize_f32", "serialize_f64", "serialize_char", "serialize_str", "serialize_bytes",
                "serialize_unit", "serialize_unit_struct", "serialize_unit_variant", "serialize_newtype_struct",
                "serialize_newtype_variant", "serialize_none", "serialize_some", "serialize_seq", "serialize_tuple",
                "serialize_tuple_struct", "serialize_tuple_variant", "serialize_map", "serialize_struct",
                "serialize_struct_variant"} | {f"serialize_{t}" for t in ints}
    found = {b.item_name: b for b in lib.fn_bodies() if b.impl_trait == "serde::Serializer" and b.impl_self == "variable::Serializer" and b.kind == "method"}
    ctx.check(set(found) == expected, rule, "method-set", f"variable::Serializer implements exactly the tabulated methods (missing {sorted(expected - set(found))}, untabulated {sorted(set(found) - expected)})")
    n = 0

    def row(name, ok, text):
        nonlocal n
        n += 1
        b = found.get(name)
        ctx.check(ok, rule, name, f"{name}: {text}", b.span if b else "")

    def R(name):
        b = found.get(name)
        if b is None:
            return None, None, [], []
        o, okt, tails = results(b, lib)
        return b, o, okt, tails

    b, o, okt, tails = R("serialize_bool")
    row("serialize_bool", b and len(okt) == 1 and ms(okt[0], Agg(VAR + "::Bool", Each(P2))) and not tails, "Bool(value)")
    for t in ints:
        b, o, okt, tails = R(f"serialize_{t}")
        ok = bool(b) and len(okt) == 1 and ms(okt[0], Agg(VAR + "::Number", Each(P2))) and not tails
        if ok:
            ok, why = int_entry_ok(b, t, P2)
        row(f"serialize_{t}", ok, f"Number(Number::from::<{t}>(value)) with no numeric cast")
    b, o, okt, tails = R("serialize_f32")
    cs = casts_in(b) if b else []
    # the exact widening, written `value as f64` or `f64::from(value)`
    by_cast = bool(b) and not okt and len(tails) == 1 and m(tails[0], Call("serde::Serializer::serialize_f64", Each(P1), Each(lambda x: x[0] == "cast" and x[1] == P2 and x[2] == "f64"))) and \
        len(cs) == 1 and cs[0][1] == "f32" and cs[0][2] == "f64"
    by_from = bool(b) and not okt and len(tails) == 1 and m(tails[0], Call("serde::Serializer::serialize_f64", Each(P1), Each(P2))) and not cs and \
        [t["callee_args"] for _, t in b.calls() if t["callee"] == "std::convert::From::from"] == [["f64", "f32"]]
    row("serialize_f32", by_cast or by_from, "widens to f64 and delegates to serialize_f64 on the same serializer")
    b, o, okt, tails = R("serialize_f64")
    ok = bool(b) and len(okt) >= 1 and not tails and f64_mapping_ok(set().union(*okt), P2)
    row("serialize_f64", ok and not casts_in(b), "Number(from_f64(value)) when finite, Null otherwise")
    if b is not None:
        from ..serde_tables import f64_decided_by_from_f64
        row("serialize_f64:decided-by-from_f64", f64_decided_by_from_f64(b, o, P2), "every result lies after Number::from_f64(value); only a finiteness test of the value may come first")
    b, o, okt, tails = R("serialize_str")
    row("serialize_str", bool(b) and len(okt) == 1 and not tails and ms(okt[0], Agg(VAR + "::String", Each(P2))), "String(exactly the argument)")
    b, o, okt, tails = R("serialize_char")
    # a one-character string, whatever way it is made: String::new + push(c), c.encode_utf8(buf), c.to_string(), String::from(c)
    ok = bool(b) and not okt and len(tails) == 1 and tails[0][0] == "call" and tails[0][1] == "serde::Serializer::serialize_str" and set(tails[0][2][0]) == {P1}
    if ok:
        for x in tails[0][2][1]:
            if m(x, Call("std::string::String::new")):
                ps = [t for _, t in b.calls() if t["callee"] == "std::string::String::push"]
                others = [t["callee"] for _, t in b.calls() if t["callee"].startswith("std::string::String::") and t["callee"] not in ("std::string::String::new", "std::string::String::push")]
                ok = ok and len(ps) == 1 and o.of_operand(ps[0]["args"][1]) == {P2} and not others
            elif x[0] == "call" and x[1].endswith("::encode_utf8") and set(x[2][0]) == {P2}:
                pass
            elif x[0] == "call" and x[1] in ("std::string::ToString::to_string", "std::convert::From::from", "std::convert::Into::into") and set(x[2][0]) == {P2}:
                pass
            elif x == P2 and [t["callee"] for _, t in b.calls() if t["callee"] in ("std::string::ToString::to_string", "std::convert::From::from", "std::convert::Into::into")
                              and o.of_operand(t["args"][0]) == {P2}]:
                pass        # String::from(c) / c.to_string() / c.into(): conversions are transparent in provenance
            else:
                ok = False
    if not ok and b and okt and not tails:
        # built in place: Ok(Variable::String(<the character as a String>))
        conv = [t for _, t in b.calls() if t["callee"] in ("std::string::ToString::to_string", "std::convert::From::from", "std::convert::Into::into")
                and o.of_operand(t["args"][0]) == {P2}]
        other = [t["callee"] for _, t in b.calls() if t not in conv]
        ok = all(ms(t, Agg(VAR + "::String", Each(P2))) for t in okt) and len(conv) == 1 and not other
    row("serialize_char", ok, "String consisting of exactly that character")
    b, o, okt, tails = R("serialize_bytes")
    # the bytes in order, each as Number(byte) — as an iterator chain or as a loop (collected.describe_vector)
    ok = bool(b) and len(okt) == 1 and not tails and bool(okt[0]) and all(t[0] == "agg" and t[1] == VAR + "::Array" for t in okt[0])
    if ok:
        from ..collected import ELEM, describe_vector
        for t in okt[0]:
            d = describe_vector(lib, b, o, set(t[2][0]))
            ok = ok and d is not None and len(d) == 1 and d[0].source == {P2} and d[0].every_item and not d[0].fallible and \
                bool(d[0].value) and all(v[0] == "agg" and v[1] == VAR + "::Number" and set(v[2][0]) == {ELEM} for v in d[0].value)
        froms = [t for bd in [b] + lib.closures_of(b.deff) for _, t in bd.calls() if t["callee"] in ("std::convert::From::from", "std::convert::Into::into")]
        conv_ok = len(froms) == 1 and ((froms[0]["callee"].endswith("From::from") and froms[0]["callee_args"] == ["serde_json::Number", "u8"]) or
                                       (froms[0]["callee"].endswith("Into::into") and froms[0]["callee_args"] == ["u8", "serde_json::Number"]))
        ok = ok and conv_ok and not casts_in(b) and not any(casts_in(c) for c in lib.closures_of(b.deff))
    row("serialize_bytes", ok, "Array of Number(byte) in order")
    b, o, okt, tails = R("serialize_unit")
    row("serialize_unit", bool(b) and len(okt) == 1 and not tails and ms(okt[0], Agg(VAR + "::Null")), "Null")
    for nm in ("serialize_none", "serialize_unit_struct"):
        b, o, okt, tails = R(nm)
        row(nm, bool(b) and not okt and len(tails) == 1 and m(tails[0], Call("serde::Serializer::serialize_unit", Each(P1))), "delegates to serialize_unit (Null)")
    b, o, okt, tails = R("serialize_unit_variant")
    row("serialize_unit_variant", bool(b) and not okt and len(tails) == 1 and m(tails[0], Call("serde::Serializer::serialize_str", Each(P1), Each(P4))), "String(variant name)")
    b, o, okt, tails = R("serialize_newtype_struct")
    row("serialize_newtype_struct", bool(b) and not okt and len(tails) == 1 and m(tails[0], Call("serde::Serialize::serialize", Each(P3), Each(P1))), "the inner value serialised with this serializer")
    b, o, okt, tails = R("serialize_some")
    row("serialize_some", bool(b) and not okt and len(tails) == 1 and m(tails[0], Call("serde::Serialize::serialize", Each(P2), Each(P1))), "the inner value serialised with this serializer")
    b, o, okt, tails = R("serialize_newtype_variant")
    ok = bool(b) and len(okt) == 1 and not tails and ms(okt[0], variant_obj(None)) and \
        check_insert(b, o, Call(BNEW, regex=True), P4, Call(TOV, Each(P5)))
    row("serialize_newtype_variant", ok, "Object{variant: serialisation of the inner value}")
    b, o, okt, tails = R("serialize_seq")
    row("serialize_seq", bool(b) and len(okt) == 1 and not tails and ms(okt[0], Agg("variable::SeqState::SeqState", Each(Call(r"Vec::<T>::(with_capacity|new)$", ANY, regex=True)))), "an empty element vector")
    for nm, idx in (("serialize_tuple", P2), ("serialize_tuple_struct", P3)):
        b, o, okt, tails = R(nm)
        row(nm, bool(b) and not okt and len(tails) == 1 and m(tails[0], Call("serde::Serializer::serialize_seq", Each(P1), ANY)), "delegates to serialize_seq")
    b, o, okt, tails = R("serialize_tuple_variant")
    ok = bool(b) and len(okt) == 1 and not tails and ms(okt[0], Agg("variable::TupleVariantState::TupleVariantState", Each(P4), Each(Call(r"Vec::<T>::(with_capacity|new)$", ANY, regex=True))))
    row("serialize_tuple_variant", ok, "state {name: variant, vec: empty}")
    b, o, okt, tails = R("serialize_map")
    ok = bool(b) and len(okt) == 1 and not tails and ms(okt[0], Agg("variable::MapState::MapState", Each(Call(BNEW, regex=True)), Each(Agg("std::option::Option::None"))))
    row("serialize_map", ok, "state {map: empty, next_key: None}")
    b, o, okt, tails = R("serialize_struct")
    row("serialize_struct", bool(b) and not okt and len(tails) == 1 and m(tails[0], Call("serde::Serializer::serialize_map", Each(P1), ANY)), "delegates to serialize_map")
    b, o, okt, tails = R("serialize_struct_variant")
    ok = bool(b) and len(okt) == 1 and not tails and ms(okt[0], Agg("variable::StructVariantState::StructVariantState", Each(P4), Each(Call(BNEW, regex=True))))
    row("serialize_struct_variant", ok, "state {name: variant, map: empty}")
    ctx.floor(rule, n, 28, "serializer rows")


def check_states(ctx, lib):
    rule = "serializer-state-table"
    found = {}
    for b in lib.fn_bodies():
        if b.kind == "method" and (b.impl_trait or "").startswith("serde::ser::Serialize") and (b.impl_self or "").startswith("variable::"):
            found[(b.impl_self.split("::")[-1], b.impl_trait.split("::")[-1], b.item_name)] = b
    expected = {
        ("SeqState", "SerializeSeq", "serialize_element"), ("SeqState", "SerializeSeq", "end"),
        ("SeqState", "SerializeTuple", "serialize_element"), ("SeqState", "SerializeTuple", "end"),
        ("SeqState", "SerializeTupleStruct", "serialize_field"), ("SeqState", "SerializeTupleStruct", "end"),
        ("TupleVariantState", "SerializeTupleVariant", "serialize_field"), ("TupleVariantState", "SerializeTupleVariant", "end"),
        ("MapState", "SerializeMap", "serialize_key"), ("MapState", "SerializeMap", "serialize_value"), ("MapState", "SerializeMap", "end"),
        ("MapState", "SerializeStruct", "serialize_field"), ("MapState", "SerializeStruct", "end"),
        ("StructVariantState", "SerializeStructVariant", "serialize_field"), ("StructVariantState", "SerializeStructVariant", "end"),
    }
    ctx.check(set(found) == expected, rule, "method-set", f"the compound-state impls are exactly the tabulated ones (missing {sorted(expected - set(found))}, untabulated {sorted(set(found) - expected)})")
    n = 0

    def row(key, ok, text):
        nonlocal n
        n += 1
        b = found.get(key)
        ctx.check(bool(ok), rule, ".".join(key), f"{key[0]} as {key[1]}::{key[2]}: {text}", b.span if b else "")

    def pushes(b, o, vec_pat, val_pat):
        ps = [t for _, t in b.calls() if re.search(PUSH, t["callee"])]
        return len(ps) == 1 and ms(o.of_operand(ps[0]["args"][0]), vec_pat) and ms(o.of_operand(ps[0]["args"][1]), val_pat)

    unit = lambda x: x[0] == "agg" and x[1] == "tuple" and not x[2]
    k = ("SeqState", "SerializeSeq", "serialize_element")
    if k in found:
        o, okt, tails = results(found[k], lib)
        row(k, pushes(found[k], o, ("field", P1, "0"), Call(TOV, Each(P2))) and len(okt) == 1 and ms(okt[0], unit), "pushes the element's serialisation onto the vector (arrival order)")
    k = ("SeqState", "SerializeSeq", "end")
    if k in found:
        o, okt, tails = results(found[k], lib)
        row(k, len(okt) == 1 and not tails and ms(okt[0], Agg(VAR + "::Array", Each(("field", P1, "0")))), "Array(the collected elements)")
    for tr, meth in (("SerializeTuple", "serialize_element"), ("SerializeTupleStruct", "serialize_field")):
        k = ("SeqState", tr, meth)
        if k in found:
            o, okt, tails = results(found[k], lib)
            row(k, not okt and len(tails) == 1 and m(tails[0], Call("serde::ser::SerializeSeq::serialize_element", Each(P1), Each(P2))), "same as a sequence element")
        k = ("SeqState", tr, "end")
        if k in found:
            o, okt, tails = results(found[k], lib)
            row(k, not okt and len(tails) == 1 and m(tails[0], Call("serde::ser::SerializeSeq::end", Each(P1))), "same as a sequence")
    k = ("TupleVariantState", "SerializeTupleVariant", "serialize_field")
    if k in found:
        o, okt, tails = results(found[k], lib)
        row(k, pushes(found[k], o, ("field", P1, "vec"), Call(TOV, Each(P2))) and len(okt) == 1, "pushes the field's serialisation")
    k = ("TupleVariantState", "SerializeTupleVariant", "end")
    if k in found:
        b = found[k]
        o, okt, tails = results(b, lib)
        ok = len(okt) == 1 and not tails and ms(okt[0], variant_obj(None)) and \
            check_insert(b, o, Call(BNEW, regex=True), ("field", P1, "name"), Agg(VAR + "::Array", Each(("field", P1, "vec"))))
        row(k, ok, "Object{variant: Array(fields)}")
    k = ("MapState", "SerializeMap", "serialize_key")
    if k in found:
        b = found[k]
        o = Origins(b, lib)
        br = Branches(b, o)
        ok = False
        sb, ve = br.first_variant_switch(VAR, lambda s: ms(s, Call(TOV, Each(P2))))
        if ve is not None:
            if set(ve["edges"]) == {"String"}:
                # String arm stores Some(s) into next_key; other arm errs
                stores = [(bb, s) for bb, i, s in b.stmts() if s["k"] == "assign" and s["place"]["p"] and any(isinstance(e, dict) and e.get("name") == "next_key" for e in s["place"]["p"])]
                ok = len(stores) == 1 and edge_dominates(b, (sb, ve["edges"]["String"]), stores[0][0]) and \
                    ms(o._rv(stores[0][1]["rv"], stores[0][0], 0), Agg("std::option::Option::Some", Each(("field", Call(TOV, Each(P2)), "String.0")))) and \
                    region_always_errs(b, {x for x in reach_avoiding(b, ve["otherwise"]) if edge_dominates(b, (sb, ve["otherwise"]), x)})
        row(k, ok, "a key must serialise to a String, which becomes the pending key; any other key kind is an error")
    k = ("MapState", "SerializeMap", "serialize_value")
    if k in found:
        b = found[k]
        o = Origins(b, lib)
        ok = check_insert(b, o, ("field", P1, "map"), Call(r"Option::<T>::take$", Each(("field", P1, "next_key")), regex=True), Call(TOV, Each(P2)))
        row(k, ok, "inserts (pending key -> the value's serialisation) into the map")
    k = ("MapState", "SerializeMap", "end")
    if k in found:
        o, okt, tails = results(found[k], lib)
        row(k, len(okt) == 1 and not tails and ms(okt[0], Agg(VAR + "::Object", Each(("field", P1, "map")))), "Object(the collected map)")
    k = ("MapState", "SerializeStruct", "serialize_field")
    if k in found:
        b = found[k]
        o, okt, tails = results(b, lib)
        calls = [(bb, t) for bb, t in b.calls() if t["callee"].startswith("serde::ser::SerializeMap::")]
        ok = [t["callee"].split("::")[-1] for _, t in calls] == ["serialize_key", "serialize_value"]
        if ok:
            ok = o.of_operand(calls[0][1]["args"][1]) == {P2} and o.of_operand(calls[1][1]["args"][1]) == {P3} and \
                o.of_operand(calls[0][1]["args"][0]) == {P1} and o.of_operand(calls[1][1]["args"][0]) == {P1} and b.dominates(calls[0][0], calls[1][0])
        row(k, ok, "serialize_key(field name)? then serialize_value(value)")
    k = ("MapState", "SerializeStruct", "end")
    if k in found:
        o, okt, tails = results(found[k], lib)
        row(k, not okt and len(tails) == 1 and m(tails[0], Call("serde::ser::SerializeMap::end", Each(P1))), "same as a map")
    k = ("StructVariantState", "SerializeStructVariant", "serialize_field")
    if k in found:
        b = found[k]
        o = Origins(b, lib)
        row(k, check_insert(b, o, ("field", P1, "map"), P2, Call(TOV, Each(P3))), "inserts (field name -> the value's serialisation)")
    k = ("StructVariantState", "SerializeStructVariant", "end")
    if k in found:
        b = found[k]
        o, okt, tails = results(b, lib)
        ok = len(okt) == 1 and not tails and ms(okt[0], variant_obj(None)) and \
            check_insert(b, o, Call(BNEW, regex=True), ("field", P1, "name"), Agg(VAR + "::Object", Each(("field", P1, "map"))))
        row(k, ok, "Object{variant: Object(fields)}")
    ctx.floor(rule, n, 15, "compound-state rows")
    tv = lib.fn(TOV)
    if tv is not None:
        sc = [t for _, t in tv.calls()]
        ok = len(sc) == 1 and sc[0]["callee"] == "serde::Serialize::serialize" and sc[0]["callee_args"][1:] == ["variable::Serializer"] and \
            Origins(tv, lib).of_operand(sc[0]["args"][0]) == {P1}
        ctx.check(ok, rule, "to_variable", "to_variable(v) = v.serialize(variable::Serializer) (nested values go through the same table)", tv.span)


# =============================================================================================
def field_by_type(lib, adt, ty_prefix, default):
    """Name of the one field of a private struct whose type starts with ty_prefix (private fields may be renamed)."""
    a = lib.adts.get(adt)
    if a and a.get("kind") == "struct" and a["variants"]:
        fs_ = [f["name"] for f in a["variants"][0]["fields"] if (f.get("ty") or "").startswith(ty_prefix)]
        if len(fs_) == 1:
            return fs_[0]
    return default


def arm_regions(b, br, adt, scrutinee_pat):
    sb, ve = br.first_variant_switch(adt, lambda s: ms(s, scrutinee_pat))
    if ve is not None:
        if True:
            out = {}
            for v, tgt in ve["edges"].items():
                out[v] = {x for x in reach_avoiding(b, tgt) if edge_dominates(b, (sb, tgt), x)}
            rest = [v for v in ve["all"] if v not in ve["edges"]]
            if rest:
                reg = {x for x in reach_avoiding(b, ve["otherwise"]) if edge_dominates(b, (sb, ve["otherwise"]), x)}
                for v in rest:
                    out[v] = reg
            return sb, ve, out
    return None, None, {}


def visitor_calls(b, blocks):
    out = []
    for x in sorted(blocks):
        t = b.blocks[x]["term"]
        if t["k"] == "call" and (t["callee"].startswith("serde::de::Visitor::") or t["callee"].startswith("serde::Deserializer::") or
                                 t["callee"].startswith("serde::de::DeserializeSeed::") or t["callee"].startswith("serde::Deserialize::")):
            out.append(t)
    return out


def check_deserializer(ctx, lib):
    rule = "deserializer-table"
    D = "<variable::Variable as serde::Deserializer<'de>>::"
    b = ctx.fn(D + "deserialize_any", rule=rule)
    n = 0
    if b is not None:
        o = Origins(b, lib)
        br = Branches(b, o)
        sb, ve, arms = arm_regions(b, br, VAR, P1)
        want = {"Null": "visit_unit", "Bool": "visit_bool", "String": "visit_string", "Array": "visit_seq", "Object": "visit_map", "Expref": "visit_string"}
        if ve is None:
            ctx.missing(rule, "deserialize_any:switch", "dispatch on the value's kind")
        else:
            for kind, meth in want.items():
                vc = [t["callee"].split("::")[-1] for t in visitor_calls(b, arms.get(kind, set()))]
                n += 1
                ctx.check(vc == [meth], rule, f"deserialize_any:{kind}", f"{kind} -> visitor.{meth} (found {vc})", b.span)
            num = [t for x in sorted(arms.get("Number", set())) for t in [b.blocks[x]["term"]] if t["k"] == "call" and t["callee"] == "serde::Deserializer::deserialize_any"]
            n += 1
            ok = len(num) == 1 and num[0]["callee_args"][0] == "serde_json::Number" and o.of_operand(num[0]["args"][0]) == {("field", P1, "Number.0")}
            ctx.check(ok, rule, "deserialize_any:Number", "Number -> serde_json's own Number deserializer (integer vs float preserved)", b.span)
            # payloads
            for kind, meth in (("Bool", "visit_bool"), ("String", "visit_string")):
                t = [t for t in visitor_calls(b, arms.get(kind, set())) if t["callee"].endswith(meth)]
                ok = len(t) == 1 and o.of_operand(t[0]["args"][1]) == {("field", P1, f"{kind}.0")}
                ctx.check(ok, rule, f"deserialize_any:{kind}:payload", f"{kind} hands its own payload to the visitor", b.span)
            t = [t for t in visitor_calls(b, arms.get("Array", set())) if t["callee"].endswith("visit_seq")]
            ok = len(t) == 1 and ms(o.of_operand(t[0]["args"][1]), Agg("variable::SeqDeserializer::SeqDeserializer", Each(("iter", ("field", P1, "Array.0"))), ANY))
            ctx.check(ok, rule, "deserialize_any:Array:payload", "Array hands an in-order iterator over its own elements to the visitor", b.span)
            t = [t for t in visitor_calls(b, arms.get("Object", set())) if t["callee"].endswith("visit_map")]
            ok = len(t) == 1 and ms(o.of_operand(t[0]["args"][1]), Agg("variable::MapDeserializer::MapDeserializer", Each(("iter", ("field", P1, "Object.0"))), Each(Agg("std::option::Option::None"))))
            ctx.check(ok, rule, "deserialize_any:Object:payload", "Object hands an iterator over its own entries to the visitor", b.span)
    b = ctx.fn(D + "deserialize_option", rule=rule)
    if b is not None:
        o = Origins(b, lib)
        br = Branches(b, o)
        sb, ve, arms = arm_regions(b, br, VAR, P1)
        ok = ve is not None
        if ok:
            nul = [t["callee"].split("::")[-1] for t in visitor_calls(b, arms.get("Null", set()))]
            oth = {k: [t["callee"].split("::")[-1] for t in visitor_calls(b, arms.get(k, set()))] for k in ("Bool", "Number", "String", "Array", "Object")}
            ok = nul == ["visit_none"] and all(v == ["visit_some"] for v in oth.values())
            vs = [t for t in visitor_calls(b, arms.get("String", set())) if t["callee"].endswith("visit_some")]
            ok = ok and len(vs) == 1 and o.of_operand(vs[0]["args"][1]) == {P1}
        n += 1
        ctx.check(ok, rule, "deserialize_option", "Null -> visit_none, anything else -> visit_some(the value itself)", b.span)
    b = ctx.fn(D + "deserialize_newtype_struct", rule=rule)
    if b is not None:
        o = Origins(b, lib)
        vc = [t for _, t in b.calls()]
        ok = len(vc) == 1 and vc[0]["callee"].endswith("visit_newtype_struct") and o.of_operand(vc[0]["args"][1]) == {P1}
        n += 1
        ctx.check(ok, rule, "deserialize_newtype_struct", "visit_newtype_struct(the value itself)", b.span)
    b = ctx.fn(D + "deserialize_enum", rule=rule)
    if b is not None:
        # decided per kind of `self` (7 cases), whatever the dispatch is written as (one match, an early `if let String`
        # return followed by a match, ..): which blocks run, what the visitor is handed, what is returned
        from ..analysis import is_failure_term
        from ..decision import Undecided
        from ..leaf import KINDS, kind_walker
        ok = True
        detail = []
        blocks_of = {}
        walkers = {}
        for K in KINDS:
            w = kind_walker(b, lib, K)
            w.cut_loops = True
            w.max_steps = 4000
            try:
                paths = w.walk()
            except Undecided as e:
                ok = False
                detail.append(f"{K}: undecided ({e})")
                paths = []
            walkers[K] = (w, paths)
            blocks_of[K] = set().union(*[set(p) for p, _ in paths]) if paths else set()
        common = set.intersection(*[v for v in blocks_of.values() if v]) if any(blocks_of.values()) else set()
        ve_all = [(x, t) for x, t in b.calls() if t["callee"].endswith("visit_enum")]
        for K in KINDS:
            w, paths = walkers[K]
            here = [(x, t) for x, t in ve_all if x in blocks_of[K]]
            if K not in ("Object", "String"):
                # any other kind is an error: no visitor call, every path returns a failure
                good = not here and bool(paths)
                for path, leaf in paths:
                    r = w.result_on_path(path)
                    good = good and bool(r) and all(is_failure_term(x) for x in r)
                if not good:
                    detail.append(f"{K}: not an error")
                ok = ok and good
                continue
            if len(here) != 1:
                ok = False
                detail.append(f"{K}: {len(here)} visit_enum calls")
                continue
            vb, vt = here[0]
            po = Origins(b, lib, only_blocks=blocks_of[K])
            ED = "variable::EnumDeserializer"
            f_var = field_by_type(lib, ED, "std::string::String", "variant")
            f_val = field_by_type(lib, ED, "std::option::Option<", "val")
            for e_ in po.of_operand(vt["args"][1]):
                if not (e_[0] == "agg" and e_[1].startswith(ED) and len(e_[2]) == 2):
                    ok = False
                    detail.append(f"{K}: visitor argument is not an EnumDeserializer")
                    continue
                names_ = e_[3] if len(e_) > 3 and e_[3] else (f_var, f_val)
                vals_ = dict(zip(names_, e_[2]))
                variant_t = set(vals_.get(f_var, ()))
                content = {strip_through(x) for x in vals_.get(f_val, ())}
                if K == "String":
                    good = bool(content) and all(x[0] == "agg" and x[1] == "std::option::Option::None" for x in content) and variant_t == {("field", P1, "String.0")}
                else:
                    entry = ("elem", ("field", P1, "Object.0"))
                    good = bool(content) and all(x[0] == "agg" and x[1] == "std::option::Option::Some" and set(x[2][0]) == {("field", entry, "1")} for x in content) and \
                        variant_t == {("field", entry, "0")}
                if not good:
                    detail.append(f"{K}: visitor is handed {fmt_terms(variant_t)[:40]} / {fmt_terms(content)[:60]}")
                ok = ok and good
            if K == "Object":
                # the visitor is reached only with a first entry present and no second one: two next() calls on the map's
                # iterator; every path to the visitor takes the Some edge of the first and the None edge of the second
                br = Branches(b, Origins(b, lib))
                nx = [x for x in sorted(blocks_of[K] - common) if b.blocks[x]["term"]["k"] == "call" and b.blocks[x]["term"]["callee"] == "std::iter::Iterator::next"]
                if len(nx) != 2:
                    ok = False
                    detail.append(f"Object: {len(nx)} next() calls (expected the first and the second entry)")
                else:
                    first, second = (nx[0], nx[1]) if b.dominates(nx[0], nx[1]) else (nx[1], nx[0])

                    def root_call(pl, depth=0):
                        """Block of the call whose result this place is (through moves and a tuple built and taken apart)."""
                        if depth > 6:
                            return None
                        defs = b.assigns_to(pl["l"])
                        if len(defs) != 1:
                            return None
                        blk_, i_, rv = defs[0]
                        if i_ == "term":
                            return blk_
                        if rv["k"] == "use" and rv["op"].get("k") in ("copy", "move"):
                            return root_call(rv["op"], depth + 1)
                        if rv["k"] == "ref":
                            return root_call(rv["place"], depth + 1)
                        if rv["k"] == "agg" and rv.get("ak") == "tuple":
                            fs_ = [e2 for e2 in pl["p"] if isinstance(e2, dict) and "f" in e2]
                            if fs_ and fs_[0]["f"] < len(rv["ops"]) and rv["ops"][fs_[0]["f"]].get("k") in ("copy", "move"):
                                return root_call(rv["ops"][fs_[0]["f"]], depth + 1)
                        return None
                    first_edges, second_edges = set(), set()
                    for sb2, sw2 in br.switches():
                        ve2 = br.variant_edges(sb2)
                        if ve2 and ve2["adt"] == "std::option::Option":
                            rc = root_call(ve2["place"])
                            none_t = ve2["edges"].get("None", ve2["otherwise"])
                            if rc == first and "Some" in ve2["edges"] and ve2["edges"]["Some"] != none_t:
                                first_edges.add((sb2, ve2["edges"]["Some"]))
                            if rc == second and none_t != ve2["edges"].get("Some"):
                                second_edges.add((sb2, none_t))
                        be2 = br.bool_edges(sb2)
                        if be2:
                            for t3 in (t for _, t in b.calls() if t["callee"] in ("std::option::Option::<T>::is_some", "std::option::Option::<T>::is_none")):
                                if t3["t"] == sb2 or b.blocks[sb2]["term"]["discr"].get("l") == t3["dest"]["l"]:
                                    rc = root_call(t3["args"][0])
                                    want_edge = be2[1] if t3["callee"].endswith("is_some") else be2[0]
                                    if rc == second:
                                        second_edges.add((sb2, want_edge))
                    # every walked path of the Object case that reaches the visitor takes a first-is-Some and a second-is-None edge
                    some_first = none_second = any(vb in p_ for p_, _ in paths)
                    for p_, _ in paths:
                        if vb not in p_:
                            continue
                        upto = p_[: p_.index(vb) + 1]
                        pairs = set(zip(upto, upto[1:]))
                        some_first = some_first and bool(pairs & first_edges)
                        none_second = none_second and bool(pairs & second_edges)
                    if not (some_first and none_second):
                        detail.append("Object: the visitor is not guarded by (first entry present, second absent)")
                    ok = ok and some_first and none_second
                # every other way out of the Object case is an error
                for path, leaf in paths:
                    if vb in path:
                        continue
                    r = w.result_on_path(path)
                    if not (r and all(is_failure_term(x) for x in r)):
                        ok = False
                        detail.append("Object: a path that does not reach the visitor returns something other than an error")
        n += 1
        ctx.check(ok, rule, "deserialize_enum", "a String is a unit-like variant, a single-entry Object is (variant, content); an empty or multi-entry map or any other kind is an error"
                  + (f" — {detail[:3]}" if detail else ""), b.span)
    # VariantAccess
    VA = "<variable::VariantDeserializer as serde::de::VariantAccess<'de>>::"
    for meth, text in (("unit_variant", "None -> Ok(()), Some(v) -> v must deserialise as unit"),
                       ("newtype_variant_seed", "Some(v) -> seed.deserialize(v); None is an error"),
                       ("tuple_variant", "Some(Array) -> sequence deserializer; any other content or none is an error"),
                       ("struct_variant", "Some(Object) -> map deserializer; any other content or none is an error")):
        b = ctx.fn(VA + meth, rule=rule)
        if b is None:
            continue
        o = Origins(b, lib)
        br = Branches(b, o)
        ok = False
        opt = None
        VD_VAL = field_by_type(lib, "variable::VariantDeserializer", "std::option::Option<", "val")
        sb, ve = br.first_variant_switch("std::option::Option", lambda s: ms(s, ("field", P1, VD_VAL)))
        if ve is not None:
            opt = (sb, ve)
        if opt:
            sb, ve = opt
            none_reg = {x for x in reach_avoiding(b, ve["edges"].get("None", ve["otherwise"])) if edge_dominates(b, (sb, ve["edges"].get("None", ve["otherwise"])), x)}
            some_t = ve["edges"].get("Some", ve["otherwise"])
            some_reg = reach_avoiding(b, some_t)
            if meth == "unit_variant":
                oks, _ = RT.ok_values(b)
                # Ok(()) on the None side — built there, or built beforehand as the default of a map_or and handed over there
                none_ok = any(blk in none_reg or (b.dominates(blk, sb) and blk != sb) or blk == sb for blk, _ in oks)
                dc = [t for x in sorted(some_reg) for t in [b.blocks[x]["term"]] if t["k"] == "call" and t["callee"] == "serde::Deserialize::deserialize"]
                ok = none_ok and len(dc) == 1 and dc[0]["callee_args"][0] == "()"
            elif meth == "newtype_variant_seed":
                dc = [t for x in sorted(some_reg) for t in [b.blocks[x]["term"]] if t["k"] == "call" and t["callee"] == "serde::de::DeserializeSeed::deserialize"]
                ok = region_always_errs(b, none_reg) and len(dc) == 1 and o.of_operand(dc[0]["args"][0]) == {P2} and o.of_operand(dc[0]["args"][1]) == {("field", P1, VD_VAL)}
            else:
                want_kind, des = ("Array", "SeqDeserializer") if meth == "tuple_variant" else ("Object", "MapDeserializer")
                inner = None
                sb2, ve2 = br.first_variant_switch(VAR, None, within=some_reg)
                if ve2 is not None:
                    inner = (sb2, ve2)
                if inner:
                    sb2, ve2 = inner
                    ok = set(ve2["edges"]) == {want_kind}
                    good = {x for x in reach_avoiding(b, ve2["edges"].get(want_kind, -1)) if edge_dominates(b, (sb2, ve2["edges"][want_kind]), x)} if ok else set()
                    dc = [t for x in sorted(good) for t in [b.blocks[x]["term"]] if t["k"] == "call" and t["callee"] == "serde::Deserializer::deserialize_any"]
                    bad = {x for x in reach_avoiding(b, ve2["otherwise"]) if edge_dominates(b, (sb2, ve2["otherwise"]), x)}
                    ok = ok and len(dc) == 1 and dc[0]["callee_args"][0] == f"variable::{des}" and region_always_errs(b, bad) and region_always_errs(b, none_reg)
        n += 1
        ctx.check(ok, rule, f"variant:{meth}", f"{meth}: {text}", b.span)
    # element / entry access
    sa = ctx.fn("<variable::SeqDeserializer as serde::de::SeqAccess<'de>>::next_element_seed", rule=rule)
    if sa is not None:
        o = Origins(sa, lib)
        nx = [t for _, t in sa.calls() if t["callee"] == "std::iter::Iterator::next"]
        dc = [t for _, t in sa.calls() if t["callee"] == "serde::de::DeserializeSeed::deserialize"]
        ok = len(nx) == 1 and len(dc) == 1 and ms(o.of_operand(nx[0]["args"][0]), Or_(("iter", ("field", P1, "iter")), ("field", P1, "iter"))) and \
            ms(o.of_operand(dc[0]["args"][1]), Or_(("elem", ("field", P1, "iter")), ("elem", ("iter", ("field", P1, "iter")))))
        n += 1
        ctx.check(ok, rule, "seq-access", "next_element hands the next stored element (in order) to the seed, None when exhausted", sa.span)
    ma = ctx.fn("<variable::MapDeserializer as serde::de::MapAccess<'de>>::next_key_seed", rule=rule)
    if ma is not None:
        o = Origins(ma, lib)
        dc = [t for _, t in ma.calls() if t["callee"] == "serde::de::DeserializeSeed::deserialize"]
        ok = len(dc) == 1 and ms(o.of_operand(dc[0]["args"][1]), Agg(VAR + "::String", ANY))
        stores = [s for _, _, s in ma.stmts() if s["k"] == "assign" and s["place"]["p"] and any(isinstance(e, dict) and e.get("name") == "value" for e in s["place"]["p"])]
        ok = ok and len(stores) == 1
        n += 1
        ctx.check(ok, rule, "map-access-key", "next_key hands String(key) to the seed and remembers that entry's value", ma.span)
    mv = ctx.fn("<variable::MapDeserializer as serde::de::MapAccess<'de>>::next_value_seed", rule=rule)
    if mv is not None:
        o = Origins(mv, lib)
        dc = [t for _, t in mv.calls() if t["callee"] == "serde::de::DeserializeSeed::deserialize"]
        ok = len(dc) == 1 and ms(o.of_operand(dc[0]["args"][1]), Call(r"Option::<T>::take$", Each(("field", P1, "value")), regex=True))
        n += 1
        ctx.check(ok, rule, "map-access-value", "next_value hands the remembered value to the seed", mv.span)
    ctx.floor(rule, n, 17, "deserializer rows")


# =============================================================================================
def check_completeness(ctx, lib):
    rule = "sequence-completeness"
    n = 0
    for b in lib.fn_bodies():
        if not (b.deff.startswith("<variable::") or b.deff.startswith("variable::")):
            continue
        o = None
        for bb, t in b.calls():
            if not t["callee"].endswith("Visitor::visit_seq"):
                continue
            if not any("variable::SeqDeserializer" in a for a in t.get("callee_args", [])):
                continue
            n += 1
            o = o or Origins(b, lib)
            br = Branches(b, o)
            # Ok results that carry visit_seq's value must be dominated by an exhaustion test on the iterator
            oks, opaque = RT.ok_values(b)
            res_pred = lambda x: x[0] == "call" and x[1].endswith("Visitor::visit_seq") and x[3] == bb
            carriers = [blk for blk, op in oks if any(res_pred(x) for x in o.of_operand(op))]
            direct = [blk for blk, c in opaque if isinstance(c, dict) and c.get("k") == "call" and blk == bb]
            ok = bool(carriers) and not direct
            for cb in carriers:
                guarded = False
                for sb, sw in br.switches():
                    be = br.bool_edges(sb)
                    if not be:
                        continue
                    for c in br.cond(sb):
                        if c[0] == "bin" and c[1] == "Eq" and ("const", 0) in (c[2], c[3]):
                            other = c[3] if c[2] == ("const", 0) else c[2]
                            if other[0] == "call" and re.search(r"(ExactSizeIterator::len|::len)$", other[1]) and \
                                    any("iter" in str(x) for x in other[2][0]) and edge_dominates(b, (sb, be[0]), cb):
                                guarded = True
                        if c[0] == "call" and c[1].endswith("::is_none") and edge_dominates(b, (sb, be[0]), cb):
                            guarded = True
                ok = ok and guarded
            ctx.check(ok, rule, f"{b.deff}", f"{b.deff}: the visitor's result becomes Ok only after checking that no element is left (otherwise an invalid-length error), as serde_json's visit_array does", t["span"]["s"])
    ctx.floor(rule, n, 2, "places where a crate-local SeqAccess is handed to visit_seq")


def check_entry(ctx, lib):
    rule = "search-input-bridge"
    b = ctx.fn("<T as ToJmespath>::to_jmespath", rule=rule)
    if b is not None:
        names = [t["callee"] for _, t in b.calls()]
        ctx.check(names[:1] == ["variable::Variable::from_serializable"], rule, "blanket", f"the blanket ToJmespath goes through Variable::from_serializable (calls {names})", b.span)
    fsb = ctx.fn("variable::Variable::from_serializable", rule=rule)
    if fsb is not None:
        names = [t["callee"] for _, t in fsb.calls() if not t["callee"].startswith("std::")]
        ctx.check(names == [TOV], rule, "from_serializable", f"from_serializable = to_variable (calls {names})", fsb.span)
    sb = ctx.fn("Expression::<'a>::search", rule=rule)
    if sb is not None:
        names = [t["callee"] for _, t in sb.calls()]
        ctx.check("ToJmespath::to_jmespath" in names, rule, "search", "search converts its input with ToJmespath::to_jmespath", sb.span)
