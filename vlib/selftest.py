"""Mutation self-test of the rule library.

Each mutant is a one-site textual edit applied to a scratch copy of /repo's
sources (outside /repo and /verif, removed afterwards).  The edit must still
type-check (the driver runs the real compiler) and the named property's check
must exit 1 naming the expected rule key.  `equiv` mutants are behaviour-
preserving edits on which the listed checks must stay silent.
"""
import json
import os
import re
import shutil
import subprocess
import sys
import tempfile

from . import build

VERIF = build.VERIF


def load_mutants():
    with open(os.path.join(VERIF, "mutants", "mutants.json")) as fh:
        return json.load(fh)


def make_scratch(edits):
    d = tempfile.mkdtemp(prefix="vmut-", dir="/tmp")
    for sub in ("jmespath", "jmespath-cli"):
        os.makedirs(os.path.join(d, sub))
        shutil.copytree(os.path.join(build.REPO, sub, "src"), os.path.join(d, sub, "src"))
        shutil.copy(os.path.join(build.REPO, sub, "Cargo.toml"), os.path.join(d, sub, "Cargo.toml"))
    for e in edits:
        p = os.path.join(d, e["file"])
        with open(p) as fh:
            s = fh.read()
        cnt = s.count(e["old"])
        want = e.get("count", 1)
        if cnt != want:
            shutil.rmtree(d, ignore_errors=True)
            raise RuntimeError(f"edit anchor occurs {cnt} times (expected {want}) in {e['file']}: {e['old'][:60]!r}")
        s = s.replace(e["old"], e["new"])
        with open(p, "w") as fh:
            fh.write(s)
    return d


def run_check(pid, repo, tier="quick"):
    env = dict(os.environ)
    env["VERIF_REPO"] = repo
    env["VERIF_EVIDENCE_DIR"] = os.path.join(repo, "evidence")
    r = subprocess.run(
        [os.path.join(VERIF, "verif"), "check", pid, "--tier", tier],
        env=env, capture_output=True, text=True, cwd=VERIF,
    )
    return r.returncode, r.stdout + r.stderr


def main(pattern=None):
    muts = load_mutants()
    if pattern:
        rx = re.compile(pattern)
        muts = [m for m in muts if rx.search(m["name"])]
    failures = 0
    for m in muts:
        edits = m.get("edits") or [{"file": m["file"], "old": m["old"], "new": m["new"], "count": m.get("count", 1)}]
        try:
            d = make_scratch(edits)
        except RuntimeError as e:
            print(f"[{m['name']}] STALE: {e}")
            failures += 1
            continue
        try:
            if m.get("equiv"):
                for pid in m["props"]:
                    rc, out = run_check(pid, d)
                    if rc != 0:
                        failures += 1
                        lines = [l for l in out.splitlines() if l.startswith(("VIOLATION:", "MISSING:", "cannot"))]
                        print(f"[{m['name']}] FALSE ALARM on equivalent edit, {pid}: {lines[:3]}")
                    else:
                        print(f"[{m['name']}] ok: {pid} silent on behaviour-preserving edit")
            else:
                for exp in m["expect"]:
                    pid, key = exp["prop"], exp["key"]
                    rc, out = run_check(pid, d)
                    if "cannot extract facts" in out:
                        failures += 1
                        print(f"[{m['name']}] DOES NOT COMPILE: {out[-600:]}")
                        continue
                    hit = [l for l in out.splitlines() if l.startswith(("VIOLATION:", "MISSING:")) and key in l]
                    if rc == 1 and hit:
                        print(f"[{m['name']}] ok: {pid} fires {key}")
                    else:
                        failures += 1
                        got = [l for l in out.splitlines() if l.startswith(("VIOLATION:", "MISSING:"))]
                        print(f"[{m['name']}] MISSED by {pid} (wanted key {key}); rc={rc}; got {got[:4]}")
        finally:
            shutil.rmtree(d, ignore_errors=True)
    print(f"selftest: {len(muts)} mutants, {failures} failures")
    return 1 if failures else 0
