"""A4: return-tag analysis — which Variable kinds can a builtin return in Ok(..)."""
import re

from .analysis import Branches, Origins, edge_dominates, fmt_terms

VAR = "variable::Variable"
ALL = frozenset({"Null", "String", "Bool", "Number", "Array", "Object", "Expref"})
TOP = ALL
ATOM2TAG = {"null": "Null", "string": "String", "number": "Number", "boolean": "Bool", "object": "Object",
            "array": "Array", "expref": "Expref"}
IS_PRED = {
    "variable::Variable::is_null": "Null", "variable::Variable::is_string": "String",
    "variable::Variable::is_number": "Number", "variable::Variable::is_boolean": "Bool",
    "variable::Variable::is_array": "Array", "variable::Variable::is_object": "Object",
    "variable::Variable::is_expref": "Expref",
}


def tags_of_type(nf):
    """Variable kinds admitted by a normal-form argument type."""
    if nf == "any":
        return set(ALL)
    out = set()
    for a in nf:
        if isinstance(a, tuple):
            out.add("Array")
        else:
            out.add(ATOM2TAG[a])
    return out


def elem_tags_of_type(nf):
    """Kinds of the *elements* of an array-typed argument."""
    if nf == "any":
        return set(ALL)
    out = set()
    for a in nf:
        if isinstance(a, tuple):
            out |= tags_of_type(a[1])
        elif a == "array":
            out |= ALL
    return out or set(ALL)


def ok_values(body):
    """[(block, operand)] of every `Result::Ok{x}` that may flow into _0, and the list of
    opaque calls whose result flows into _0 directly."""
    oks = []
    opaque = []
    seen = set()

    def visit(local):
        if local in seen:
            return
        seen.add(local)
        for blk, i, d in body.assigns_to(local):
            if i == "term":
                t = d
                c = t["callee"]
                if c in ("std::ops::FromResidual::from_residual",):
                    continue
                opaque.append((blk, t))
                continue
            rv = d
            if rv["k"] == "agg" and rv.get("adt") == "std::result::Result":
                if rv["variant"] == "Ok":
                    oks.append((blk, rv["ops"][0]))
                continue
            if rv["k"] == "use" and rv["op"].get("k") in ("copy", "move") and not rv["op"]["p"]:
                visit(rv["op"]["l"])
                continue
            if rv["k"] == "through":
                # the arm a written-out combinator passes on unchanged: a failure is no Ok value, a success is the receiver's
                if rv.get("variant") in ("Ok", "Some") and rv["op"].get("k") in ("copy", "move") and not rv["op"]["p"]:
                    visit(rv["op"]["l"])
                continue
            opaque.append((blk, rv))

    visit(0)
    return oks, opaque


class TagCx:
    def __init__(self, lib, body, inputs, variadic):
        self.lib = lib
        self.b = body
        self.o = Origins(body, lib)
        self.br = Branches(body, self.o)
        self.inputs = inputs
        self.variadic = variadic

    def arg_type(self, k):
        if k is None:
            tys = list(self.inputs) + ([self.variadic] if self.variadic is not None else [])
            if any(t == "any" for t in tys):
                return "any"
            u = set()
            for t in tys:
                u |= t
            return frozenset(u)
        if k < len(self.inputs):
            return self.inputs[k]
        if self.variadic is not None:
            return self.variadic
        return "any"

    def is_arg(self, t):
        """term is args[k] (k may be None)."""
        if t[0] == "elem" and t[1] == ("param", 2):
            k = t[2] if len(t) > 2 else None
            return True, (k if isinstance(k, int) else None)
        return False, None

    def tags(self, term, at_block, depth=0):
        if depth > 8:
            return set(ALL)
        h = term[0]
        if h == "agg" and term[1].startswith(VAR + "::"):
            return {term[1].split("::")[-1]}
        if h == "through":
            # the value, known to be that variant: where `opt.filter(<kind predicate>)` kept it, the predicate held
            return self.tags(term[2], at_block, depth + 1) & self.kept_by_filter(term[2])
        if h == "call" and term[1] in ("std::option::Option::<T>::unwrap_or", "std::result::Result::<T, E>::unwrap_or") and len(term[2]) == 2 and term[2][1]:
            # the payload where there is one, the default otherwise
            out = set()
            for a in term[2][0]:
                if a[0] == "agg" and a[1] == "std::option::Option::None":
                    continue
                if a[0] == "agg" and a[1] in ("std::option::Option::Some", "std::result::Result::Ok") and len(a[2]) == 1:
                    for x in a[2][0]:
                        out |= self.tags(x, at_block, depth + 1)
                    continue
                out |= self.tags(a, at_block, depth + 1)
            for dflt in term[2][1]:
                out |= self.tags(dflt, at_block, depth + 1)
            return out
        base = None
        isarg, k = self.is_arg(term)
        if isarg:
            base = tags_of_type(self.arg_type(k))
        elif h == "elem" and term[1][0] == "view" and term[1][1] == "array":
            inner = term[1][2]
            ia, ik = self.is_arg(inner)
            base = elem_tags_of_type(self.arg_type(ik)) if ia else set(ALL)
        elif h == "call" and term[1] in ("std::cmp::max", "std::cmp::min"):
            base = set()
            for a in term[2]:
                for x in a:
                    base |= self.tags(x, at_block, depth + 1)
        elif h == "call" and term[1] == "std::iter::Iterator::fold":
            base = set()
            for x in term[2][1]:
                base |= self.tags(x, at_block, depth + 1)
            # closure: returns max/min(acc, item) or similar; its own Ok-less return terms
            for x in term[2][2]:
                if x[0] == "closure":
                    cb = self.lib.fn(x[1])
                    if cb is None:
                        return set(ALL)
                    co = Origins(cb, self.lib)
                    it_terms = term[2][0]
                    for r in co.of_local(0):
                        base |= self._closure_tags(r, term, at_block, depth + 1)
                else:
                    return set(ALL)
        elif h == "call" and term[1] == "std::iter::Iterator::reduce" and len(term[2]) == 2:
            # reduce(iter, f): the first item, combined with the others by f (both closure arguments are items)
            base = set()
            fake = ("call", "std::iter::Iterator::fold", (term[2][0], frozenset(), term[2][1]), None)
            for x in term[2][1]:
                if x[0] == "closure":
                    cb = self.lib.fn(x[1])
                    if cb is None:
                        return set(ALL)
                    co = Origins(cb, self.lib)
                    for r in co.of_local(0):
                        # accumulator (param 2) is itself an item of the iterator
                        if r == ("param", 2):
                            r = ("param", 3)
                        rr = r
                        if rr[0] == "call" and rr[1] in ("std::cmp::max", "std::cmp::min"):
                            rr = ("call", rr[1], tuple(frozenset(("param", 3) if y == ("param", 2) else y for y in a) for a in rr[2]), None)
                        base |= self._closure_tags(rr, fake, at_block, depth + 1)
                else:
                    y = x
                    while y[0] == "cast":
                        y = y[1]
                    if y[0] == "fnitem" and y[1] in ("std::cmp::max", "std::cmp::min"):
                        # reduce(cmp::max): one of the items
                        base |= self._closure_tags(("param", 3), fake, at_block, depth + 1)
                    else:
                        return set(ALL)
        elif h == "param":
            base = set(ALL)
        else:
            base = set(ALL)
        return self.refine(term, base, at_block)

    def kept_by_filter(self, inner):
        """Kinds the value `inner` can have where a normalised `Option::filter(<kind predicate>)` kept it: the pass-through
        (`through Some`) of that very value is assigned only on the true edge of a kind predicate applied to it."""
        b = self.b
        out = set(ALL)
        for bb, i, st in b.stmts():
            if st["k"] == "assign" and st["rv"]["k"] == "through" and st["rv"].get("variant") == "Some":
                src = {_unthrough(x) for x in self.o.of_operand(st["rv"]["op"])}
                if _unthrough(inner) not in src:
                    continue
                here = set(ALL)
                for sb, sw in self.br.switches():
                    be = self.br.bool_edges(sb)
                    if not be:
                        continue
                    for c in self.br.cond(sb):
                        if c[0] == "call" and c[1] in IS_PRED and any(_unthrough(a) == _unthrough(inner) for a in c[2][0]) and \
                                be[0] != be[1] and edge_dominates(b, (sb, be[0]), bb):
                            here &= {IS_PRED[c[1]]}
                out &= here
        return out

    def _closure_tags(self, r, fold_term, at_block, depth):
        if depth > 8:
            return set(ALL)
        if r[0] == "call" and r[1] in ("std::cmp::max", "std::cmp::min"):
            out = set()
            for a in r[2]:
                for x in a:
                    out |= self._closure_tags(x, fold_term, at_block, depth + 1)
            return out
        if r[0] == "call" and r[1] == "<indirect>" and len(r) > 4 and len(r[4]) == 1:
            # the combining function is a captured function pointer: max / min at this creation site
            f = next(iter(r[4]))
            if f[0] == "field" and f[1] == ("closure_env",) and f[2].isdigit():
                for c in fold_term[2][-1]:
                    if c[0] == "closure" and int(f[2]) < len(c[2]):
                        fns = set()
                        for x in c[2][int(f[2])]:
                            while x[0] == "cast":
                                x = x[1]
                            fns.add(x[1] if x[0] == "fnitem" else None)
                        if fns and fns <= {"std::cmp::max", "std::cmp::min"}:
                            out = set()
                            for a in r[2]:
                                for x in a:
                                    out |= self._closure_tags(x, fold_term, at_block, depth + 1)
                            return out
        if r == ("param", 2):  # accumulator
            out = set()
            for x in fold_term[2][1]:
                out |= self.tags(x, at_block, depth + 1)
            return out
        if r == ("param", 3):  # item = element of the folded iterator
            out = set()
            for x in fold_term[2][0]:
                base = x
                while base[0] in ("iter", "rev", "enum", "adapt"):
                    base = base[2] if base[0] == "adapt" else base[1]
                out |= self.tags(("elem", base), at_block, depth + 1)
            return out
        return set(ALL)

    def refine(self, term, base, at_block):
        """Intersect with kinds implied by dominating tests on the same value."""
        out = set(base)
        for blk, t in self.br.switches():
            ve = self.br.variant_edges(blk)
            if ve is not None and ve["adt"] == VAR:
                if not any(same_value(term, s) for s in ve["scrutinee"]):
                    continue
                # which variant edges dominate at_block?
                allowed = set()
                dominated = False
                for v, tgt in ve["edges"].items():
                    if edge_dominates(self.b, (blk, tgt), at_block):
                        allowed.add(v)
                        dominated = True
                if dominated:
                    out &= allowed
                else:
                    # otherwise-edge dominating: excludes the listed variants
                    if edge_dominates(self.b, (blk, ve["otherwise"]), at_block) and ve["otherwise"] not in ve["edges"].values():
                        out -= set(ve["edges"].keys())
                continue
            be = self.br.bool_edges(blk)
            if be is None:
                continue
            tt, ft = be
            for c in self.br.cond(blk):
                neg = False
                while c[0] == "un" and c[1] == "Not":
                    c = c[2]
                    neg = not neg
                if c[0] == "call" and c[1] in IS_PRED:
                    if not any(same_value(term, s) for s in c[2][0]):
                        continue
                    kind = IS_PRED[c[1]]
                    t_edge, f_edge = (blk, tt), (blk, ft)
                    if neg:
                        t_edge, f_edge = f_edge, t_edge
                    if tt != ft and edge_dominates(self.b, t_edge, at_block):
                        out &= {kind}
                    elif tt != ft and edge_dominates(self.b, f_edge, at_block):
                        out -= {kind}
        return out


def _unthrough(t):
    while isinstance(t, tuple) and t and t[0] == "through":
        t = t[2]
    return t


def same_value(a, b):
    """Two origin terms denote the same runtime value (modulo transparent wrappers)."""
    if a == b:
        return True
    # args[k] vs args[k] with/without index info
    if a[0] == "elem" and b[0] == "elem" and a[1] == b[1]:
        ka = a[2] if len(a) > 2 else None
        kb = b[2] if len(b) > 2 else None
        return ka is None or kb is None or ka == kb
    return False
