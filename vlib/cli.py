import argparse
import json
import os
import sys
import time

from . import build
from .facts import Facts


def load(configs, with_cli=True, verbose=False):
    thash, paths = build.extract(configs, with_cli=with_cli, verbose=verbose)
    out = {}
    for cfg, d in paths.items():
        out[cfg] = {k: Facts(p) for k, p in d.items()}
    return thash, out


def cmd_setup(args):
    t0 = time.time()
    build.ensure_driver(verbose=True)
    thash, _ = build.extract(list(build.CONFIGS), with_cli=True, verbose=True)
    print(f"setup ok: driver built, facts for {len(build.CONFIGS)} configurations ({thash}) in {time.time()-t0:.1f}s")
    return 0


def cmd_show(args):
    _, facts = load([args.config], with_cli=True)
    f = facts[args.config].get(args.crate)
    if f is None:
        print("no such crate in this config", file=sys.stderr)
        return 2
    import re

    r = re.compile(args.regex)
    for b in f.bodies:
        if r.search(b.name):
            print(b.pretty())
            print()
    return 0


def cmd_origins(args):
    import re
    from .analysis import Origins, fmt_terms

    _, facts = load([args.config], with_cli=True)
    f = facts[args.config].get(args.crate)
    r = re.compile(args.regex)
    for b in f.bodies:
        if r.search(b.name) and b.promoted is None:
            o = Origins(b, f)
            print("==", b.name)
            for blk, t in b.calls():
                print(f"  bb{blk}: {t['callee']}")
                for i, a in enumerate(t["args"]):
                    print(f"      arg{i}: {fmt_terms(o.of_operand(a))}")
            for blk, i, s in b.stmts():
                if s["k"] == "assign" and s["rv"]["k"] == "agg" and s["rv"]["ak"] == "adt":
                    print(f"  bb{blk}: {s['rv']['adt']}::{s['rv']['variant']}")
                    for n, a in zip(s["rv"].get("fnames", []), s["rv"]["ops"]):
                        print(f"      {n}: {fmt_terms(o.of_operand(a))}")
    return 0


def cmd_list(args):
    _, facts = load([args.config], with_cli=True)
    f = facts[args.config].get(args.crate)
    for b in f.bodies:
        print(b.kind, b.name, b.j.get("impl_trait") or "", b.span)
    return 0


def main(argv):
    ap = argparse.ArgumentParser(prog="verif")
    sub = ap.add_subparsers(dest="cmd", required=True)
    sub.add_parser("setup")
    p = sub.add_parser("check")
    p.add_argument("id")
    p.add_argument("--tier", default=os.environ.get("VERIF_TIER", "quick"))
    p = sub.add_parser("explain")
    p.add_argument("path")
    p = sub.add_parser("show")
    p.add_argument("regex")
    p.add_argument("--config", default="default")
    p.add_argument("--crate", default="jmespath")
    p = sub.add_parser("origins")
    p.add_argument("regex")
    p.add_argument("--config", default="default")
    p.add_argument("--crate", default="jmespath")
    p = sub.add_parser("list")
    p.add_argument("--config", default="default")
    p.add_argument("--crate", default="jmespath")
    p = sub.add_parser("selftest")
    p.add_argument("pattern", nargs="?")
    args = ap.parse_args(argv)
    try:
        if args.cmd == "setup":
            return cmd_setup(args)
        if args.cmd == "show":
            return cmd_show(args)
        if args.cmd == "origins":
            return cmd_origins(args)
        if args.cmd == "list":
            return cmd_list(args)
        if args.cmd == "check":
            from . import runner

            return runner.check(args.id, args.tier)
        if args.cmd == "explain":
            from . import runner

            return runner.explain(args.path)
        if args.cmd == "selftest":
            from . import selftest

            return selftest.main(args.pattern)
    except build.BuildError as e:
        print(f"BUILD-ERROR: {e}", file=sys.stderr)
        return 2
    return 2
