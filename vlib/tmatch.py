"""Tiny structural matcher for origin terms."""
import re

ANY = "_"


class Call:
    def __init__(self, name, *args, regex=False):
        self.name, self.args, self.regex = name, args, regex


class Agg:
    def __init__(self, name, *fields):
        self.name, self.fields = name, fields


class Each:
    """All members of a term set match the pattern (and the set is non-empty)."""
    def __init__(self, pat):
        self.pat = pat


class Or_:
    def __init__(self, *pats):
        self.pats = pats


def m(term, pat):
    if pat is ANY:
        return True
    if isinstance(pat, Or_):
        return any(m(term, p) for p in pat.pats)
    if callable(pat) and not isinstance(pat, (Call, Agg, Each)):
        return bool(pat(term))
    if isinstance(pat, Call):
        if not (isinstance(term, tuple) and term and term[0] == "call"):
            return False
        ok = re.search(pat.name, term[1]) is not None if pat.regex else term[1] == pat.name
        if not ok:
            return False
        if pat.args == (ANY,):
            return True
        if len(pat.args) != len(term[2]):
            return False
        return all(ms(a, p) for a, p in zip(term[2], pat.args))
    if isinstance(pat, Agg):
        if not (isinstance(term, tuple) and term and term[0] == "agg" and term[1] == pat.name):
            return False
        if len(pat.fields) != len(term[2]):
            return False
        return all(ms(a, p) for a, p in zip(term[2], pat.fields))
    if isinstance(pat, tuple):
        if not isinstance(term, tuple) or len(term) != len(pat):
            return False
        return all(m(t, p) if isinstance(p, (tuple, Call, Agg, Or_)) or p is ANY or callable(p) else t == p for t, p in zip(term, pat))
    return term == pat


def ms(terms, pat):
    """Every term of a (non-empty) set matches."""
    if pat is ANY:
        return True
    if isinstance(pat, Each):
        pat = pat.pat
    terms = set(terms)
    return bool(terms) and all(m(t, pat) for t in terms)
