"""Character-class dataflow: for a char-typed local, the set of code points for
which each block is reachable, refined along switch edges (used for the lexer's
dispatch tables and the number-token range invariant)."""
from .analysis import Origins

MAXC = 0x10FFFF


class ISet:
    """Set of ints as sorted disjoint closed intervals."""
    __slots__ = ("iv",)

    def __init__(self, iv=()):
        self.iv = self._norm(list(iv))

    @staticmethod
    def _norm(iv):
        iv = sorted((a, b) for a, b in iv if a <= b)
        out = []
        for a, b in iv:
            if out and a <= out[-1][1] + 1:
                out[-1] = (out[-1][0], max(out[-1][1], b))
            else:
                out.append((a, b))
        return tuple(out)

    @staticmethod
    def full():
        return ISet([(0, MAXC)])

    @staticmethod
    def empty():
        return ISet([])

    def union(self, o):
        return ISet(self.iv + o.iv)

    def inter(self, o):
        out = []
        for a, b in self.iv:
            for c, d in o.iv:
                lo, hi = max(a, c), min(b, d)
                if lo <= hi:
                    out.append((lo, hi))
        return ISet(out)

    def compl(self):
        out = []
        cur = 0
        for a, b in self.iv:
            if a > cur:
                out.append((cur, a - 1))
            cur = b + 1
        if cur <= MAXC:
            out.append((cur, MAXC))
        return ISet(out)

    def minus(self, o):
        return self.inter(o.compl())

    def __eq__(self, o):
        return isinstance(o, ISet) and self.iv == o.iv

    def __hash__(self):
        return hash(self.iv)

    def is_empty(self):
        return not self.iv

    def contains(self, c):
        return any(a <= c <= b for a, b in self.iv)

    def subset(self, o):
        return self.minus(o).is_empty()

    def __repr__(self):
        def ch(x):
            return repr(chr(x)) if 32 <= x < 127 else f"U+{x:04X}"
        return "{" + ", ".join(ch(a) if a == b else f"{ch(a)}..{ch(b)}" for a, b in self.iv) + "}"


NAMED = {
    # (callee suffix) -> set for which the predicate is TRUE (None: unknown, no refinement)
    "is_ascii_digit": ISet([(0x30, 0x39)]),
}


def chars(s):
    return ISet([(ord(c), ord(c)) for c in s])


def rng(a, b):
    return ISet([(ord(a), ord(b))])


class CharFlow:
    def __init__(self, body, char_local, start_block, origins=None):
        self.b = body
        self.c = char_local
        self.o = origins or Origins(body)
        self.aliases = self._aliases()
        self.state = {start_block: ISet.full()}
        self.named_guards = {}  # block -> list of (name, polarity) of opaque char predicates that dominate... (edge-wise)
        self._solve(start_block)

    def _aliases(self):
        """Locals that are plain copies of the char local."""
        al = {self.c}
        changed = True
        while changed:
            changed = False
            for bb, i, s in self.b.stmts():
                if s["k"] == "assign" and not s["place"]["p"] and s["rv"]["k"] == "use":
                    op = s["rv"]["op"]
                    if op.get("k") in ("copy", "move") and not op["p"] and op["l"] in al and s["place"]["l"] not in al:
                        # only single-assignment copies
                        if len(self.b.assigns_to(s["place"]["l"])) == 1:
                            al.add(s["place"]["l"])
                            changed = True
        return al

    def _is_c(self, op):
        return op.get("k") in ("copy", "move") and not op["p"] and op["l"] in self.aliases

    def _cmp_set(self, rv):
        """Set of chars for which the bool rvalue is true, or None."""
        if rv["k"] != "binop":
            return None
        a, b2, op = rv["a"], rv["b"], rv["op"]
        if self._is_c(a) and b2.get("k") == "const" and "int" in b2:
            k = b2["int"]
            flip = False
        elif self._is_c(b2) and a.get("k") == "const" and "int" in a:
            k = a["int"]
            flip = True
        else:
            return None
        if flip:
            op = {"Lt": "Gt", "Le": "Ge", "Gt": "Lt", "Ge": "Le", "Eq": "Eq", "Ne": "Ne"}.get(op)
        if op == "Lt":
            return ISet([(0, k - 1)])
        if op == "Le":
            return ISet([(0, k)])
        if op == "Gt":
            return ISet([(k + 1, MAXC)])
        if op == "Ge":
            return ISet([(k, MAXC)])
        if op == "Eq":
            return ISet([(k, k)])
        if op == "Ne":
            return ISet([(k, k)]).compl()
        return None

    def _edge_sets(self, blk):
        """[(target, refinement ISet or None)] for the normal successors of blk."""
        bl = self.b.blocks[blk]
        t = bl["term"]
        if t["k"] != "switch":
            return [(s, None) for s in self.b.normal_succs(blk)]
        d = t["discr"]
        if self._is_c(d):
            out = []
            listed = ISet([(v, v) for v, _ in t["targets"]])
            for v, tgt in t["targets"]:
                out.append((tgt, ISet([(v, v)])))
            out.append((t["otherwise"], listed.compl()))
            return out
        if d.get("ty") == "bool" and d.get("k") in ("copy", "move") and not d["p"]:
            # defining statement in this block
            rv = None
            for s in reversed(bl["stmts"]):
                if s["k"] == "assign" and s["place"]["l"] == d["l"] and not s["place"]["p"]:
                    rv = s["rv"]
                    break
            cs = self._cmp_set(rv) if rv else None
            if cs is None:
                # result of a call in the predecessor (e.g. char::is_ascii_digit)
                cs = self._call_set(blk, d["l"])
            if cs is not None:
                out = []
                tt = ft = t["otherwise"]
                for v, tgt in t["targets"]:
                    if v == 0:
                        ft = tgt
                    elif v == 1:
                        tt = tgt
                return [(tt, cs), (ft, cs.compl())]
        return [(s, None) for s in self.b.normal_succs(blk)]

    def _call_set(self, blk, local):
        for p in self.b.preds()[blk]:
            t = self.b.blocks[p]["term"]
            if t["k"] == "call" and t["dest"]["l"] == local and not t["dest"]["p"] and t["args"] and self._is_c(t["args"][0]):
                name = t["callee"].split("::")[-1]
                if name in NAMED:
                    return NAMED[name]
                if name == "is_digit" and len(t["args"]) > 1 and t["args"][1].get("int") == 10:
                    return ISet([(0x30, 0x39)])
        return None

    def _solve(self, start):
        work = [start]
        while work:
            blk = work.pop()
            cur = self.state[blk]
            edges = {}
            for tgt, ref in self._edge_sets(blk):
                s = cur if ref is None else cur.inter(ref)
                edges[tgt] = edges[tgt].union(s) if tgt in edges else s
            for tgt, s in edges.items():
                if s.is_empty():
                    continue
                old = self.state.get(tgt)
                new = s if old is None else old.union(s)
                if old is None or new != old:
                    self.state[tgt] = new
                    work.append(tgt)

    def at(self, blk):
        return self.state.get(blk, ISet.empty())
