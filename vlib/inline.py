"""Normalisation of the fact files before any rule sees them.

1. Constant switches are folded (`if cfg!(debug_assertions)` with debug assertions off, `if false`): only removes
   infeasible edges.
2. Helper inlining: a call to a crate-local function that is *not* in the committed list of function names the rules
   were written against (vlib/known_functions.json) — i.e. a helper somebody extracted, or added — is replaced by a copy
   of its MIR body (parameters bound by assignments, its return place mapped onto the call's destination, `return`
   turned into a jump to the continuation).  The rules then see the same program as before the extraction, and a
   defect hidden in a new helper is analysed in the context of its callers.  Recursive helpers are left alone.

Both passes only re-express the program's own MIR; nothing is executed."""
import copy
import re
import json
import os

HERE = os.path.dirname(os.path.abspath(__file__))
KNOWN_PATH = os.path.join(HERE, "known_functions.json")
MAX_DEPTH = 4
MAX_BLOCKS = 4000


def load_known():
    try:
        with open(KNOWN_PATH) as fh:
            return set(json.load(fh))
    except (OSError, ValueError):
        return None


# ---------------------------------------------------------------------------------------------
def fold_const_switches(body):
    n = 0
    for bl in body["blocks"]:
        t = bl["term"]
        if t["k"] != "switch":
            continue
        d = t["discr"]
        val = None
        if d.get("k") == "const" and "int" in d:
            val = d["int"]
        elif d.get("k") in ("copy", "move") and not d["p"]:
            # x = const c; switchInt(x) in the same block
            for s in reversed(bl["stmts"]):
                if s["k"] == "assign" and s["place"]["l"] == d["l"]:
                    if not s["place"]["p"] and s["rv"]["k"] == "use" and s["rv"]["op"].get("k") == "const" and "int" in s["rv"]["op"]:
                        val = s["rv"]["op"]["int"]
                    break
        if val is None:
            continue
        dest = t["otherwise"]
        for v, b2 in t["targets"]:
            if v == val:
                dest = b2
                break
        bl["term"] = {"k": "goto", "t": dest, "span": t["span"], "folded_switch": True}
        n += 1
    return n


# ---------------------------------------------------------------------------------------------
_BODIES = None      # the body list being rewritten (set by the passes): promoted constants of a spliced body are copied over
_PMAP = None


def _promoted_mapper(caller, callee):
    """Promoted constants belong to the body that mentions them: a spliced copy needs its own copies, numbered in the caller."""
    pm = {}

    def pmap(i):
        if i in pm:
            return pm[i]
        if _BODIES is None or caller["def"] == callee["def"]:
            return i
        src = [b for b in _BODIES if b["def"] == callee["def"] and b.get("promoted") == i]
        if len(src) != 1:
            return i
        new = 1 + max([b["promoted"] for b in _BODIES if b["def"] == caller["def"] and b.get("promoted") is not None], default=-1)
        cp = copy.deepcopy(src[0])
        cp["def"] = caller["def"]
        cp["promoted"] = new
        cp["promoted_copy_of"] = [callee["def"], i]
        _BODIES.append(cp)
        pm[i] = new
        return new
    return pmap


def _renumber(x, lmap, bmap):
    """Deep copy of a statement / terminator with locals and block ids renumbered."""
    if isinstance(x, list):
        return [_renumber(e, lmap, bmap) for e in x]
    if not isinstance(x, dict):
        return x
    out = {}
    is_place = "l" in x and "p" in x and isinstance(x.get("l"), int)
    for k, v in x.items():
        if k == "promoted" and x.get("k") == "const" and isinstance(v, int) and _PMAP is not None:
            out[k] = _PMAP(v)
        elif is_place and k == "l":
            out[k] = lmap(v)
        elif is_place and k == "p":
            pr = []
            for e in v:
                if isinstance(e, dict) and "idx" in e:
                    e = dict(e)
                    e["idx"] = lmap(e["idx"])
                else:
                    e = copy.deepcopy(e)
                pr.append(e)
            out[k] = pr
        else:
            out[k] = _renumber(v, lmap, bmap)
    return out


def _renumber_term(t, lmap, bmap):
    t2 = _renumber(t, lmap, bmap)
    k = t2["k"]
    if k in ("goto", "call", "assert", "drop"):
        if t2.get("t") is not None:
            t2["t"] = bmap(t["t"])
    if k == "switch":
        t2["targets"] = [[v, bmap(b)] for v, b in t["targets"]]
        t2["otherwise"] = bmap(t["otherwise"])
    if t2.get("unwind") is not None and isinstance(t.get("unwind"), int):
        t2["unwind"] = bmap(t["unwind"])
    if "threaded_from" in t2:
        del t2["threaded_from"]
    return t2


def splice(caller, callee, arg_rvalues, dest, cont, span):
    """Append a renumbered copy of `callee`'s blocks to `caller`.  Parameters 1..n are bound from `arg_rvalues`
    (rvalue json in the caller's numbering), the return place is mapped onto `dest` (a place of the caller),
    `return` becomes a jump to `cont`.  Returns (entry block index, [binding statements to execute before entry])."""
    base_l = len(caller["locals"])
    base_b = len(caller["blocks"])
    direct_ret = not dest["p"]

    def lmap(l):
        if l == 0 and direct_ret:
            return dest["l"]
        return base_l + l

    def bmap(b):
        return base_b + b

    global _PMAP
    _PMAP = _promoted_mapper(caller, callee)
    for l in callee["locals"]:
        caller["locals"].append(copy.deepcopy(l))
    binds = []
    for i, rv in enumerate(arg_rvalues):
        if i + 1 > callee["arg_count"]:
            break
        binds.append({"k": "assign", "place": {"l": base_l + 1 + i, "p": [], "ty": callee["locals"][1 + i]["ty"]},
                      "rv": copy.deepcopy(rv), "span": span, "inline_bind": True})
    nb = len(callee["blocks"])
    # for a projected destination a glue block after the callee's blocks stores the result
    glue = base_b + nb if (not direct_ret and cont is not None) else cont
    new_blocks = []
    for bl in callee["blocks"]:
        stmts = [_renumber(s, lmap, bmap) for s in bl["stmts"]]
        t = bl["term"]
        if t["k"] == "return":
            if glue is None:
                t2 = {"k": "unreachable", "span": t.get("span", span)}
            else:
                t2 = {"k": "goto", "t": glue, "span": t.get("span", span), "inlined_return": callee["def"]}
        else:
            t2 = _renumber_term(t, lmap, bmap)
        new_blocks.append({"stmts": stmts, "term": t2, "cleanup": bl.get("cleanup", False), "inlined_from": callee["def"]})
    caller["blocks"].extend(new_blocks)
    if not direct_ret and cont is not None:
        caller["blocks"].append({
            "stmts": [{"k": "assign", "place": copy.deepcopy(dest),
                       "rv": {"k": "use", "op": {"l": base_l, "p": [], "ty": callee["locals"][0]["ty"], "k": "move"}}, "span": span}],
            "term": {"k": "goto", "t": cont, "span": span}, "cleanup": False, "inlined_from": callee["def"]})
    for d in callee.get("debug", []):
        p = d.get("place")
        if p:
            caller.setdefault("debug", []).append({"name": d["name"], "place": _renumber(p, lmap, bmap)})
    caller.setdefault("inlined", []).append(callee["def"])
    _PMAP = None
    return base_b, binds


FN_CALLS = ("std::ops::Fn::call", "std::ops::FnMut::call_mut", "std::ops::FnOnce::call_once")


_ROOT_TYPES = set()   # names of crate-root types / traits / aliases (printed without a path): set by Facts


def _type_params(sig):
    """Names that can only be type parameters in a signature string: capitalised identifiers that are not part of a path and
    not a crate-root item."""
    out = []
    for m_ in re.finditer(r"(?<![:\w'])([A-Z][A-Za-z0-9_]*)(?![\w]|::)", sig or ""):
        nm = m_.group(1)
        if nm not in _ROOT_TYPES and nm != "Self" and nm not in out:
            out.append(nm)
    return out


_TYPE_KEYS = ("ty", "elem", "callee_args", "resolved_args", "obligations", "resolved_obligations", "callee_impl_self")


def _subst_types(x, rx, repl, typed=False):
    """Substitution in the type-bearing fields only: a callee *path* such as `Result::<T, E>::map` spells std's own
    parameters, not the helper's."""
    if isinstance(x, str):
        return rx.sub(repl, x) if typed else x
    if isinstance(x, list):
        return [_subst_types(e, rx, repl, typed) for e in x]
    if isinstance(x, dict):
        return {k: _subst_types(v, rx, repl, typed or k in _TYPE_KEYS) for k, v in x.items()}
    return x


def _instantiate(callee, call):
    """A helper generic in one type (`fn integer<N: Into<Number>>(value: N)`), called at a concrete type: the copy that is
    spliced in carries that type wherever the helper said `N`, so that the rules see `Number::from::<i8>` as they would in
    the hand-written function."""
    if callee["kind"] == "closure":
        return callee
    tps = _type_params(callee.get("sig"))
    targs = [a for a in (call.get("callee_args") or []) if not str(a).startswith("'")]
    # a method's own type arguments follow those of its impl: only the plain one-parameter case is taken
    if len(tps) != 1 or len(targs) != 1 or re.search(r"\b%s\b" % re.escape(tps[0]), targs[0]):
        return callee
    rx = re.compile(r"(?<![:\w'])%s(?![\w]|::)" % re.escape(tps[0]))
    out = dict(callee)
    for k in ("blocks", "locals"):
        out[k] = _subst_types(callee[k], rx, targs[0].replace("\\", "\\\\"))
    return out


def _inline_one(caller, bi, callee):
    """Splice `callee` (raw body json) into `caller` at the call terminating block bi."""
    call = caller["blocks"][bi]["term"]
    callee = _instantiate(callee, call)
    span = call.get("span", {"s": "", "x": False})
    if callee["kind"] == "closure" and call["callee"] in FN_CALLS and len(call["args"]) == 2:
        # `f(x, y)` on a closure value: the arguments travel as one tuple, the closure body takes them spread out
        env, tup = call["args"]
        arg_rvs = [{"k": "use", "op": env}]
        for i in range(callee["arg_count"] - 1):
            if tup.get("k") not in ("copy", "move"):
                return False
            arg_rvs.append({"k": "use", "op": {"l": tup["l"], "p": list(tup.get("p", [])) + [{"f": i, "name": str(i), "ty": ""}], "ty": "", "k": "move"}})
        entry, binds = splice(caller, callee, arg_rvs, call["dest"], call["t"], span)
        caller.setdefault("inlined_closures", []).append(callee["def"])
    else:
        entry, binds = splice(caller, callee, [{"k": "use", "op": a} for a in call["args"]], call["dest"], call["t"], span)
    # the call block now binds the parameters and jumps into the helper
    caller["blocks"][bi]["stmts"].extend(binds)
    caller["blocks"][bi]["term"] = {"k": "goto", "t": entry, "span": span, "inlined_call": callee["def"],
                                    "orig_call": {"callee": call["callee"], "resolved": call.get("resolved")}}


def devirtualise(body):
    """A call through a function pointer whose only definition (followed through plain copies and the fn-item -> fn-pointer
    coercion) is one named function is a call of that function: `beats(&a, &b)` with `beats` bound to `PartialOrd::gt` by an
    inlined helper's parameter."""
    n = 0
    defs = {}
    for bl in body["blocks"]:
        for st in bl["stmts"]:
            if st["k"] == "assign" and not st["place"]["p"]:
                defs.setdefault(st["place"]["l"], []).append(st["rv"])
        t = bl["term"]
        if t["k"] == "call" and not t["dest"]["p"]:
            defs.setdefault(t["dest"]["l"], []).append(None)

    def target(op, depth=0):
        if depth > 8 or op is None:
            return None
        if op.get("k") == "const":
            return op if "fn" in op else None
        if op.get("k") not in ("copy", "move") or op.get("p"):
            return None
        ds = defs.get(op["l"], [])
        if len(ds) != 1 or ds[0] is None:
            return None
        rv = ds[0]
        if rv["k"] == "use":
            return target(rv["op"], depth + 1)
        if rv["k"] == "cast" and "ReifyFnPointer" in (rv.get("ck") or ""):
            return target(rv["op"], depth + 1)
        if rv["k"] == "cast" and "ClosureFnPointer" in (rv.get("ck") or ""):
            # a non-capturing closure used as a function pointer: the closure value itself
            inner = rv["op"]
            if inner.get("k") in ("copy", "move") and not inner.get("p"):
                ds2 = defs.get(inner["l"], [])
                if len(ds2) == 1 and ds2[0] is not None and ds2[0]["k"] == "agg" and ds2[0].get("ak") == "closure" and not ds2[0]["ops"]:
                    return {"closure": ds2[0]["def"], "local": inner["l"]}
        return None

    for bi in range(len(body["blocks"])):
        t = body["blocks"][bi]["term"]
        if t["k"] == "call" and t["callee"] == "<indirect>" and t.get("func"):
            c = target(t["func"])
            if c is None:
                continue
            if "closure" in c:
                # splice the closure's body: its environment is the (empty) closure value, its other parameters the arguments
                cb = [x for x in (_BODIES or []) if x["def"] == c["closure"] and x.get("promoted") is None]
                if len(cb) != 1 or cb[0]["arg_count"] != len(t["args"]) + 1 or t.get("t") is None:
                    continue
                span = t.get("span", {"s": "", "x": False})
                env_rv = {"k": "ref", "mut": False, "place": {"l": c["local"], "p": [], "ty": ""}}
                entry, binds = splice(body, copy.deepcopy(cb[0]), [env_rv] + [{"k": "use", "op": a} for a in t["args"]], t["dest"], t["t"], span)
                body["blocks"][bi]["stmts"].extend(binds)
                body["blocks"][bi]["term"] = {"k": "goto", "t": entry, "span": span, "inlined_call": c["closure"], "orig_call": {"callee": "<indirect>", "resolved": None}}
                body.setdefault("inlined_closures", []).append(c["closure"])
                n += 1
                continue
            t["callee"] = c["fn"]
            t["callee_args"] = c.get("fn_args", [])
            t["devirtualised"] = True
            n += 1
    return n


def inline_helpers(bodies, known):
    """bodies: raw body dicts of one crate/config.  Returns {helper def: [callers]}."""
    if known is None:
        return {}
    global _BODIES
    _BODIES = bodies
    by_def = {}
    for b in bodies:
        if b.get("promoted") is None and b["kind"] in ("fn", "method"):
            by_def.setdefault(b["def"], []).append(b)
    helpers = {d: bs[0] for d, bs in by_def.items() if len(bs) == 1 and d not in known}
    # closures called directly by the function that defines them (`let before_stop = |i| ..; while before_stop(i)`)
    direct = {}
    for b in bodies:
        if b.get("promoted") is None and b["kind"] == "closure":
            direct[b["def"]] = b
    called = set()
    for b in bodies:
        if b.get("promoted") is not None:
            continue
        for bl in b["blocks"]:
            t = bl["term"]
            if t["k"] == "call" and t["callee"] in FN_CALLS and t.get("resolved") in direct and direct[t["resolved"]].get("closure_root") == (b.get("closure_root") or b["def"]):
                called.add(t["resolved"])
    for d in called:
        helpers[d] = direct[d]
    if not helpers:
        return {}
    pristine = {d: copy.deepcopy(b) for d, b in helpers.items()}
    used = {}

    def closure_behind(b, op, depth=0):
        """The closure definition a generic callable parameter was bound to by an inlined helper: `make_lhs(offset)` inside
        `project(lbp, |offset| ..)` once `project` is spliced into the function that wrote the closure."""
        if depth > 8 or op.get("k") not in ("copy", "move") or op.get("p"):
            return None
        ds = []
        for bl in b["blocks"]:
            for st in bl["stmts"]:
                if st["k"] == "assign" and not st["place"]["p"] and st["place"]["l"] == op["l"]:
                    ds.append(st["rv"])
            tt = bl["term"]
            if tt["k"] == "call" and not tt["dest"]["p"] and tt["dest"]["l"] == op["l"]:
                ds.append(None)
        if len(ds) != 1 or ds[0] is None:
            return None
        rv = ds[0]
        if rv["k"] == "use":
            return closure_behind(b, rv["op"], depth + 1)
        if rv["k"] == "agg" and rv.get("ak") == "closure":
            return rv.get("def")
        return None

    def calls_helper(t, b=None):
        if t["k"] != "call":
            return None
        if t.get("resolved_kind") not in (None, "Item"):
            return None
        r = t.get("resolved") or t["callee"]
        if t["callee"] in FN_CALLS and not t.get("resolved") and b is not None and len(t["args"]) == 2:
            d = closure_behind(b, t["args"][0])
            if d in direct and direct[d].get("closure_root") == (b.get("closure_root") or b["def"]):
                by_value = not str(direct[d]["locals"][1]["ty"]).startswith("&")
                if by_value:
                    if d not in helpers:
                        helpers[d] = direct[d]
                        pristine[d] = copy.deepcopy(direct[d])
                    return d
            return None
        if t["callee"] in FN_CALLS:
            return r if r in helpers and helpers[r]["kind"] == "closure" else None
        if r in helpers:
            return r
        if t["callee"] in helpers and not t.get("resolved"):
            return t["callee"]
        return None

    for b in bodies:
        if b.get("promoted") is not None or b["kind"] not in ("fn", "method", "closure"):
            continue
        if b["def"] in helpers and b["kind"] != "closure":
            continue  # helpers are inlined into their (known) callers; nested helpers are handled through the stack below
        stack_of = {}  # block index -> tuple of helper defs this block was inlined through
        changed = True
        rounds = 0
        while changed and rounds < 50 and len(b["blocks"]) < MAX_BLOCKS:
            changed = False
            rounds += 1
            for bi in range(len(b["blocks"])):
                h = calls_helper(b["blocks"][bi]["term"], b)
                if h is None:
                    continue
                st = stack_of.get(bi, ())
                if h in st or len(st) >= MAX_DEPTH:
                    continue
                first_new = len(b["blocks"])
                _inline_one(b, bi, pristine[h])
                for nbi in range(first_new, len(b["blocks"])):
                    stack_of[nbi] = st + (h,)
                used.setdefault(h, []).append(b["def"])
                changed = True
                break
    for h, callers in used.items():
        helpers[h]["inlined_into"] = sorted(set(callers) | set(helpers[h].get("inlined_into", [])))
    return used
