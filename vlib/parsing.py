"""Helpers shared by the parser/lexer properties (C03, C04, C05, C11)."""
from .analysis import Branches, Origins, edge_dominates, edges_dominate, fmt_terms, reach_avoiding

P = "parser::Parser::<'a>::"
TOKEN = "lexer::Token"
AST = "ast::Ast"

ALL_TOKENS = [
    "Identifier", "QuotedIdentifier", "Number", "Literal", "Dot", "Star", "Flatten", "And", "Or",
    "Pipe", "Filter", "Lbracket", "Rbracket", "Comma", "Colon", "Not", "Ne", "Eq", "Gt", "Gte",
    "Lt", "Lte", "At", "Ampersand", "Lparen", "Rparen", "Lbrace", "Rbrace", "Eof",
]


def region(body, start, stop=()):
    return reach_avoiding(body, start, avoid_blocks=stop)


def region_calls(body, blocks):
    out = []
    for b in sorted(blocks):
        t = body.blocks[b]["term"]
        if t["k"] == "call":
            out.append((b, t))
    return out


def region_aggs(body, blocks, adt=None):
    out = []
    for b in sorted(blocks):
        for i, s in enumerate(body.blocks[b]["stmts"]):
            if s["k"] == "assign" and s["rv"]["k"] == "agg" and s["rv"]["ak"] == "adt":
                if adt is None or s["rv"]["adt"] == adt:
                    out.append((b, i, s))
    return out


def const_result(body, start):
    """Follow the unique-successor chain from `start`; return the constant
    assigned to _0 (int) if the chain is straight-line to a return, else None."""
    b = start
    val = None
    seen = set()
    while b not in seen:
        seen.add(b)
        for s in body.blocks[b]["stmts"]:
            if s["k"] == "assign" and s["place"]["l"] == 0 and not s["place"]["p"]:
                rv = s["rv"]
                if rv["k"] == "use" and rv["op"].get("k") == "const" and "int" in rv["op"]:
                    val = rv["op"]["int"]
                else:
                    return None
        t = body.blocks[b]["term"]
        if t["k"] == "return":
            return val
        if t["k"] == "goto":
            b = t["t"]
            continue
        return None
    return None


def first_discr_switch(body, br, adt, scrutinee_pred=None):
    """First (lowest block in dominator order) switch on a discriminant of `adt`."""
    cands = []
    for blk, t in br.switches():
        ve = br.variant_edges(blk)
        if ve and ve["adt"] == adt:
            if scrutinee_pred is None or any(scrutinee_pred(x) for x in ve["scrutinee"]):
                cands.append((len(body.dominators().get(blk, ())), blk, ve))
    cands.sort(key=lambda x: (x[0], x[1]))
    return cands[0][1:] if cands else (None, None)


def lbp_table(lib):
    """{variant: power}, default power, or (None, reason)."""
    b = lib.fn("lexer::Token::lbp")
    if b is None:
        return None, "lexer::Token::lbp not found"
    br = Branches(b)
    blk, ve = first_discr_switch(b, br, TOKEN)
    if ve is None:
        return None, "no discriminant switch on Token in Token::lbp"
    if not any(t == ("param", 1) for t in ve["scrutinee"]):
        return None, "Token::lbp does not switch on self"
    table = {}
    for v, tgt in ve["edges"].items():
        k = const_result(b, tgt)
        if k is None:
            return None, f"arm {v} of Token::lbp is not a constant"
        table[v] = k
    dflt = const_result(b, ve["otherwise"])
    # is `otherwise` reachable at all (are all variants listed)?
    listed = set(table)
    rest = [v for v in ve["all"] if v not in listed]
    if rest:
        if dflt is None:
            return None, "default arm of Token::lbp is not a constant"
        for v in rest:
            table[v] = dflt
    return table, None


def promoted_token(lib, body, idx):
    """Variant name of a promoted `&Token::X` constant, or None."""
    pb = lib.promoted(body.deff, idx)
    if pb is None:
        return None
    for blk, i, s in pb.stmts(reachable_only=False):
        if s["k"] == "assign" and s["rv"]["k"] == "agg" and s["rv"].get("adt") == TOKEN:
            return s["rv"]["variant"]
    return None


def token_of_terms(lib, body, terms):
    """If all terms denote one promoted/aggregate Token constant return its variant."""
    names = set()
    for t in terms:
        if t[0] == "promoted":
            names.add(promoted_token(lib, body, t[1]))
        elif t[0] == "agg" and t[1].startswith(TOKEN + "::"):
            names.add(t[1].split("::")[-1])
        else:
            names.add(None)
    if len(names) == 1:
        return next(iter(names))
    return None


def peek_eq_switch(lib, body, br, blk):
    """If block `blk` is a bool switch on `peek(k) ==/!= &Token::X` return
    (token, lookahead k, eq_true_target, eq_false_target)."""
    be = br.bool_edges(blk)
    if be is None:
        return None
    tt, ft = be
    for term in br.cond(blk):
        neg = False
        while term[0] == "un" and term[1] == "Not":
            term = term[2]
            neg = not neg
        if term[0] != "call" or term[1] not in ("std::cmp::PartialEq::eq", "std::cmp::PartialEq::ne"):
            continue
        if term[1].endswith("::ne"):
            neg = not neg
        a, b2 = term[2]
        tok = None
        look = None
        for side in (a, b2):
            tk = token_of_terms(lib, body, side)
            if tk:
                tok = tk
            for s in side:
                if s[0] == "call" and s[1] == P + "peek":
                    ks = s[2][1]
                    for kk in ks:
                        if kk[0] == "const":
                            look = kk[1]
                if s[0] == "param":
                    tok = tok  # closing token parameter handled by caller
        params = [s for side in (a, b2) for s in side if s[0] == "param"]
        if look is not None and (tok or params):
            if neg:
                tt, ft = ft, tt
            return (tok or ("param", params[0][1]), look, tt, ft)
    return None


def peek_is_switch(body, br, blk):
    """`matches!(self.peek(k), Token::X)` / `if let Token::X = self.peek(k)`: a discriminant switch on peek(k) with one
    named edge. Returns (token, k, true target, false target) like peek_eq_switch."""
    ve = br.variant_edges(blk)
    if ve and ve["adt"] == TOKEN and len(ve["edges"]) == 1 and ve["scrutinee"]:
        (nm, tgt), = ve["edges"].items()
        looks = set()
        for sx in ve["scrutinee"]:
            if sx[0] == "call" and sx[1] == P + "peek" and len(sx[2]) == 2:
                for kk in sx[2][1]:
                    if kk[0] == "const":
                        looks.add(kk[1])
            else:
                looks.add(None)
        if len(looks) == 1 and None not in looks and tgt != ve["otherwise"]:
            return (nm, next(iter(looks)), tgt, ve["otherwise"])
    return None


# ---------------------------------------------------------------------------
# token-level path enumeration (C03 separator / emptiness / closer discipline)
# ---------------------------------------------------------------------------
NON_CONSUMING = {P + "peek", P + "err", P + "new"}


def is_consumer(callee):
    return callee.startswith(P) and callee not in NON_CONSUMING


class TokenPaths:
    """Enumerates simple CFG paths and the token-level events along them.
    Facts about peek(0) established by comparisons are tracked and used to prune
    paths that contradict them (no token is consumed between the two tests)."""

    def __init__(self, lib, body):
        self.lib = lib
        self.b = body
        self.o = Origins(body, lib)
        self.br = Branches(body, self.o)
        self.tests = {}
        for blk, t in self.br.switches():
            pe = peek_eq_switch(lib, body, self.br, blk)
            if pe and pe[1] == 0:
                tok, look, tt, ft = pe
                self.tests[blk] = ("peek-eq", tok, tt, ft)
                continue
            ae = self._adv_eq(blk)
            if ae:
                self.tests[blk] = ae
                continue
            ve = self.br.variant_edges(blk)
            if ve and ve["adt"] == TOKEN:
                scr = ve["scrutinee"]
                if all(s[0] == "call" and s[1] == P + "peek" and ("const", 0) in s[2][1] for s in scr):
                    self.tests[blk] = ("peek-discr", ve)
                elif all((s[0] == "call" and s[1] == P + "advance") or
                         (s[0] == "field" and s[2] == "1" and s[1][0] == "call" and s[1][1] == P + "advance_with_pos") for s in scr):
                    self.tests[blk] = ("adv-discr", ve)

    def _adv_eq(self, blk):
        """bool switch on `consumed_token ==/!= Token::X | closing-param`."""
        be = self.br.bool_edges(blk)
        if be is None:
            return None
        tt, ft = be
        for term in self.br.cond(blk):
            neg = False
            while term[0] == "un" and term[1] == "Not":
                term = term[2]
                neg = not neg
            if term[0] != "call" or term[1] not in ("std::cmp::PartialEq::eq", "std::cmp::PartialEq::ne"):
                continue
            if term[1].endswith("::ne"):
                neg = not neg
            sides = [set(term[2][0]), set(term[2][1])]

            def is_adv(ts):
                return bool(ts) and all((x[0] == "call" and x[1] == P + "advance") or
                                        (x[0] == "field" and x[2] == "1" and x[1][0] == "call" and x[1][1] == P + "advance_with_pos") for x in ts)
            adv = [i for i in (0, 1) if is_adv(sides[i])]
            if len(adv) != 1:
                continue
            other = sides[1 - adv[0]]
            tok = token_of_terms(self.lib, self.b, other)
            if tok is None:
                ps = [x for x in other if x[0] == "param"]
                if len(ps) == 1 and len(other) == 1:
                    tok = ps[0]
            if tok is None:
                continue
            if neg:
                tt, ft = ft, tt
            return ("adv-eq", tok, tt, ft)
        return None

    def paths(self, start, stops, within=None, max_paths=2000, allow_trivial=False):
        """Yield (blocks, events) for every feasible simple path from `start` to a block in
        `stops` (the stop block's own events are not included)."""
        out = []
        stops = set(stops)

        def rec(blk, seen, events, facts):
            if len(out) > max_paths:
                raise RuntimeError("too many token paths")
            if blk in stops and (seen or allow_trivial):
                out.append((list(seen) + [blk], list(events)))
                return
            if blk in seen:
                return
            if within is not None and blk not in within and blk not in stops:
                return
            seen = seen + [blk]
            t = self.b.blocks[blk]["term"]
            if t["k"] == "return":
                if None in stops:
                    out.append((seen, list(events) + [("return", blk)]))
                return
            if t["k"] == "call":
                c = t["callee"]
                ev = list(events)
                f2 = dict(facts)
                if is_consumer(c):
                    ev.append(("consume", c.split("::")[-1], blk))
                    f2 = {}
                elif not c.startswith("std::ops::") and c != P + "peek" and c != "std::cmp::PartialEq::eq" and c != "std::cmp::PartialEq::ne":
                    ev.append(("call", c, blk))
                if t["t"] is not None:
                    rec(t["t"], seen, ev, f2)
                return
            if t["k"] == "switch" and blk in self.tests:
                tst = self.tests[blk]
                if tst[0] == "peek-eq":
                    _, tok, tt, ft = tst
                    for truth, tgt in ((True, tt), (False, ft)):
                        if tok in facts and facts[tok] != truth:
                            continue  # contradicts an earlier test on the same, unconsumed token
                        f2 = dict(facts)
                        f2[tok] = truth
                        rec(tgt, seen, events + [("fact", tok, truth, blk)], f2)
                    return
                if tst[0] == "adv-eq":
                    _, tok, tt, ft = tst
                    rec(tt, seen, events + [("advfact", tok, True, blk)], dict(facts))
                    rec(ft, seen, events + [("advfact", tok, False, blk)], dict(facts))
                    return
                kind, ve = tst
                done = set()
                for v, tgt in list(ve["edges"].items()) + [("<other>", ve["otherwise"])]:
                    if kind == "peek-discr":
                        if v != "<other>" and v in facts and facts[v] is False:
                            continue
                        f2 = dict(facts)
                        if v != "<other>":
                            f2[v] = True
                        else:
                            for x in ve["edges"]:
                                f2[x] = False
                        rec(tgt, seen, events + [("peekcase", v, blk)], f2)
                    else:
                        rec(tgt, seen, events + [("advcase", v, blk)], dict(facts))
                return
            for s in self.b.normal_succs(blk):
                rec(s, seen, events, facts)

        rec(start, [], [], {})
        return out


class KindDispatch:
    """A routine that consumes one token (advance_with_pos / advance) and answers according to its kind, examined kind by kind
    (29 cases) instead of through the shape of its `match`: the blocks that can run when the consumed token has kind K, the
    provenance along them, and whether K is answered without an error.  Works the same for one big match, for helper lookups
    before it (`comparator_of(&token)`), and for comparisons (`token == Token::X`)."""

    def __init__(self, lib, body, table=None):
        from .decision import Undecided, Walker
        self.lib, self.b, self.table = lib, body, table or {}
        self.o = Origins(body, lib)
        self.blocks = {}
        self.paths = {}
        self.undecided = {}
        b = body

        # the token the routine dispatches on: the first one it consumes (later advance() calls inside an arm read closers)
        firsts = [bb for bb, t in b.calls() if t["callee"] in (P + "advance_with_pos", P + "advance")]
        first = min(firsts, key=lambda x: (len(b.dominators().get(x, ())), x)) if firsts else None
        self.first_consume = first

        def consumed(x):
            while x[0] == "through":
                x = x[2]
            if x[0] == "field" and x[2] == "1" and x[1][0] == "call" and x[1][1] == P + "advance_with_pos":
                return x[1][3] == first
            return x[0] == "call" and x[1] == P + "advance" and x[3] == first
        self.consumed = consumed

        def promoted_token(idx):
            pb = lib.promoted(b.deff, idx)
            if pb is None:
                return None
            for _, _, st in pb.stmts(reachable_only=False):
                if st["k"] == "assign" and st["rv"]["k"] == "agg" and st["rv"].get("adt") == TOKEN:
                    return st["rv"]["variant"]
            return None
        for K in ALL_TOKENS:
            def atom(t, K=K):
                if t[0] == "discr" and consumed(t[1]):
                    return K
                return None

            def call(t, argvals, K=K):
                if t[1] == "lexer::Token::lbp" and t[2] and t[2][0] and self.table:
                    vals = set()
                    for x in t[2][0]:
                        if consumed(x):
                            vals.add(self.table.get(K))
                        elif x[0] == "promoted":
                            vals.add(self.table.get(promoted_token(x[1])))
                        elif x[0] == "agg" and x[1].startswith(TOKEN + "::"):
                            vals.add(self.table.get(x[1].split("::")[-1]))
                        else:
                            vals.add(None)
                    return next(iter(vals)) if len(vals) == 1 else None
                if t[1] in ("std::cmp::PartialEq::eq", "std::cmp::PartialEq::ne") and len(t[2]) == 2:
                    sides = [set(a_) for a_ in t[2]]
                    ck = [sd for sd in sides if sd and all(consumed(x) for x in sd)]
                    pr = [sd for sd in sides if sd and all(x[0] == "promoted" for x in sd)]
                    if len(ck) == 1 and len(pr) == 1:
                        vs = {promoted_token(x[1]) for x in pr[0]}
                        if len(vs) == 1 and None not in vs:
                            r = int(next(iter(vs)) == K)
                            return r if t[1].endswith("::eq") else 1 - r
                return None
            w = Walker(b, self.o, atom=atom, call=call, max_steps=8000, cut_loops=True)
            try:
                ps = w.walk()
            except Undecided as e:
                self.undecided[K] = str(e)
                ps = []
            self.paths[K] = ps
            self.blocks[K] = set().union(*[set(p) for p, _ in ps]) if ps else set()
            self.walker = w
        live = [v for v in self.blocks.values() if v]
        self.common = set.intersection(*live) if live else set()
        self._origins = {}

    def region(self, K):
        """Blocks that run for kind K but not for every kind (the routine's own prologue is left out)."""
        return self.blocks.get(K, set()) - self.common

    def origins(self, K):
        if K not in self._origins:
            self._origins[K] = Origins(self.b, self.lib, only_blocks=self.blocks.get(K, set()))
        return self._origins[K]

    def accepts(self, K):
        """Some path for kind K reaches a return without passing an error exit first."""
        b = self.b
        errb = set()
        for x in sorted(b.reachable()):
            for st in b.blocks[x]["stmts"]:
                if st["k"] == "assign" and st["place"]["l"] == 0 and not st["place"]["p"] and \
                        ((st["rv"]["k"] == "agg" and st["rv"].get("adt") == "std::result::Result" and st["rv"]["variant"] == "Err") or
                         (st["rv"]["k"] == "through" and st["rv"].get("variant") == "Err")):
                    errb.add(x)
            tx = b.blocks[x]["term"]
            if tx["k"] == "call" and tx["callee"] == "std::ops::FromResidual::from_residual" and tx["dest"]["l"] == 0 and not tx["dest"]["p"]:
                errb.add(x)
        for path, leaf in self.paths.get(K, []):
            if b.blocks[path[-1]]["term"]["k"] == "return" and not (set(path) & errb):
                return True
            # a consumer call on the path before any error exit: the kind is being parsed further, i.e. answered
            for x in path:
                if x in errb:
                    break
                tx = b.blocks[x]["term"]
                if tx["k"] == "call" and is_consumer(tx["callee"]) and x in self.region(K):
                    return True
        return False
