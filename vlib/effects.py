"""Effect / purity analysis shared by C13 and C16 (DESIGN §3/C13)."""
import re

from .analysis import CallGraph, Origins, fmt_terms, closure_capture_origins

ENTRY_ROOTS = [
    "parser::parse",
    "compile",
    "runtime::Runtime::compile",
    "Expression::<'a>::search",
    "Expression::<'a>::new",
    "<Expression<'a> as std::clone::Clone>::clone",
    "<T as ToJmespath>::to_jmespath",
    "variable::Variable::from_json",
    "variable::Variable::from_serializable",
    "<DEFAULT_RUNTIME as std::ops::Deref>::deref",
    "interpreter::interpret",
]

DESERIALIZER_SIDE = {"serde::Deserializer", "serde::de::SeqAccess", "serde::de::MapAccess", "serde::de::EnumAccess",
                     "serde::de::VariantAccess"}


def reachable_bodies(lib, cg=None):
    """Bodies reachable from compile / search / clone / conversion.  External generic
    code (serde_json, T::serialize, derived visitors) may call any method of the
    crate's Serializer / Serialize* / Visitor / Serialize / Deserialize impls, so those
    are roots as well; every registered Function::evaluate is reachable via the registry."""
    cg = cg or CallGraph(lib)
    roots = list(ENTRY_ROOTS)
    for b in cg.nodes.values():
        tr = b.impl_trait or ""
        if tr.startswith("serde::") and tr not in DESERIALIZER_SIDE:
            roots.append(b.deff)
        if tr == "ToJmespath":  # search<T: ToJmespath>: every (specialised) conversion is an entry point
            roots.append(b.deff)
    for d in cg.trait_impls.get(("functions::Function", "evaluate"), []):
        roots.append(d)
    return cg, cg.reachable_from(roots)


INTERIOR_MUT = re.compile(
    r"(::cell::|UnsafeCell|\bCell<|RefCell|OnceCell|LazyCell|std::sync::(Mutex|RwLock|Once\b|OnceLock|LazyLock|Condvar|Barrier|mpsc|atomic)|"
    r"::atomic::|Atomic[A-Z]|lazy_static::lazy::Lazy|once_cell|parking_lot|LocalKey|thread_local)"
)

# external type constructors known to contain no interior mutability
IMMUTABLE_EXTERNAL = {
    "std::string::String", "std::vec::Vec", "std::boxed::Box", "std::option::Option", "std::result::Result",
    "std::collections::BTreeMap", "std::collections::HashMap", "std::collections::VecDeque",
    "std::collections::BTreeSet", "std::collections::HashSet",
    "std::rc::Rc", "std::sync::Arc", "serde_json::Number", "serde_json::Error", "serde_json::Value",
    "std::iter::Peekable", "std::str::CharIndices", "std::str::Chars", "std::vec::IntoIter",
    "std::collections::btree_map::IntoIter", "std::alloc::Global", "std::hash::RandomState",
    "std::collections::hash_map::RandomState", "std::ops::Fn", "std::ops::FnMut", "std::ops::FnOnce",
    "std::marker::Sync", "std::marker::Send", "std::marker::PhantomData", "std::borrow::Cow",
    "std::convert::Infallible", "std::cmp::Ordering", "std::iter::IntoIterator", "IntoIter", "Item",
}
PRIMS = {
    "usize", "isize", "u8", "u16", "u32", "u64", "u128", "i8", "i16", "i32", "i64", "i128", "f32", "f64",
    "bool", "char", "str", "dyn", "mut", "const", "for", "fn", "Output", "r", "impl", "Self", "as",
}

NONDET_CALLS = re.compile(
    r"^(std::time::|std::env::|std::fs::|std::net::|std::process::|std::thread::|std::os::|rand::|"
    r"std::io::stdin|std::io::Stdin|std::hash::RandomState::new|std::collections::hash_map::RandomState::new|"
    r"std::ptr::addr|std::rc::Rc::<T(, A)?>::(as_ptr|ptr_eq|into_raw|from_raw)|std::sync::Arc::<T(, A)?>::(as_ptr|ptr_eq|into_raw|from_raw)|"
    r"std::ptr::eq|std::fmt::Pointer)"
)
HASH_ITER = re.compile(
    r"^std::collections::(hash_map::)?Hash(Map|Set)::<.*>::(iter|iter_mut|keys|values|values_mut|into_keys|into_values|drain|retain|extract_if)$"
)
RC_MUT = re.compile(
    r"^std::(rc::Rc|sync::Arc)::<T(, A)?>::(get_mut|make_mut|try_unwrap|into_inner|get_mut_unchecked|unwrap_or_clone|as_ptr|into_raw|from_raw|increment_strong_count|decrement_strong_count)$"
)


def strip_fn_sigs(ty):
    """Remove the parameter lists of Fn(..)/fn(..) types: parameters are not stored."""
    out = []
    i = 0
    n = len(ty)
    while i < n:
        m = re.compile(r"(Fn|FnMut|FnOnce|fn)\(").match(ty, i)
        if m and (i == 0 or not (ty[i - 1].isalnum() or ty[i - 1] == "_")):
            depth = 1
            j = m.end()
            while j < n and depth:
                if ty[j] == "(":
                    depth += 1
                elif ty[j] == ")":
                    depth -= 1
                j += 1
            out.append(m.group(1) + "()")
            i = j
            continue
        out.append(ty[i])
        i += 1
    return "".join(out)


def type_paths(ty):
    ty = re.sub(r"'[A-Za-z_][A-Za-z0-9_]*", "", ty)
    return set(re.findall(r"[A-Za-z_][A-Za-z0-9_]*(?:::[A-Za-z_][A-Za-z0-9_]*)*", ty))


def check_effects(ctx, lib, cfgname="default", prefix=""):
    """Runs the purity inventory on one fact file. Returns a dict of counts."""
    R = lambda r: prefix + r
    counts = {}

    # ---- 1. statics / consts inventory ------------------------------------------------
    allowed_statics = {
        "DEFAULT_RUNTIME": "the lazy_static wrapper (a zero-sized handle)",
        "<DEFAULT_RUNTIME as std::ops::Deref>::deref::__stability::LAZY": "write-once cell behind DEFAULT_RUNTIME (std::sync::Once)",
    }
    for s in lib.statics:
        key = s["path"]
        if s["mut"]:
            ctx.bad(R("statics"), key, f"`static mut {key}` is shared mutable state", s["span"]["s"])
        elif key in allowed_statics:
            if key == "DEFAULT_RUNTIME":
                ok = True
            else:
                ok = s["ty"] == "lazy_static::lazy::Lazy<runtime::Runtime>"
            ctx.check(ok, R("statics"), key, f"static {key}: {s['ty']} — {allowed_statics[key]}", s["span"]["s"])
        else:
            # any other static is fine only if its type is plainly immutable
            bad = INTERIOR_MUT.search(s["ty"])
            ctx.check(not bad, R("statics"), key, f"static {key}: {s['ty']} has no interior mutability", s["span"]["s"])
    names = {s["path"] for s in lib.statics}
    ctx.check("DEFAULT_RUNTIME" in names, R("statics"), "DEFAULT_RUNTIME-present", "the shared default runtime is a static")
    for path, c in lib.consts.items():
        ctx.check(not INTERIOR_MUT.search(c["ty"]), R("statics"), f"const:{path}", f"const {path}: {c['ty']} is not a thread-local / cell")
    counts["statics"] = len(lib.statics)

    # ---- 2. no interior mutability in any library type --------------------------------
    local_adts = set(lib.adts)
    local_traits = set(lib.traits)
    nfields = 0
    for path, adt in sorted(lib.adts.items()):
        for v in adt["variants"]:
            for f in v["fields"]:
                nfields += 1
                ty = f["ty"]
                key = f"{path}::{v['name']}.{f['name']}"
                if INTERIOR_MUT.search(ty):
                    ctx.bad(R("interior-mutability"), key, f"field {key}: {ty} has interior mutability", adt["span"]["s"])
                    continue
                unknown = []
                for p in type_paths(ty):
                    if p in PRIMS or p in IMMUTABLE_EXTERNAL or p in local_adts or p in local_traits:
                        continue
                    if p in lib.type_aliases:
                        continue
                    unknown.append(p)
                ctx.check(not unknown, R("interior-mutability"), key,
                          f"field {key}: {ty} is built from types known to be free of interior mutability"
                          + (f" (unknown: {unknown})" if unknown else ""), adt["span"]["s"])
    ctx.floor(R("interior-mutability"), nfields, 60, "ADT fields inspected")
    counts["fields"] = nfields

    # ---- 3. fresh, unescaping context ------------------------------------------------------
    for path, adt in lib.adts.items():
        for v in adt["variants"]:
            for f in v["fields"]:
                if re.search(r"\bContext<", strip_fn_sigs(f["ty"])):
                    ctx.bad(R("fresh-context"), f"stored:{path}", f"{path} stores an evaluation Context ({f['name']}: {f['ty']})", adt["span"]["s"])
    for s in lib.statics:
        if re.search(r"\bContext<", s["ty"]):
            ctx.bad(R("fresh-context"), f"static:{s['path']}", "a static holds an evaluation Context")
    b = ctx.fn("Expression::<'a>::search", cfg=cfgname, rule=R("fresh-context"))
    if b is not None:
        sig = b.j.get("sig", "")
        ctx.check(re.search(r"fn\(&('[a-z_0-9]+ )?Expression<", sig) is not None and "&mut Expression" not in sig and "&'a mut" not in sig,
                  R("fresh-context"), "search-takes-shared-self", f"Expression::search takes &self ({sig[:80]})", b.span)
        o = Origins(b, lib)
        news = [(bb, t) for bb, t in b.calls() if t["callee"] == "Context::<'a>::new"]
        ctx.check(len(news) == 1, R("fresh-context"), "one-context-per-search", f"search creates exactly one Context (found {len(news)})", b.span)
        interp = [(bb, t) for bb, t in b.calls() if t["callee"] == "interpreter::interpret"]
        ctx.check(len(interp) == 1, R("fresh-context"), "search-calls-interpret", "search calls interpret exactly once", b.span)
        if news and interp:
            a0 = o.of_operand(news[0][1]["args"][0])
            a1 = o.of_operand(news[0][1]["args"][1])
            ok = all(t[0] == "field" and t[2] == "expression" and t[1] == ("param", 1) for t in a0) and \
                all(t[0] == "field" and t[2] == "runtime" and t[1] == ("param", 1) for t in a1)
            ctx.check(ok, R("fresh-context"), "context-args", f"Context::new(self.expression, self.runtime) (found {fmt_terms(a0)}; {fmt_terms(a1)})", b.span)
            c = o.of_operand(interp[0][1]["args"][2])
            ok = all(t[0] == "call" and t[1] == "Context::<'a>::new" for t in c)
            ctx.check(ok, R("fresh-context"), "interpret-gets-fresh-context", f"interpret receives the freshly built context ({fmt_terms(c)})", b.span)
            n = o.of_operand(interp[0][1]["args"][1])
            ok = all(t == ("field", ("param", 1), "ast") for t in n)
            ctx.check(ok, R("fresh-context"), "interpret-gets-own-ast", f"interpret receives self.ast ({fmt_terms(n)})", b.span)
            d = o.of_operand(interp[0][1]["args"][0])
            ok = all(t[0] == "call" and t[1] == "ToJmespath::to_jmespath" and t[2][0] == frozenset({("param", 2)}) for t in d)
            ctx.check(ok, R("fresh-context"), "interpret-gets-converted-data", f"interpret receives to_jmespath(data) unchanged ({fmt_terms(d)})", b.span)
    cn = ctx.fn("Context::<'a>::new", cfg=cfgname, rule=R("fresh-context"))
    if cn is not None:
        o = Origins(cn, lib)
        aggs = [s for _, _, s in cn.stmts() if s["k"] == "assign" and s["rv"]["k"] == "agg" and s["rv"].get("adt") == "Context"]
        ok = len(aggs) == 1
        if ok:
            rv = aggs[0]["rv"]
            vals = dict(zip(rv["fnames"], rv["ops"]))
            ok = o.of_operand(vals["offset"]) == {("const", 0)} and o.of_operand(vals["expression"]) == {("param", 1)} \
                and o.of_operand(vals["runtime"]) == {("param", 2)}
        ctx.check(ok, R("fresh-context"), "context-new", "Context::new = {expression, runtime, offset: 0}", cn.span)

    # ---- 4. who may read Context.offset (write-only on the value path) ------------------------
    readers = set()
    writers = set()
    savers = set()
    for body in lib.fn_bodies():
        for bb, i, s in body.stmts():
            if s["k"] != "assign":
                continue
            # writes
            pl = s["place"]
            if _is_ctx_field(body, pl, "offset"):
                writers.add(body.deff)
            for op in _rv_operands(s["rv"]):
                if op.get("k") in ("copy", "move") and _is_ctx_field(body, op, "offset"):
                    # a read whose value is only ever stored back into Context.offset
                    # (save / restore around a call) does not reach the value path
                    if s["rv"]["k"] == "use" and not pl["p"] and _only_restored(body, pl["l"]):
                        savers.add(body.deff)
                    else:
                        readers.add(body.deff)
            if s["rv"]["k"] in ("ref", "rawptr", "discr") and _is_ctx_field(body, s["rv"]["place"], "offset"):
                readers.add(body.deff)
        for bb, t in body.calls():
            for a in t["args"]:
                if a.get("k") in ("copy", "move") and _is_ctx_field(body, a, "offset"):
                    readers.add(body.deff)
    allowed_readers = {"errors::JmespathError::from_ctx"}
    for r in sorted(readers):
        ctx.check(r in allowed_readers, R("offset-write-only"), f"reader:{r}",
                  f"{r} reads Context.offset (only error construction may)")
    ctx.check("errors::JmespathError::from_ctx" in readers, R("offset-write-only"), "from_ctx-reads",
              "JmespathError::from_ctx is the reader of Context.offset")
    counts["offset_writers"] = sorted(writers)
    counts["offset_savers"] = sorted(savers)

    # ---- 5. inputs are not mutated / no unsafe -------------------------------------------------
    n_unsafe = 0
    for body in lib.fn_bodies():
        for ub in body.j.get("unsafe_blocks", []):
            if ub["user"]:
                n_unsafe += 1
                ctx.bad(R("no-unsafe"), f"block:{body.deff}", f"unsafe block in {body.deff}", ub["span"]["s"])
        if body.j.get("unsafe_fn"):
            n_unsafe += 1
            ctx.bad(R("no-unsafe"), f"fn:{body.deff}", f"unsafe fn {body.deff}", body.span)
    for imp in lib.impls:
        if imp.get("unsafe") and not imp.get("auto_derived"):
            # (`#[derive(Clone, Copy)]` emits `unsafe impl TrivialClone`: compiler-written, span inside the derive)
            n_unsafe += 1
            ctx.bad(R("no-unsafe"), f"impl:{imp.get('trait_ref')}", f"unsafe impl {imp.get('trait_ref')}", imp["span"]["s"])
    ctx.check(n_unsafe == 0, R("no-unsafe"), "inventory", f"no user-written unsafe block, unsafe fn or unsafe impl in the crate ({len(lib.fn_bodies())} bodies, {len(lib.impls)} impls inspected)")
    ncalls = 0
    for body in lib.fn_bodies():
        for bb, t in body.calls():
            ncalls += 1
            for name in {t["callee"], t.get("resolved") or t["callee"]}:
                if RC_MUT.match(name):
                    ctx.bad(R("no-shared-mutation"), f"{body.deff}->{name.split('::')[-1]}",
                            f"{body.deff} calls {name}: can hand out mutable/raw access to shared value storage", t["span"]["s"])
    ctx.check(True, R("no-shared-mutation"), "inventory", f"{ncalls} call sites inspected for Rc/Arc mutation or raw-pointer escape APIs")
    it = ctx.fn("interpreter::interpret", cfg=cfgname, rule=R("no-shared-mutation"))
    if it is not None:
        sig = it.j.get("sig", "")
        ctx.check(re.search(r"fn\(&('[a-z_0-9]+ )?std::(rc::Rc|sync::Arc)<variable::Variable>, &('[a-z_0-9]+ )?ast::Ast, &('[a-z_0-9]+ )?mut Context", sig) is not None,
                  R("no-shared-mutation"), "interpret-signature", f"interpret(data: &Rcvar, node: &Ast, ctx: &mut Context) ({sig[:120]})", it.span)

    # ---- 6. no ambient nondeterminism in reachable code ------------------------------------------
    cg, reach = reachable_bodies(lib)
    ctx.floor(R("nondeterminism"), len(reach), 150, "bodies reachable from compile/search/clone/conversion entry points")
    counts["reachable"] = len(reach)
    for d in sorted(reach):
        body = cg.nodes[d]
        for bb, t in body.calls():
            for name in {t["callee"], t.get("resolved") or t["callee"]}:
                if NONDET_CALLS.match(name):
                    ctx.bad(R("nondeterminism"), f"{d}->{name}", f"{d} calls {name} (ambient state / nondeterminism)", t["span"]["s"])
                if HASH_ITER.match(name):
                    ctx.bad(R("nondeterminism"), f"{d}->{name.split('::')[-1]}", f"{d} iterates a hash container ({name}): order is randomised", t["span"]["s"])
            if t["callee"] == "std::iter::IntoIterator::into_iter" and t.get("callee_args") and re.search(r"Hash(Map|Set)<", t["callee_args"][0]):
                ctx.bad(R("nondeterminism"), f"{d}->into_iter(hash)", f"{d} iterates a hash container: order is randomised", t["span"]["s"])
        for bb, i, s in body.stmts():
            if s["k"] == "assign" and s["rv"]["k"] == "cast" and re.search(r"PointerExposeProvenance|PointerExposeAddress|PtrToInt|FnPtrToPtr", s["rv"]["ck"]):
                if not s["span"]["x"]:
                    ctx.bad(R("nondeterminism"), f"{d}:ptr-to-int", f"{d} converts a pointer to an integer", s["span"]["s"])
    ctx.check(True, R("nondeterminism"), "inventory", f"{len(reach)} reachable bodies inspected for clock/env/fs/net/thread/rand calls, hash iteration, pointer-to-integer casts")

    # ---- 7. clone / compile keep the triple -----------------------------------------------------------
    check_same_triple(ctx, lib, R("clone-is-same-triple"), cfgname)
    return counts


def check_same_triple(ctx, lib, rule, cfgname="default"):
    """Clone / Expression::new / Runtime::compile keep (text, tree, runtime) exactly as given: the text an error is located in is
    the text that was parsed (shared by C13, C16 and C12)."""
    cl = ctx.fn("<Expression<'a> as std::clone::Clone>::clone", cfg=cfgname, rule=rule)
    if cl is not None:
        ctx.check(bool(cl.j.get("auto_derived")), rule, "derived", "Clone for Expression is the derived field-wise impl", cl.span)
    en = ctx.fn("Expression::<'a>::new", cfg=cfgname, rule=rule)
    if en is not None:
        o = Origins(en, lib)
        aggs = [s for _, _, s in en.stmts() if s["k"] == "assign" and s["rv"]["k"] == "agg" and s["rv"].get("adt") == "Expression"]
        ok = len(aggs) == 1
        if ok:
            vals = dict(zip(aggs[0]["rv"]["fnames"], aggs[0]["rv"]["ops"]))
            ok = o.of_operand(vals["ast"]) == {("param", 2)} and o.of_operand(vals["runtime"]) == {("param", 3)} and \
                o.of_operand(vals["expression"]) == {("param", 1)}
        ctx.check(ok, rule, "expression-new", "Expression::new stores exactly (text, tree, runtime) as given", en.span)
    rc = ctx.fn("runtime::Runtime::compile", cfg=cfgname, rule=rule)
    if rc is not None:
        # spelling-independent (map closure, `?`, match): one Expression::new(expression, <what parse(expression) produced>, self)
        ro = Origins(rc, lib)
        news = [t for _, t in rc.calls() if t["callee"] == "Expression::<'a>::new"]
        ok = len(news) == 1
        if ok:
            a = [ro.of_operand(x) for x in news[0]["args"]]
            ok = a[0] == {("param", 2)} and a[2] == {("param", 1)} and bool(a[1]) and \
                all(x[0] == "call" and x[1] == "parser::parse" and set(x[2][0]) == {("param", 2)} for x in a[1])
        pc = [t for bb, t in rc.calls() if t["callee"] == "parser::parse"]
        ok = ok and len(pc) == 1 and ro.of_operand(pc[0]["args"][0]) == {("param", 2)}
        ctx.check(ok, rule, "runtime-compile", "Runtime::compile = parse(expression).map(|ast| Expression::new(expression, ast, self))", rc.span)


def _uses_of(body, local):
    """All (kind, detail) uses of a plain local as an operand / place base."""
    uses = []
    for bb, i, s in body.stmts():
        if s["k"] != "assign":
            continue
        rv = s["rv"]
        for op in _rv_operands(rv):
            if op.get("k") in ("copy", "move") and op["l"] == local:
                uses.append(("rv", s))
        if rv["k"] in ("ref", "rawptr", "discr") and rv["place"]["l"] == local:
            uses.append(("ref", s))
        if s["place"]["l"] == local and s["place"]["p"]:
            uses.append(("partial-write", s))
    for bb in body.reachable():
        t = body.blocks[bb]["term"]
        for op in t.get("args", []) + t.get("msg_ops", []) + [t.get("discr"), t.get("cond")]:
            if op and op.get("k") in ("copy", "move") and op["l"] == local:
                uses.append(("term", t))
    return uses


def _only_restored(body, local, depth=0):
    """Every use of `local` is a plain store into a Context.offset field (possibly
    through copies into other locals with the same property)."""
    if depth > 4:
        return False
    uses = _uses_of(body, local)
    if not uses:
        return True
    for kind, s in uses:
        if kind != "rv" or s["rv"]["k"] != "use":
            return False
        if _is_ctx_field(body, s["place"], "offset"):
            continue
        if not s["place"]["p"] and _only_restored(body, s["place"]["l"], depth + 1):
            continue
        return False
    return True


def _rv_operands(rv):
    out = []
    for k in ("op", "a", "b"):
        if k in rv and isinstance(rv[k], dict):
            out.append(rv[k])
    out.extend(rv.get("ops", []))
    return out


def _is_ctx_field(body, pl, field):
    """Place is <ctx>.field where <ctx> is a (reference to a) Context."""
    proj = pl.get("p", [])
    lt = body.local_ty(pl["l"])
    if not re.search(r"\bContext<", lt):
        return False
    for e in proj:
        if e == "deref":
            continue
        if isinstance(e, dict) and "f" in e:
            return e["name"] == field
        return False
    return False
