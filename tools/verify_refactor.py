#!/usr/bin/env python3
"""Run every check against a behaviour-preserving edit and record the (false) alarms.

usage: verify_refactor.py <src-dir> <k> <edit-id> <property-id> [--no-tests]
  <src-dir>/refactor<k>.diff, <src-dir>/notes.md
The edit is applied to a scratch git worktree of /repo (outside /repo and /verif, removed at the end); the whole
existing test suite must pass with it; then all quick checks run with VERIF_REPO pointing at the worktree.
Stored as /verif/refactors/<edit-id>/{patch.diff, author-notes.md, meta.json}.
"""
import json
import os
import re
import shutil
import sys
import tempfile

sys.path.insert(0, os.path.dirname(os.path.abspath(__file__)))
from verify_seed import PROPS, REPO, VERIF, run_checks, sh  # noqa: E402


def main():
    src, k, eid, pid = sys.argv[1:5]
    diff = os.path.join(src, f"refactor{k}.diff")
    if not os.path.exists(diff):
        print("missing", diff)
        return 2
    wt = tempfile.mkdtemp(prefix="vref-", dir="/tmp")
    os.rmdir(wt)
    rc, out = sh(["git", "-C", REPO, "worktree", "add", "--detach", wt, "HEAD"])
    meta = {"edit": eid, "property": pid, "ran": []}
    try:
        rc, out = sh(["git", "apply", diff], cwd=wt)
        if rc != 0:
            print("patch does not apply:\n" + out[-800:])
            return 1
        if "--no-tests" not in sys.argv:
            rc, out = sh(["cargo", "test", "--offline", "--no-fail-fast"], cwd=os.path.join(wt, "jmespath"))
            res = re.findall(r"test result: (\w+)\. (\d+) passed; (\d+) failed", out)
            meta["ran"].append({"step": "existing test suite with the edit", "rc": rc, "results": res})
            if rc != 0:
                print("tests fail with the edit:\n" + out[-1500:])
                return 1
        alarms = run_checks(wt)
        meta["alarms"] = alarms
        dst = os.path.join(VERIF, "refactors", eid)
        os.makedirs(dst, exist_ok=True)
        shutil.copy(diff, os.path.join(dst, "patch.diff"))
        notes = os.path.join(src, "notes.md")
        if os.path.exists(notes):
            shutil.copy(notes, os.path.join(dst, "author-notes.md"))
        with open(os.path.join(dst, "meta.json"), "w") as fh:
            json.dump(meta, fh, indent=1)
        print(json.dumps({"edit": eid, "alarms": sorted(alarms)}))
        for p, ls in alarms.items():
            for l in ls[:4]:
                print("   ", p, l[:300])
        return 0
    finally:
        sh(["git", "-C", REPO, "worktree", "remove", "--force", wt])
        shutil.rmtree(wt, ignore_errors=True)


if __name__ == "__main__":
    sys.exit(main())
