#!/usr/bin/env python3
"""Write the per-property prompt files for a round of seeded changes or behaviour-preserving edits, and create the scratch
worktrees the agents work in (outside /repo and /verif).   usage: gen_prompts.py seed|refactor <dir> <flavour-file>
The agent sees only the prompt: the property text (from properties.jsonl) and the path of its own worktree."""
import json
import os
import subprocess
import sys

VERIF = os.path.dirname(os.path.dirname(os.path.abspath(__file__)))
PROPS = [p for p in os.environ.get("VERIF_PROPS", "").split(",") if p] or [f"C{n:02d}" for n in range(1, 19) if n != 9]

EXTRA = {
    "C16": "EXTRA: the property concerns the `sync` feature. Your demonstrations will be run with `cargo test --offline --features sync --test <demo>`; the existing suite must pass with and without `--features sync`.\n",
    "C17": "EXTRA: a nightly toolchain is installed (`cargo +nightly ...`), needed for the `specialized` feature. Demonstration 1 will be run with `cargo +nightly test --offline --features specialized --test demo1`, demonstration 2 with default features on stable (`cargo test --offline --test demo2`): change 1 must show under `specialized`, change 2 under the default build. The existing suite must pass under default, `--features sync` and `+nightly --features specialized`.\n",
    "C18": "EXTRA: the demonstrations are shell scripts demo<k>.sh, run from the worktree root as `JP=/path/to/jp sh demo<k>.sh` (exit 0 = the property holds, non-zero = broken). `jmespath-cli` does not build offline with its own Cargo.lock (one dependency is not in the offline registry): build `jp` through a scratch manifest instead — a directory `@DIR@/jpbuild` with a Cargo.toml `[package] name=\"jpbuild\" version=\"0.0.0\" edition=\"2018\"`, `[[bin]] name=\"jp\" path=\"@DIR@/jmespath-cli/src/main.rs\"`, `[dependencies] serde=\"1\" serde_json=\"1\" clap=\"2.33\" jmespath={path=\"@DIR@/jmespath\"}`, `[workspace]`, then `cargo build --offline` there — and remove it before you finish.\n",
}


def prop_text(p):
    return (f"{p['id']} — {p.get('title', '')}\n\nStatement: {p.get('statement', '')}\n\nQuantifier: {p.get('quantifier')}\n\n"
            f"Anchors (where to look): {json.dumps(p.get('anchors'))}")


def main():
    kind, root, flavour = sys.argv[1], sys.argv[2], open(sys.argv[3]).read()
    props = {json.loads(l)["id"]: json.loads(l) for l in open(os.path.join(VERIF, "properties.jsonl")) if l.strip()}
    os.makedirs(root, exist_ok=True)
    for pid in PROPS:
        d = os.path.join(root, pid)
        subprocess.run(["git", "-C", "/repo", "worktree", "add", "--detach", d, "HEAD", "-q"], check=True)
        text = flavour.replace("@DIR@", d).replace("@ID@", pid).replace("@PROPERTY@", prop_text(props[pid]))
        text = text.replace("@EXTRA@", EXTRA.get(pid, "").replace("@DIR@", d) if kind == "seed" else "")
        with open(os.path.join(root, pid + ".prompt.txt"), "w") as fh:
            fh.write(text)
    print(len(PROPS), "worktrees and prompts under", root)


if __name__ == "__main__":
    main()
