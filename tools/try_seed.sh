#!/bin/bash
# usage: try_seed.sh <patch.diff> PROP...   — apply the patch to a scratch worktree of /repo and run the named quick checks on it
set -e
patch=$(readlink -f "$1"); shift
wt=$(mktemp -d /tmp/vtry-XXXXXX); rmdir "$wt"
git -C /repo worktree add --detach "$wt" HEAD -q
trap 'git -C /repo worktree remove --force "$wt" >/dev/null 2>&1; rm -rf "$wt"' EXIT
git -C "$wt" apply "$patch"
for p in "$@"; do
  VERIF_REPO="$wt" VERIF_EVIDENCE_DIR="$wt/evidence" /verif/verif check "$p" --tier quick 2>&1 | grep -E "^(VIOLATION:|MISSING:|C[0-9]+ \[)" | sed -E 's/ @ [^ ]+//' | cut -c1-330
done
