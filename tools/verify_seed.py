#!/usr/bin/env python3
"""Confirm a seeded change and run every check against it.

usage: verify_seed.py <src-dir> <k> <seed-id> <property-id> [+toolchain] [cargo test args for the demonstration]
  <src-dir>/change<k>.diff, <src-dir>/demo<k>.rs|.sh, <src-dir>/notes.md

Steps (all in a scratch git worktree of /repo outside /repo and /verif, removed at the end):
  1. demonstration on the pristine tree must pass,
  2. the change must apply and the whole existing test suite must still pass,
  3. the demonstration must fail with the change,
  4. every registered check is run against the changed tree (VERIF_REPO) and the alarms are recorded.
The seed is stored under /verif/seeded/<seed-id>/ only if 1-3 hold.
"""
import json
import os
import re
import shutil
import subprocess
import sys
import tempfile

VERIF = os.path.dirname(os.path.dirname(os.path.abspath(__file__)))
REPO = "/repo"
PROPS = [f"C{n:02d}" for n in range(1, 19) if n != 9]


def sh(cmd, cwd=None, env=None, timeout=1800):
    r = subprocess.run(cmd, cwd=cwd, env=env, shell=isinstance(cmd, str), capture_output=True, text=True, timeout=timeout)
    return r.returncode, r.stdout + r.stderr


def run_demo(wt, demo, k):
    if demo.endswith(".rs"):
        dst = os.path.join(wt, "jmespath", "tests", f"seed_demo_{k}.rs")
        shutil.copy(demo, dst)
        try:
            return sh(["cargo"] + DEMO_TOOLCHAIN + ["test", "--offline"] + DEMO_ARGS + ["--test", f"seed_demo_{k}"], cwd=os.path.join(wt, "jmespath"))
        finally:
            os.remove(dst)
    else:
        # CLI demonstrations take JP=<binary>: build jp from *this* worktree through a scratch manifest
        jb = os.path.join(wt, "jpbuild")
        os.makedirs(jb, exist_ok=True)
        with open(os.path.join(jb, "Cargo.toml"), "w") as fh:
            fh.write('[package]\nname = "jpbuild"\nversion = "0.0.0"\nedition = "2018"\n[[bin]]\nname = "jp"\n'
                     f'path = "{wt}/jmespath-cli/src/main.rs"\n[dependencies]\nserde = "1"\nserde_json = "1"\nclap = "2.33"\n'
                     f'jmespath = {{ path = "{wt}/jmespath" }}\n[workspace]\n')
        shutil.copy(os.path.join(VERIF, "shadow.lock"), os.path.join(jb, "Cargo.lock"))
        rc, out = sh(["cargo", "build", "--offline"], cwd=jb)
        if rc != 0:
            return 2, "jp build failed:\n" + out[-2000:]
        env = dict(os.environ)
        env["SEED_WORKTREE"] = wt
        env["JP"] = os.path.join(jb, "target", "debug", "jp")
        return sh(["sh", demo], cwd=wt, env=env)


DEMO_TOOLCHAIN = []
DEMO_ARGS = []


def run_checks(wt):
    caught = {}
    evd = os.path.join(wt, "evidence")
    for p in PROPS:
        e = dict(os.environ)
        e["VERIF_REPO"] = wt
        e["VERIF_EVIDENCE_DIR"] = evd
        rc, out = sh([os.path.join(VERIF, "verif"), "check", p, "--tier", "quick"], cwd=VERIF, env=e)
        lines = [l for l in out.splitlines() if l.startswith(("VIOLATION:", "MISSING:", "cannot extract"))]
        if rc != 0:
            caught[p] = [re.sub(r"\s+@ .*?key=", " key=", l)[:400] for l in lines][:6]
    return caught


def recheck(seed_ids):
    """Re-run every check against already confirmed seeds (patch from /verif/seeded/<id>/) and refresh meta.json."""
    rc_all = 0
    for sid in seed_ids:
        d = os.path.join(VERIF, "seeded", sid)
        meta = json.load(open(os.path.join(d, "meta.json")))
        wt = tempfile.mkdtemp(prefix="vseed-", dir="/tmp")
        os.rmdir(wt)
        rc, out = sh(["git", "-C", REPO, "worktree", "add", "--detach", wt, "HEAD"])
        try:
            rc, out = sh(["git", "apply", os.path.join(d, "patch.diff")], cwd=wt)
            if rc != 0:
                print(sid, "patch does not apply any more:", out[-300:])
                rc_all = 1
                continue
            caught = run_checks(wt)
            meta["caught_by"] = caught
            meta["caught_by_own_property"] = meta["property"] in caught
            with open(os.path.join(d, "meta.json"), "w") as fh:
                json.dump(meta, fh, indent=1)
            print(json.dumps({"seed": sid, "caught_by": sorted(caught), "own": meta["property"] in caught}), flush=True)
            if meta["property"] not in caught:
                rc_all = 1
        finally:
            sh(["git", "-C", REPO, "worktree", "remove", "--force", wt])
            shutil.rmtree(wt, ignore_errors=True)
    return rc_all


def main():
    if sys.argv[1] == "--recheck":
        ids = sys.argv[2:] or sorted(x for x in os.listdir(os.path.join(VERIF, "seeded")) if os.path.isdir(os.path.join(VERIF, "seeded", x)))
        return recheck(ids)
    src, k, seed_id, pid = sys.argv[1:5]
    # optional: how the demonstration has to be built, e.g. "+nightly --features specialized"
    for a in " ".join(sys.argv[5:]).split():
        (DEMO_TOOLCHAIN if a.startswith("+") else DEMO_ARGS).append(a)
    diff = os.path.join(src, f"change{k}.diff")
    demo = next((os.path.join(src, f"demo{k}{e}") for e in (".rs", ".sh") if os.path.exists(os.path.join(src, f"demo{k}{e}"))), None)
    if not os.path.exists(diff) or demo is None:
        print("missing deliverables")
        return 2
    wt = tempfile.mkdtemp(prefix="vseed-", dir="/tmp")
    os.rmdir(wt)
    rc, out = sh(["git", "-C", REPO, "worktree", "add", "--detach", wt, "HEAD"])
    if rc != 0:
        print(out)
        return 2
    meta = {"seed": seed_id, "property": pid, "demo_build": " ".join(DEMO_TOOLCHAIN + DEMO_ARGS) or "default features, stable", "ran": []}
    ok = False
    try:
        env = dict(os.environ)
        env["CARGO_TARGET_DIR"] = os.path.join(wt, "jmespath", "target")
        rc, out = run_demo(wt, demo, k)
        meta["ran"].append({"step": "demo on pristine tree", "rc": rc})
        if rc != 0:
            print("demo fails on the pristine tree:\n" + out[-2000:])
            return 1
        rc, out = sh(["git", "apply", diff], cwd=wt)
        if rc != 0:
            print("patch does not apply:\n" + out[-1500:])
            return 1
        rc, out = sh(["cargo", "test", "--offline", "--no-fail-fast"], cwd=os.path.join(wt, "jmespath"))
        res = re.findall(r"test result: (\w+)\. (\d+) passed; (\d+) failed", out)
        meta["ran"].append({"step": "existing test suite with the change", "rc": rc, "results": res})
        if rc != 0 or any(r[0] != "ok" for r in res):
            print("existing tests fail with the change:\n" + out[-2500:])
            return 1
        rc, out = run_demo(wt, demo, k)
        meta["ran"].append({"step": "demo with the change", "rc": rc})
        if rc == 0:
            print("demo still passes with the change")
            return 1
        # run all checks against the changed tree
        caught = run_checks(wt)
        meta["caught_by"] = caught
        meta["caught_by_own_property"] = pid in caught
        dst = os.path.join(VERIF, "seeded", seed_id)
        os.makedirs(dst, exist_ok=True)
        shutil.copy(diff, os.path.join(dst, "patch.diff"))
        shutil.copy(demo, os.path.join(dst, "demo" + os.path.splitext(demo)[1]))
        notes = os.path.join(src, "notes.md")
        if os.path.exists(notes):
            shutil.copy(notes, os.path.join(dst, "author-notes.md"))
        with open(os.path.join(dst, "meta.json"), "w") as fh:
            json.dump(meta, fh, indent=1)
        print(json.dumps({"seed": seed_id, "caught_by": sorted(caught), "own": pid in caught}, indent=None))
        for p, ls in caught.items():
            for l in ls[:3]:
                print("   ", p, l[:300])
        ok = True
        return 0
    finally:
        sh(["git", "-C", REPO, "worktree", "remove", "--force", wt])
        shutil.rmtree(wt, ignore_errors=True)


if __name__ == "__main__":
    sys.exit(main())
