#!/usr/bin/env python3
"""Write vlib/known_functions.json: the def paths of every fn/method body of the current /repo tree in all four
feature configurations (+ the CLI). Functions not in this list are treated as helpers and inlined into their callers
before the rules run (vlib/inline.py). Regenerate only when the rules have been reviewed against a new tree."""
import json
import os
import sys

sys.path.insert(0, os.path.dirname(os.path.dirname(os.path.abspath(__file__))))
from vlib import build  # noqa: E402


def main():
    thash, paths = build.extract(list(build.CONFIGS), with_cli=True)
    names = set()
    sigs = {}
    for cfg, d in paths.items():
        for k, p in d.items():
            j = json.load(open(p))
            for b in j["bodies"]:
                if b.get("promoted") is None and b["kind"] in ("fn", "method"):
                    names.add(b["def"])
                    e = sigs.setdefault(b["def"], {"sig": b.get("sig"), "where": [], "public": str(b.get("vis", "")).startswith("Public")})
                    if [j.get("crate"), j.get("tag")] not in e["where"]:
                        e["where"].append([j.get("crate"), j.get("tag")])
    with open(os.path.join(os.path.dirname(os.path.dirname(os.path.abspath(__file__))), "vlib", "known_signatures.json"), "w") as fh:
        json.dump(sigs, fh, indent=0, sort_keys=True)
    out = os.path.join(os.path.dirname(os.path.dirname(os.path.abspath(__file__))), "vlib", "known_functions.json")
    with open(out, "w") as fh:
        json.dump(sorted(names), fh, indent=0)
    print(len(names), "function names written to", out)


if __name__ == "__main__":
    main()
