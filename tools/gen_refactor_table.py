#!/usr/bin/env python3
"""Regenerate the behaviour-preserving-edit table of DESIGN.md (between the REFACTOR-TABLE markers) from refactors/*/meta.json."""
import glob
import json
import os
import re

VERIF = os.path.dirname(os.path.dirname(os.path.abspath(__file__)))


def summary(notes, k):
    # the k-th edit's first descriptive line in the author's notes
    heads = list(re.finditer(r"(?mi)^#+\s*.*?(edit|refactor)\s*%d\b.*$" % k, notes))
    if heads:
        h = heads[0].group(0).lstrip("# ").strip()
        body = notes[heads[0].end():heads[0].end() + 400]
        first = " ".join(body.strip().split("\n\n")[0].split())
        return (h + " — " + first)[:170]
    return ""


def main():
    rows = ["| edit | what the maintainer-style edit does (author's notes) | alarms when first run | alarms now |", "|---|---|---|---|"]
    first = {}
    fp = os.path.join(VERIF, "refactors", "first_run.json")
    if os.path.exists(fp):
        first = json.load(open(fp))
    n_alarm = 0
    for d in sorted(glob.glob(os.path.join(VERIF, "refactors", "C*-*"))):
        m = json.load(open(os.path.join(d, "meta.json")))
        k = int(m["edit"].split("-")[-1])
        notes = open(os.path.join(d, "author-notes.md")).read() if os.path.exists(os.path.join(d, "author-notes.md")) else ""
        now = sorted(m.get("alarms", {}))
        n_alarm += bool(now)
        was = first.get(m["edit"], [])
        rows.append(f"| {m['edit']} | {summary(notes, k).replace('|', '/')} | {', '.join(was) or '—'} | {', '.join(now) or '—'} |")
    p = os.path.join(VERIF, "DESIGN.md")
    s = open(p).read()
    s = re.sub(r"<!-- REFACTOR-TABLE-BEGIN -->.*?<!-- REFACTOR-TABLE-END -->",
               lambda _: "<!-- REFACTOR-TABLE-BEGIN -->\n" + "\n".join(rows) + "\n<!-- REFACTOR-TABLE-END -->", s, flags=re.S)
    open(p, "w").write(s)
    print(len(rows) - 2, "edits tabulated;", n_alarm, "still alarm")


if __name__ == "__main__":
    main()
