#!/usr/bin/env python3
"""Re-run every quick check against the stored behaviour-preserving edits (/verif/refactors/<id>/patch.diff) and
refresh their meta.json. Exit 1 if any edit still raises an alarm.   usage: recheck_refactors.py [--alarmed] [ids...]"""
import json
import os
import shutil
import sys
import tempfile

sys.path.insert(0, os.path.dirname(os.path.abspath(__file__)))
from verify_seed import REPO, VERIF, run_checks, sh  # noqa: E402


def main():
    args = [a for a in sys.argv[1:] if not a.startswith("--")]
    root = os.path.join(VERIF, "refactors")
    ids = args or sorted(x for x in os.listdir(root) if os.path.isdir(os.path.join(root, x)))
    rc_all = 0
    for eid in ids:
        d = os.path.join(root, eid)
        meta = json.load(open(os.path.join(d, "meta.json")))
        if "--alarmed" in sys.argv and not meta.get("alarms"):
            continue
        wt = tempfile.mkdtemp(prefix="vref-", dir="/tmp")
        os.rmdir(wt)
        sh(["git", "-C", REPO, "worktree", "add", "--detach", wt, "HEAD"])
        try:
            rc, out = sh(["git", "apply", os.path.join(d, "patch.diff")], cwd=wt)
            if rc != 0:
                print(eid, "patch does not apply any more")
                continue
            alarms = run_checks(wt)
            meta["alarms"] = alarms
            with open(os.path.join(d, "meta.json"), "w") as fh:
                json.dump(meta, fh, indent=1)
            print(json.dumps({"edit": eid, "alarms": sorted(alarms)}), flush=True)
            if alarms:
                rc_all = 1
        finally:
            sh(["git", "-C", REPO, "worktree", "remove", "--force", wt])
            shutil.rmtree(wt, ignore_errors=True)
    return rc_all


if __name__ == "__main__":
    sys.exit(main())
